"""C16 — Removing a pairing cuts that controller off.

Histories with 2-4 controllers holding 0-2 open sessions each on real HAPServerProtocol objects
(sessions established by the real pair-verify with the reference controller, or planted the way the
handler tests do), removal by self / another admin / through the last-admin rule via real
POST /pairings requests, then GET/PUT/subscribe/prepare/list on every old connection and a fresh
verify attempt.  Oracle: after the removal response, nothing is served to a removed controller and
its transports are closed; the acknowledgement reaches the remover.
"""
from __future__ import annotations

import asyncio
import json
import logging
import uuid as uuidlib
from typing import Any, Dict, List, Optional

from common import Ctx, ModelError, delta_min, hx, run_model_parallel
from props import c02
from ref import pairverify_client as rc
from ref import tlv8

PROP = "C16"
LEAN_MODULE = "Props.C16"
TRUSTED = [
    "Lean 4.33 kernel; axioms propext, Classical.choice, Quot.sound only (audited by #print axioms)",
    "hand-written model lean/HapModel/Sessions.lean (registry, dispatch guards, handle_pairings add/remove/list with the "
    "last-admin rule, _process_response teardown after the write) + HapModel/PairVerify.lean, tied by this differential run",
    "asyncio transport contract: no data_received after transport.close(); bytes written after close reach nobody "
    "(the fake transport implements exactly this); one data_received may carry several pipelined requests",
    "harness/ref/pairverify_client.py (independent controller, frame codec, HTTP reader), harness/ref/tlv8.py, generators",
    "rig configuration (generator dimension, invisible to the model by design): stock classes or application subclasses of "
    "AccessoryDriver / Accessory overriding the public hooks in the usual style; IPv4 or IPv6 peer names",
    "removal through AccessoryDriver.unpair()/State.remove_paired_client() called by the application is outside the "
    "property (no acknowledgement exists) and not modelled",
    "a restart is the Sessions model's `restart` step: every connection and handler gone, pairing map kept (that the state "
    "file carries the pairing map faithfully is C14/C15's subject); the harness performs it for real: real persist()/load() on a "
    "state file, saves handed to the executor are carried out at once, AccessoryDriver.async_stop() runs for real with a stub "
    "advertiser whose goodbye the harness holds open (shutdown window; the connections async_stop closes are peer-closes to the model)",
    "delayed responses (POST /resource whose snapshot is still being taken) are in the model (`resource` request, `ready` step) and "
    "compared; the accessory's camera is a harness stub whose snapshot completes or fails when the harness says so. A request cut "
    "in the middle (headers only / half a body) is produced by the generator and judged by the oracle only until it completes: the "
    "Sessions model has no partial-request state (a completed partial request is compared as one request); a further request on a "
    "connection whose delayed response is outstanding is not generated (h11 refuses it; C19's subject)",
]

CT = c02.CT
JS = "application/hap+json"
IDS = c02.IDS
PROT_NAMES = ["GET /accessories", "GET /characteristics", "PUT /characteristics (write)", "PUT /characteristics (subscribe)", "PUT /prepare"]


class LogTransport(c02.FakeTransport):
    def __init__(self, peer, cid, log):
        super().__init__(peer)
        self.cid = cid
        self.log = log

    def write(self, data):
        dead = self.closed or self.eof
        super().write(data)
        self.log.append(("d" if dead else "w", self.cid))

    def close(self):
        if not self.closed:
            self.log.append(("c", self.cid))
        super().close()


class _GateAdvertiser:
    """mDNS advertiser whose goodbye takes as long as the harness wants (the shutdown window)."""

    def __init__(self, loop):
        self.gate = loop.create_future()

    async def async_unregister_service(self, _info):
        await self.gate

    async def async_close(self):
        return None

    async def async_update_service(self, _info):
        return None


class World16(c02.World):
    def __init__(self, rng, persist_file=None, cfg=None):
        super().__init__(rng, persist_file, cfg)
        self.stop_task = None
        acc = self.driver.accessory
        serv = acc.add_preload_service("Lightbulb")
        self.char = serv.get_characteristic("On")
        self.aid = acc.aid
        self.iid = acc.iid_manager.get_iid(self.char)
        self.log: List[tuple] = []
        self.snap_futs: List[Any] = []

        async def async_get_snapshot(_data):
            fut = self.loop.create_future()
            self.snap_futs.append(fut)
            return await fut

        acc.async_get_snapshot = async_get_snapshot  # a camera whose snapshot takes as long as the harness wants

    def begin_stop(self):
        """The application calls AccessoryDriver.async_stop(): it runs up to the pending mDNS goodbye."""
        from unittest.mock import AsyncMock, MagicMock, patch

        d = self.driver
        d.advertiser = _GateAdvertiser(self.loop)
        d.aio_stop_event = asyncio.Event()
        # the HAP server is started through its own public entry point (only the listening socket is a stub), so that
        # whatever it keeps for its idle sweep exists under whatever name
        with patch.object(self.loop, "create_server", AsyncMock(return_value=MagicMock())):
            self.loop.run_until_complete(d.http_server.async_start(self.loop))
        self.stop_task = self.loop.create_task(d.async_stop())
        self.tick()

    def end_stop(self):
        """The goodbye is out: async_stop() goes on and closes the HAP server."""
        if self.stop_task is None:
            return
        gate = self.driver.advertiser.gate
        if not gate.done():
            gate.set_result(None)
        self.tick(8)

    def tick(self, n: int = 3):
        import asyncio as _a

        for _ in range(n):
            self.loop.run_until_complete(_a.sleep(0))

    def close(self):
        for f in self.snap_futs:
            if not f.done():
                f.cancel()
        try:
            self.tick()
        except Exception:  # noqa: BLE001
            pass
        super().close()

    def send_raw(self, c: int, plain: bytes):
        """Bytes of a request (possibly incomplete) the way the controller's transport carries them."""
        p, t, r = self.protos[c], self.transports[c], self.rconn[c]
        wire = r.session.seal(plain) if r.session else plain
        try:
            p.data_received(wire)
        except Exception as ex:  # noqa: BLE001
            return type(ex).__name__
        return None

    def read_written(self, c: int):
        """Parse whatever was written on connection c since the last read: [(message|None, dropped)]."""
        t, r = self.transports[c], self.rconn[c]
        res = []
        for buf, dropped in ((bytes(t.out), False), (bytes(t.dropped), True)):
            if r.session and buf:
                buf, ok = r.session.feed(buf)
                if not ok:
                    res.append((None, dropped))
                    continue
            msgs, _ = rc.parse_http_responses(buf)
            res += [(m, dropped) for m in msgs]
        t.out.clear()
        t.dropped.clear()
        return res

    def connect(self, c: int) -> bool:
        """connection_made for peer c; False if that peer already has a registered connection."""
        if c in self.protos and not self.transports[c].closed:
            return False
        p = self.hap_protocol.HAPServerProtocol(self.loop, self.connections, self.driver)
        t = LogTransport(self.peer(c), c, self.log)
        p.connection_made(t)
        self.protos[c], self.transports[c], self.rconn[c] = p, t, c02.RefConn()
        return True

    def live(self) -> List[int]:
        return sorted(c for c, t in self.transports.items() if not t.closed)

    def prot_request(self, kind: int, shape: str = "ka") -> bytes:
        ident = f"{self.aid}.{self.iid}"
        if kind == 0:
            return rc.http_request("GET", "/accessories", shape=shape)
        if kind == 1:
            return rc.http_request("GET", "/characteristics?id=" + ident, shape=shape)
        if kind == 2:
            body = json.dumps({"characteristics": [{"aid": self.aid, "iid": self.iid, "value": True}]}).encode()
            return rc.http_request("PUT", "/characteristics", body, JS, shape=shape)
        if kind == 3:
            body = json.dumps({"characteristics": [{"aid": self.aid, "iid": self.iid, "ev": True}]}).encode()
            return rc.http_request("PUT", "/characteristics", body, JS, shape=shape)
        body = json.dumps({"ttl": 1000, "pid": 7}).encode()
        return rc.http_request("PUT", "/prepare", body, JS, shape=shape)

    def chunk(self, c: int, raws: List[bytes]) -> List[Dict[str, Any]]:
        """One data_received with all requests; returns one entry per written response (in order):
        {"msg": parsed response | None, "dropped": bool}."""
        p, t, r = self.protos[c], self.transports[c], self.rconn[c]
        wire = b"".join(raws)
        if r.session:
            wire = r.session.seal(wire)
        t.out.clear()
        t.dropped.clear()
        raised = None
        try:
            p.data_received(wire)
        except Exception as ex:  # noqa: BLE001
            raised = type(ex).__name__
            # asyncio's answer to an exception escaping data_received: this one transport is force-closed
            # (_fatal_error -> connection_lost); nothing else happens to the other connections
            t.closed = True
            try:
                p.connection_lost(ex)
            except Exception:  # noqa: BLE001
                pass
        res = []
        for buf, dropped in ((bytes(t.out), False), (bytes(t.dropped), True)):
            if r.session and buf:
                buf, ok = r.session.feed(buf)
                if not ok:
                    res.append({"msg": None, "dropped": dropped, "garbled": True})
                    continue
            msgs, _ = rc.parse_http_responses(buf)
            res += [{"msg": m, "dropped": dropped} for m in msgs]
        t.out.clear()
        t.dropped.clear()
        if raised:
            res.append({"msg": None, "dropped": True, "raised": raised})
        return res


def classify(req: Dict[str, Any], m: Optional[Dict[str, Any]]):
    """Response class (same vocabulary as the model driver)."""
    if m is None:
        return "none"
    st = m["status"]
    kind = req["r"]
    if kind == "pv":
        got = c02.canon_resp(m)
        return {"pv": got}
    if st == 500:
        return "500"
    if st == 401:
        return "401"
    if kind == "prot":
        return {"served": req["kind"]} if 200 <= st < 300 else f"status{st}"
    if kind == "resource":
        return {"served": 5} if 200 <= st < 300 else f"status{st}"
    # /pairings
    if st == 200 and m["headers"].get("content-type") == CT:
        recs = tlv8.records(m["body"])
        d = tlv8.merge_dict(recs)
        if d.get(rc.T_ERROR):
            return "denied"
        if kind == "list":
            return {"list": sum(1 for t, _ in recs if t == rc.T_ID)}
        return "ack"
    return f"status{st}"


def is_served(cls) -> bool:
    return isinstance(cls, dict) and ("served" in cls or "list" in cls)


class Runner16(c02.Runner):
    def __init__(self, ctx: Ctx, script, keyseed: int):
        import random

        self.ctx = ctx
        self.script = script
        self.krng = random.Random(keyseed)
        self.persist_file = None
        if any(op["op"] in ("restart", "stop_begin") for op in script):
            import os
            import tempfile

            fd, self.persist_file = tempfile.mkstemp(prefix="verif-c16-", suffix=".state")
            os.close(fd)
            os.unlink(self.persist_file)  # a fresh accessory: the first save creates it
        self.cfg = c02.script_cfg(script)
        self.w = World16(self.krng, self.persist_file, self.cfg)
        self.sk = {j: rc.ed25519.Ed25519PrivateKey.from_private_bytes(self._rb(32)) for j in (0, 1, 2, 3, 9)}
        self.ref_paired = {}
        self.all_ex = []
        self.tables = {k: [] for k in ("pub", "dh", "hkdf", "dec", "verify", "keyok", "uuid")}
        self.keys_seen = []
        self.mops: List[Dict[str, Any]] = []
        self.impl: List[Dict[str, Any]] = []
        self.fails = []
        self.outcomes: List[str] = []
        self.clock = 0  # mirrors the model's step counter (names of the accessory's ephemeral key pairs)
        self.acked_removals = 0
        self.busy: Dict[int, Dict[str, Any]] = {}  # connections with a request in flight (judged by the oracle only)

    # ---- helpers
    def uuid_of(self, i: int) -> uuidlib.UUID:
        return uuidlib.UUID(IDS[i])

    def record(self, mop: Dict[str, Any], start: int, resp_classes: Dict[int, List[Any]], compare_events: bool = True,
               live_override: Optional[List[int]] = None, strip_close: Optional[int] = None):
        """Turn the transport log slice of this op into the event list the model speaks."""
        events = []
        idx = {c: 0 for c in resp_classes}
        for kind, c in self.w.log[start:]:
            if kind == "c":
                events.append({"e": "close", "conn": c})
            else:
                lst = resp_classes.get(c, [])
                k = idx.get(c, 0)
                cls = lst[k] if k < len(lst) else "unexpected-write"
                idx[c] = k + 1
                events.append({"e": "resp" if kind == "w" else "dropped", "conn": c, "rc": cls})
        if not compare_events:
            events = []
        self.stripped_close = False
        if strip_close is not None and events and events[-1] == {"e": "close", "conn": strip_close}:
            events.pop()  # the close that answers `Connection: close` / HTTP/1.0 (the model sees it as the next step)
            self.stripped_close = True
            live_override = sorted(set(self.w.live()) | {strip_close})
        st = self.w.driver.state
        paired = sorted([u.bytes.hex(), hx(k), bool(st.is_admin(u))] for u, k in st.paired_clients.items())
        self.mops.append(mop)
        self.impl.append({"events": events, "live": self.w.live() if live_override is None else live_override, "paired": paired})

    def currently_paired(self, u) -> bool:
        return u in self.ref_paired

    # ---- ops
    def op_pair(self, n, op):
        ident = c02.spell(op["id"], "upper")
        key = self.pub(op["key"])
        u = self.uuid_of(op["id"])
        self.w.driver.pair(ident, key, b"\x01" if op["admin"] else b"\x00")
        self.ref_pair(u, key, op["admin"])
        self.note_key(key)
        self.clock += 1
        self.record({"op": "pair", "uuid": u.bytes.hex(), "key": hx(key), "admin": bool(op["admin"])}, len(self.w.log), {})
        self.outcomes.append("pair")

    def op_connect(self, n, op):
        start = len(self.w.log)
        if self.w.connect(op["conn"]):
            self.clock += 1
        self.record({"op": "connect", "conn": op["conn"]}, start, {})
        self.outcomes.append("connect")

    def op_peerclose(self, n, op):
        c = op["conn"]
        if c not in self.w.protos:
            return
        start = len(self.w.log)
        if not self.w.transports[c].closed:
            self.w.protos[c].connection_lost(None)
        else:
            pass
        self.clock += 1
        self.record({"op": "peerclose", "conn": c}, start, {}, compare_events=False)
        self.outcomes.append("peerclose")

    def deliver(self, c: int, reqs: List[Dict[str, Any]], raws: List[bytes], mreqs: List[Dict[str, Any]]):
        """One chunk on connection c; oracle for every response; model op."""
        w = self.w
        t, r = w.transports[c], w.rconn[c]
        start = len(w.log)
        if t.closed:
            # asyncio delivers nothing on a closed transport
            self.record({"op": "chunk", "conn": c, "reqs": mreqs}, start, {})
            self.outcomes.append("undeliverable")
            return []
        owner = r.verified_as
        res = w.chunk(c, raws)
        # a request that asks for the connection to be closed (Connection: close / HTTP/1.0) is the last one processed
        last = next((k for k, q in enumerate(reqs) if q.get("shape", "ka") != "ka"), None)
        if last is not None:
            reqs, mreqs = reqs[: last + 1], mreqs[: last + 1]
        self.clock += len(reqs)
        classes = []
        for k, req in enumerate(reqs):
            e = res[k] if k < len(res) else None
            classes.append((classify(req, e["msg"]) if e else "none", bool(e and e["dropped"])))
        # ---- oracle: what the property demands of these answers
        for req, (cls, dropped) in zip(reqs, classes):
            if req["r"] in ("prot", "list") and is_served(cls):
                if owner is None:
                    self.fail("C16:served-without-session", f"{_rn(req)} served on connection {c} that holds no verified session")
                elif not self.currently_paired(owner) or r.__dict__.get("cut"):
                    if dropped:
                        self.fail(
                            "C16:pipelined-request-served-after-removal",
                            f"{_rn(req)} on connection {c} of controller {_ix(owner)}, sent in the same segment as the removal, was "
                            f"processed after the removal had been acknowledged ({self.acked_removals} acknowledged removal(s) before)",
                        )
                    else:
                        self.fail(
                            "C16:open-session-served-after-removal",
                            f"{_rn(req)} on connection {c}, a session of controller {_ix(owner)} whose pairing was removed "
                            f"(removal acknowledged earlier), was served: {cls}",
                        )
            if req["r"] == "remove" and cls == "ack":
                # the reference's own record of what an acknowledged removal means
                before = set(self.ref_paired)
                self.ref_unpair(self.uuid_of(req["id"]) if "id" in req else None)
                gone = before - set(self.ref_paired)
                self.acked_removals += 1
                if dropped:
                    self.fail("C16:ack-lost", f"the acknowledgement of the removal sent on connection {c} was written after its transport had been closed")
                for rd in w.rconn.values():
                    if rd.verified_as in gone:
                        rd.cut = True  # a session that was open when its controller's removal was acknowledged
            if req["r"] == "add" and cls == "ack":
                self.ref_pair(self.uuid_of(req["id"]), self.pub(req["key"]), req["admin"])
        # the accessory closes the requester's connection after a close-shaped request, unless the tear-down did already
        own_cut = owner is not None and (not self.currently_paired(owner) or r.__dict__.get("cut"))
        self.record({"op": "chunk", "conn": c, "reqs": mreqs}, start, {c: [cl for cl, _ in classes]},
                    strip_close=c if (last is not None and not own_cut) else None)
        if self.stripped_close:
            self.clock += 1
            self.record({"op": "peerclose", "conn": c}, len(w.log), {}, compare_events=False)
        # ---- oracle: after the chunk that acknowledged a removal, the removed controllers' transports are closed
        if any(req["r"] == "remove" and cls == "ack" for req, (cls, _) in zip(reqs, classes)):
            for d, rd in w.rconn.items():
                if rd.verified_as is not None and (not self.currently_paired(rd.verified_as) or rd.__dict__.get("cut")) and not w.transports[d].closed:
                    self.fail(
                        "C16:session-left-open-after-removal",
                        f"connection {d}, a verified session of controller {_ix(rd.verified_as)}, is still open after the removal of "
                        f"its pairing was acknowledged on connection {c}",
                    )
        for req, (cls, dropped) in zip(reqs, classes):
            self.outcomes.append(f"{req['r']}-{_cl(cls)}" + ("-dropped" if dropped else ""))
        return classes

    def run(self):
        try:
            return super().run()
        finally:
            if self.persist_file:
                import os

                try:
                    os.unlink(self.persist_file)
                except OSError:
                    pass

    # ---- shutdown and restart
    def _model_closes(self, closed_now, note):
        """Connections that vanished without the model doing it (server stopped / process gone): the model sees them as
        peers going away; one extra no-op step carries the observables (pairing map after the event)."""
        final = self.w.live()
        rest = sorted(set(final) | set(closed_now))
        for c in closed_now:
            self.clock += 1
            rest = [x for x in rest if x != c]
            self.record({"op": "peerclose", "conn": c}, len(self.w.log), {}, compare_events=False, live_override=rest)
        self.clock += 1
        self.record({"op": "peerclose", "conn": 999}, len(self.w.log), {}, compare_events=False)
        self.outcomes.append(note)

    def op_stop_begin(self, n, op):
        if self.w.stop_task is None:
            self.w.begin_stop()
            self.outcomes.append("stop-begun")

    def op_stop_end(self, n, op):
        w = self.w
        if w.stop_task is None:
            return
        before = set(w.live())
        w.end_stop()
        self.busy.clear()
        self._model_closes(sorted(before - set(w.live())), "stopped")

    def op_restart(self, n, op):
        """The accessory process ends (after a stop, or abruptly) and is started again from its state file."""
        old = self.w
        if old.stop_task is not None and not old.stop_task.done():
            old.stop_task.cancel()
        old.close()
        self.busy.clear()
        self.w = World16(self.krng, self.persist_file, self.cfg)
        # the model's own `restart` step: no connection, no handler, the pairing map is what the new process loaded
        self.clock += 1
        self.record({"op": "restart"}, len(self.w.log), {}, compare_events=False)
        self.outcomes.append("restarted")

    # ---- sessions that are in the middle of a request
    def op_partial(self, n, op):
        """Start a PUT /characteristics on connection c but stop after the headers / half of the body."""
        c = op["conn"]
        w = self.w
        if c not in w.protos or w.transports[c].closed or c in self.busy:
            return
        full = w.prot_request(2)
        head_end = full.index(b"\r\n\r\n") + 4
        cut = head_end if op.get("kind") == "headers" else head_end + (len(full) - head_end) // 2
        w.transports[c].out.clear()
        w.send_raw(c, full[:cut])
        self.busy[c] = {"what": "partial", "rest": full[cut:]}
        self.outcomes.append("partial-" + op.get("kind", "halfbody"))

    def op_snapshot(self, n, op):
        """POST /resource whose snapshot is still being taken (delayed response pending)."""
        c = op["conn"]
        w = self.w
        if c not in w.protos or w.transports[c].closed or c in self.busy:
            return
        if w.rconn[c].verified_as is None:
            return
        body = json.dumps({"image-width": 320, "image-height": 240, "resource-type": "image"}).encode()
        before = len(w.snap_futs)
        w.transports[c].out.clear()
        start = len(w.log)
        w.send_raw(c, rc.http_request("POST", "/resource", body, JS))
        w.tick()
        msgs = w.read_written(c)
        # model: one segment with one `resource` request; whatever was written now is compared (nothing, if the snapshot started)
        self.clock += 1
        self.record({"op": "chunk", "conn": c, "reqs": [{"r": "resource"}]}, start,
                    {c: [classify({"r": "resource"}, m) for m, _ in msgs]})
        if len(w.snap_futs) == before + 1 and not msgs:
            self.busy[c] = {"what": "snapshot", "fut": w.snap_futs[-1]}
            self.outcomes.append("snapshot-pending")
        else:
            self.outcomes.append("snapshot-not-started")

    def op_finish(self, n, op):
        """The in-flight request of connection c completes: the rest of the body arrives / the snapshot is ready."""
        c = op["conn"]
        w = self.w
        b = self.busy.pop(c, None)
        if b is None:
            return
        t, r = w.transports[c], w.rconn[c]
        owner = r.verified_as
        start = len(w.log)
        if b["what"] == "partial":
            # exactly like a normal chunk carrying this one request (model: one guarded request, if deliverable)
            self.deliver(c, [{"r": "prot", "kind": 2}], [b["rest"]], [{"r": "prot", "kind": 2}])
            return
        ok = not op.get("fail")
        if not b["fut"].done():
            if ok:
                b["fut"].set_result(b"\xff\xd8JPEG")
            else:
                b["fut"].set_exception(RuntimeError("camera failed"))
        w.tick()
        wrote = [(kind, cc) for kind, cc in w.log[start:] if cc == c and kind in ("w", "d")]
        msgs = w.read_written(c)
        # model: the `ready` step (the response is written unless the transport is closing)
        self.clock += 1
        self.record({"op": "ready", "conn": c, "ok": ok}, start, {c: [classify({"r": "resource"}, m) for m, _ in msgs]})
        if owner is not None and not self.currently_paired(owner) and wrote:
            self.fail(
                "C16:delayed-response-written-after-removal",
                f"the delayed snapshot response on connection {c} of controller {_ix(owner)} was written after the removal of its "
                f"pairing had been acknowledged",
            )
        self.outcomes.append("snapshot-" + (("delivered" if ok else "failed-500") if wrote and not t.closed else ("written-after-close" if wrote else "suppressed")))

    def op_req(self, n, op):
        c = op["conn"]
        if c not in self.w.protos:
            return
        if c in self.busy and not self.w.transports[c].closed:
            return  # a controller does not pipeline behind its own unfinished request here
        raws, mreqs = [], []
        for req in op["reqs"]:
            shape = req.get("shape", "ka")
            if req["r"] == "prot":
                raws.append(self.w.prot_request(req["kind"], shape))
                mreqs.append({"r": "prot", "kind": req["kind"]})
            elif req["r"] == "list":
                raws.append(rc.http_request("POST", "/pairings", tlv8.encode([(rc.T_METHOD, b"\x05")]), CT, shape=shape))
                mreqs.append({"r": "list"})
            elif req["r"] == "remove":
                ident = c02.spell(req["id"], req.get("sp", "upper"))
                body = tlv8.encode([(rc.T_METHOD, b"\x04"), (rc.T_ID, ident)])
                raws.append(rc.http_request("POST", "/pairings", body, CT, shape=shape))
                self.row("uuid", [hx(ident), self.uuid_of(req["id"]).bytes.hex()])
                mreqs.append({"r": "remove", "uname": hx(ident)})
            elif req["r"] == "add":
                ident = c02.spell(req["id"], "upper")
                key = self.pub(req["key"])
                self.note_key(key)
                body = tlv8.encode([(rc.T_METHOD, b"\x03"), (rc.T_ID, ident), (rc.T_PUBKEY, key),
                                    (rc.T_PERMS, b"\x01" if req["admin"] else b"\x00")])
                raws.append(rc.http_request("POST", "/pairings", body, CT, shape=shape))
                self.row("uuid", [hx(ident), self.uuid_of(req["id"]).bytes.hex()])
                mreqs.append({"r": "add", "uname": hx(ident), "key": hx(key), "admin": bool(req["admin"])})
        self.deliver(c, op["reqs"], raws, mreqs)

    def op_session(self, n, op):
        """Establish (or try to establish) a session for controller `id` on connection `conn`."""
        c, i = op["conn"], op["id"]
        w = self.w
        if c not in w.protos or w.transports[c].closed or c in self.busy:
            return
        r = w.rconn[c]
        u = self.uuid_of(i)
        key = op.get("key", i)
        if op.get("how") == "force":
            if not self.currently_paired(u):
                return  # only plant sessions a real verify would grant
            h = w.protos[c].handler
            h.is_encrypted = True
            h.client_uuid = u
            r.verified_as = u
            self.record({"op": "force", "conn": c, "uuid": u.bytes.hex()}, len(w.log), {})
            self.outcomes.append("session-forced")
            return
        # real pair-verify with the reference controller
        ex = rc.Exchange(rc.x25519.X25519PrivateKey.from_private_bytes(self._rb(32)))
        m1 = ex.m1()
        n1 = self.clock
        # (tables are filled after the answer is seen: the accessory's ephemeral key is its choice)
        start = len(w.log)
        res = w.chunk(c, [rc.http_request("POST", "/pair-verify", m1, CT)])
        self.clock += 1
        m = res[0]["msg"] if res else None
        answered = bool(m and m["status"] == 200 and ex.on_m2(m["body"], rc.raw_pub_bytes(w.driver.state.public_key)))
        if answered:
            self.row("pub", [n1, hx(ex.sepk)])
            self.row("dh", [n1, hx(ex.cepk), hx(ex.shared)])
            self.row("hkdf", [hx(ex.shared), hx(ex.pre)])
            r.cur = ex
            self.all_ex.append(ex)
        elif self.ref_paired:
            self.row("dh", [n1, hx(ex.cepk), "ee" * 32])
        self.record({"op": "chunk", "conn": c, "reqs": [{"r": "pv", "body": hx(m1)}]}, start,
                    {c: [classify({"r": "pv"}, m)]})
        self.outcomes.append("V1-" + ("M2" if answered else "refused"))
        if not answered:
            return
        ident = c02.spell(i, "upper")
        sig = self.sk[key].sign(ex.material(ident))
        body = ex.m3([(rc.T_ID, ident), (rc.T_PROOF, sig)], ex.pre)
        expected, why = self.ref_iff(r.cur, body)
        self.fill_tables(body)
        start = len(w.log)
        res = w.chunk(c, [rc.http_request("POST", "/pair-verify", body, CT)])
        self.clock += 1
        m = res[0]["msg"] if res else None
        cls = classify({"r": "pv"}, m)
        success = isinstance(cls, dict) and cls["pv"].get("tlv") == [[rc.T_STATE, "04"]]
        self.record({"op": "chunk", "conn": c, "reqs": [{"r": "pv", "body": hx(body)}]}, start, {c: [cls]})
        if success:
            r.session = rc.Session(ex.shared)
            r.session_key = ex.shared
            r.cur = None
            if expected:
                r.verified_as = u
        if success and not self.currently_paired(u):
            self.fail(
                "C16:removed-controller-verified",
                f"controller {i}, whose pairing is removed, completed a new pair-verify on connection {c} ({why})",
            )
        self.outcomes.append("V3-" + ("upgrade" if success else "refused") + ("" if success == expected else "-UNEXPECTED"))

    def ref_unpair(self, u):
        if u is not None:
            super().ref_unpair(u)

    def model_line(self):
        return {"layer": "sess", "mac": hx(self.w.mac), "tables": self.tables, "ops": self.mops}


def _rn(req):
    return PROT_NAMES[req["kind"]] if req["r"] == "prot" else "list-pairings"


def _ix(u):
    return next((k for k, s in enumerate(IDS) if uuidlib.UUID(s) == u), str(u))


def _cl(cls):
    if isinstance(cls, dict):
        k = next(iter(cls))
        return "pv" if k == "pv" else k
    return str(cls)


# ----------------------------------------------------------------------------- generators


def P(i, admin=True, key=None):
    return {"op": "pair", "id": i, "key": i if key is None else key, "admin": admin}


def CN(c):
    return {"op": "connect", "conn": c}


def S(c, i, how="verify", **kw):
    return {"op": "session", "conn": c, "id": i, "how": how, **kw}


def RQ(c, *reqs):
    return {"op": "req", "conn": c, "reqs": list(reqs)}


def prot(k):
    return {"r": "prot", "kind": k}


def rem(i, sp="upper", shape="ka"):
    return {"r": "remove", "id": i, "sp": sp, "shape": shape}


def shaped(req, shape):
    return {**req, "shape": shape}


def add(i, admin=False, key=None):
    return {"r": "add", "id": i, "key": i if key is None else key, "admin": admin}


LIST = {"r": "list"}


def PART(c, kind="halfbody"):
    return {"op": "partial", "conn": c, "kind": kind}


def SNAP(c):
    return {"op": "snapshot", "conn": c}


def FIN(c, fail=False):
    return {"op": "finish", "conn": c, "fail": fail}


STOP_BEGIN = {"op": "stop_begin"}
STOP_END = {"op": "stop_end"}
RESTART = {"op": "restart"}


def midreq(c, how):
    return SNAP(c) if how == "snapshot" else PART(c, how)


def probes(c):
    return [RQ(c, prot(0)), RQ(c, prot(1)), RQ(c, prot(2)), RQ(c, prot(3)), RQ(c, prot(4)), RQ(c, LIST)]


def boundary_scripts():
    s = []
    # removal by another admin; the removed controller has one real and one planted session
    s.append([P(0), P(1, admin=False), CN(0), CN(1), CN(2), S(0, 0), S(1, 1), S(2, 1, "force"),
              RQ(1, prot(0)), RQ(0, rem(1)), *probes(1), *probes(2), RQ(0, prot(0)), CN(3), S(3, 1), RQ(3, prot(0))])
    # self-removal with another admin left; a request pipelined behind the removal
    s.append([P(0), P(1), CN(0), CN(1), S(0, 0), S(1, 1), RQ(0, rem(0), prot(0), prot(2)), *probes(0), RQ(1, prot(0)), RQ(1, LIST),
              CN(2), S(2, 0)])
    # last-admin rule: everybody goes
    s.append([P(0), P(1, admin=False), P(2, admin=False), CN(0), CN(1), CN(2), CN(3), S(0, 0, "force"), S(1, 1), S(2, 2, "force"), S(3, 1, "force"),
              RQ(0, rem(0)), *probes(1), *probes(2), *probes(3), *probes(0), CN(4), S(4, 1), CN(5), S(5, 0)])
    # last-admin rule, all sessions real, pipelined list behind the removal
    s.append([P(0), P(1, admin=False), CN(0), CN(1), S(0, 0), S(1, 1), RQ(0, rem(0), LIST, prot(1)), *probes(1), *probes(0)])
    # removing an unknown / never paired id: acknowledged, nobody is cut off
    s.append([P(0), P(1, admin=False), CN(0), CN(1), S(0, 0), S(1, 1), RQ(0, rem(3)), RQ(1, prot(0)), RQ(0, prot(0)), RQ(0, LIST)])
    # removal attempted by a non-admin: denied, nothing changes
    s.append([P(0), P(1, admin=False), CN(0), CN(1), S(0, 0), S(1, 1, "force"), RQ(1, rem(0)), RQ(0, prot(0)), RQ(1, prot(0)), RQ(1, LIST)])
    # removed controller without open sessions, then a fresh attempt; re-added later: may come back on a new connection
    s.append([P(0), P(1, admin=False), CN(0), S(0, 0), RQ(0, rem(1)), CN(1), S(1, 1), RQ(1, prot(0)),
              RQ(0, add(1)), CN(2), S(2, 1), RQ(2, prot(0)), RQ(1, prot(0))])
    # two sessions of the removed controller, remover has two sessions too; spelling of the id differs
    s.append([P(0), P(1), CN(0), CN(1), CN(2), CN(3), S(0, 0), S(1, 0, "force"), S(2, 1), S(3, 1, "force"),
              RQ(1, rem(1, sp="lower")), *probes(2), *probes(3), RQ(0, prot(0)), RQ(1, prot(0))])
    # unverified connection tries to remove; verified removed controller re-verifies with its old key
    s.append([P(0), P(1, admin=False), CN(0), CN(1), RQ(1, rem(0)), S(0, 0), RQ(0, rem(1)), S(1, 1), RQ(1, prot(0))])
    # a peer that went away before the removal; connection id reused afterwards
    s.append([P(0), P(1, admin=False), CN(0), CN(1), S(0, 0), S(1, 1, "force"), {"op": "peerclose", "conn": 1}, RQ(0, rem(1)),
              CN(1), RQ(1, prot(0)), S(1, 1), RQ(1, prot(0))])
    # last-admin sweep, somebody pairs again, the swept controllers (who verified before) come back with their old keys
    s.append([P(0), P(1, admin=False), P(2, admin=False), CN(0), CN(1), CN(2), S(0, 0), S(1, 1), S(2, 2), RQ(0, rem(0)),
              P(3), CN(3), S(3, 1), RQ(3, prot(0)), CN(4), S(4, 2), RQ(4, prot(0)), CN(5), S(5, 0), CN(6), S(6, 3), RQ(6, prot(0))])
    # ---- sessions that are in the middle of a request when the removal happens, in different registry positions
    for how in ("snapshot", "headers", "halfbody"):
        for real in ("verify", "force"):
            # another admin removes B: B's first session is mid-request, B's later session and A's are idle
            s.append([P(0), P(1, admin=False), CN(0), CN(1), CN(2), CN(3), S(0, 0, real), S(1, 1, real), S(2, 1, "force"), S(3, 1, real),
                      midreq(1, how), RQ(0, rem(1)), FIN(1), *probes(2), *probes(3), RQ(1, prot(0)), RQ(0, prot(0))])
        # the admin's connection registered last; mid-request session in the middle of B's three
        s.append([P(0), P(1, admin=False), CN(1), CN(2), CN(3), CN(0), S(1, 1, "force"), S(2, 1), S(3, 1, "force"), S(0, 0),
                  midreq(2, how), RQ(0, rem(1)), *probes(3), *probes(1), FIN(2), RQ(2, prot(0))])
        # self-removal (another admin stays): A's other session is mid-request, a later one idle
        s.append([P(0), P(1), CN(0), CN(1), CN(2), CN(3), S(0, 0), S(1, 0, "force"), S(2, 0), S(3, 1),
                  midreq(1, how), RQ(0, rem(0), prot(0)), FIN(1), *probes(2), *probes(1), RQ(3, prot(0)), RQ(3, LIST)])
        # last-admin rule: B mid-request, C and a second session of B idle behind it
        s.append([P(0), P(1, admin=False), P(2, admin=False), CN(0), CN(1), CN(2), CN(3), CN(4), S(0, 0), S(1, 1), S(2, 2, "force"), S(3, 1, "force"), S(4, 2),
                  midreq(1, how), midreq(4, "headers"), RQ(0, rem(0)), *probes(2), *probes(3), FIN(1), FIN(4), *probes(4), *probes(0)])
        # a mid-request session of a controller that STAYS paired is left alone and completes normally
        s.append([P(0), P(1, admin=False), P(2, admin=False), CN(0), CN(1), CN(2), S(0, 0), S(1, 1), S(2, 2),
                  midreq(2, how), RQ(0, rem(1)), *probes(1), FIN(2), RQ(2, prot(0))])
    # ---- a controller that re-runs pair-verify on its own verified session and names SOMEBODY ELSE (refused): the session
    # still belongs to the controller that proved itself, so its removal must cut it off
    for how in ("verify", "force"):
        for bogus_key in (9, 1):
            s.append([P(0), P(1, admin=False), P(2, admin=False), CN(0), CN(1), CN(2), S(0, 0), S(1, 1, how), S(2, 2, how),
                      S(1, 0, key=bogus_key), RQ(1, prot(0)), S(2, 1, key=9), RQ(0, rem(1)), *probes(1), RQ(2, prot(0)), RQ(0, rem(2)), *probes(2)])
    s.append([P(0), P(1), CN(0), CN(1), S(0, 0), S(1, 1), S(1, 0, key=1), S(0, 1, key=9), RQ(1, rem(0)), *probes(0), RQ(1, prot(0)), RQ(1, LIST)])
    # ---- removal, then the accessory is restarted from its state file: the removed controller stays out
    s.append([P(0), P(1, admin=False), CN(0), CN(1), S(0, 0), S(1, 1), RQ(0, rem(1)), RESTART,
              CN(2), S(2, 1), RQ(2, prot(0)), CN(3), S(3, 0), RQ(3, prot(0)), RQ(3, LIST)])
    # the removal arrives while the accessory is shutting down (async_stop() waits for the mDNS goodbye), then restart
    s.append([P(0), P(1, admin=False), CN(0), CN(1), S(0, 0), S(1, 1), STOP_BEGIN, RQ(0, rem(1)), *probes(1), RQ(0, prot(0)), STOP_END, RESTART,
              CN(2), S(2, 1), RQ(2, prot(0)), CN(3), S(3, 0), RQ(3, LIST)])
    s.append([P(0), P(1, admin=False), P(2, admin=False), CN(0), CN(1), CN(2), S(0, 0), S(1, 1), S(2, 2, "force"), STOP_BEGIN, RQ(0, rem(0)), STOP_END, RESTART,
              CN(3), S(3, 1), RQ(3, prot(0)), CN(4), S(4, 2), CN(5), S(5, 0), P(3), CN(6), S(6, 1), RQ(6, prot(0))])
    # abrupt end of the process right after the acknowledgement (no stop at all); an addition in the shutdown window survives too
    s.append([P(0), P(1), P(2, admin=False), CN(0), CN(1), S(0, 0), S(1, 2), RQ(0, rem(2), rem(1)), RESTART, CN(2), S(2, 2), CN(3), S(3, 1), CN(4), S(4, 0), RQ(4, LIST)])
    s.append([P(0), CN(0), S(0, 0), STOP_BEGIN, RQ(0, add(1)), STOP_END, RESTART, CN(1), S(1, 1), RQ(1, prot(0)), CN(2), S(2, 0), RQ(2, rem(1)), RESTART, CN(3), S(3, 1)])
    # ---- request shape of the removal: Connection: close / HTTP/1.0 on the removal itself or on a request pipelined behind it;
    # the removed controller holds two sessions, the remover's own connection goes away after the answer
    for shape in ("close", "http10"):
        for how in ("verify", "force"):
            s.append([P(0), P(1, admin=False), CN(0), CN(1), CN(2), S(0, 0, how), S(1, 1), S(2, 1, "force"), RQ(0, rem(1, shape=shape)),
                      *probes(1), *probes(2), RQ(0, prot(0)), CN(3), S(3, 0), RQ(3, LIST)])
        s.append([P(0), P(1, admin=False), CN(0), CN(1), CN(2), S(0, 0), S(1, 1), S(2, 1, "force"), RQ(0, rem(1), shaped(prot(0), shape), prot(1)),
                  *probes(1), *probes(2), RQ(0, prot(0))])
        s.append([P(0), P(1, admin=False), CN(0), CN(1), CN(2), S(0, 0, "force"), S(1, 1), S(2, 1), RQ(0, rem(1), shaped(LIST, shape)), *probes(2), *probes(1)])
        # self-removal and last-admin rule with a close-shaped removal
        s.append([P(0), P(1), CN(0), CN(1), CN(2), S(0, 0), S(1, 0), S(2, 1), RQ(0, rem(0, shape=shape)), *probes(1), *probes(0), RQ(2, prot(0))])
        s.append([P(0), P(1, admin=False), P(2, admin=False), CN(0), CN(1), CN(2), CN(3), S(0, 0), S(1, 1), S(2, 2, "force"), S(3, 1, "force"),
                  RQ(0, rem(0, shape=shape)), *probes(1), *probes(2), *probes(3)])
        # close-shaped requests that remove nothing / are refused leave everybody else alone
        s.append([P(0), P(1, admin=False), CN(0), CN(1), S(0, 0), S(1, 1), RQ(1, rem(0, shape=shape)), RQ(0, shaped(prot(0), shape)), RQ(1, prot(0)), RQ(0, prot(0))])
    # [remove X][add X with a new key] in one read: X's old sessions were open when the removal was acknowledged -> cut off;
    # X may come back on a new connection with the new key only
    for shape in ("ka", "close"):
        s.append([P(0), P(1, admin=False), CN(0), CN(1), CN(2), S(0, 0), S(1, 1), S(2, 1, "force"), RQ(0, rem(1), shaped(add(1, key=2), shape)),
                  *probes(1), *probes(2), CN(3), S(3, 1), CN(4), S(4, 1, key=2), RQ(4, prot(0))])
    s.append([P(0), P(1), CN(0), CN(1), S(0, 0), S(1, 1), RQ(0, rem(1), add(1, admin=True)), *probes(1), CN(2), S(2, 1), RQ(2, LIST)])
    # ---- the snapshot FAILS (camera error -> 500): delivered to a controller that stays, suppressed for a removed one
    s.append([P(0), P(1, admin=False), P(2, admin=False), CN(0), CN(1), CN(2), S(0, 0), S(1, 1), S(2, 2, "force"),
              SNAP(1), SNAP(2), RQ(0, rem(1)), FIN(1, fail=True), FIN(2, fail=True), RQ(2, prot(0)), *probes(1)])
    s.append([P(0), CN(0), S(0, 0), SNAP(0), FIN(0), RQ(0, prot(0)), SNAP(0), FIN(0, fail=True), RQ(0, prot(1)), RQ(0, LIST)])
    # the peer goes away while its snapshot is being taken; an unverified connection asks for a snapshot
    s.append([P(0), P(1, admin=False), CN(0), CN(1), CN(2), S(0, 0), S(1, 1), SNAP(1), {"op": "peerclose", "conn": 1}, FIN(1),
              RQ(0, rem(1)), RQ(0, prot(0))])
    # ---- restarts in the MIDDLE of a history: sessions of before are gone, removed controllers stay out, re-added ones
    # come back, a removal after the restart cuts the sessions made after it
    s.append([P(0), P(1, admin=False), P(2, admin=False), CN(0), CN(1), S(0, 0), S(1, 1), RQ(0, rem(1)), RESTART,
              CN(2), S(2, 0), CN(3), S(3, 1), CN(4), S(4, 2), RQ(2, add(1, key=3)), CN(5), S(5, 1), CN(6), S(6, 1, key=3), RQ(6, prot(0)),
              RQ(2, rem(2)), *probes(4), RESTART, CN(7), S(7, 2), CN(8), S(8, 1, key=3), RQ(8, prot(1)), CN(9), S(9, 0), RQ(9, LIST)])
    s.append([P(0), P(1), CN(0), CN(1), S(0, 0), S(1, 1), SNAP(1), RESTART, CN(2), S(2, 1), RQ(2, rem(0)), CN(3), S(3, 0), RESTART,
              CN(4), S(4, 0), CN(5), S(5, 1), RQ(5, rem(1)), *probes(5), RESTART, CN(6), S(6, 1), CN(7), S(7, 0)])
    # ---- the RIG CONFIGURATION is a dimension of its own: the core removal histories again with an application that
    # subclasses AccessoryDriver / Accessory in the usual style, and with IPv6 peer names (4-tuples)
    core = [s[0], s[1], s[2], s[3], s[7]]
    core.append([P(0), P(1, admin=False), P(2, admin=False), CN(0), CN(1), CN(2), CN(3), S(0, 0), S(1, 1), S(2, 1, "force"), S(3, 2),
                 SNAP(2), RQ(0, rem(1), prot(0)), FIN(2), *probes(1), *probes(2), RQ(3, prot(0)), RQ(0, add(1)), CN(4), S(4, 1), RQ(4, prot(0)),
                 RQ(0, rem(0)), *probes(3), *probes(4), *probes(0)])
    core.append([P(0), P(1, admin=False), CN(0), CN(1), S(0, 0), S(1, 1), RQ(0, rem(1)), RESTART, CN(2), S(2, 1), CN(3), S(3, 0), RQ(3, LIST)])
    for drv, fam in c02.CONFIGS:
        for sc in core:
            s.append([c02.CFG(drv, fam), *sc])
    # removal of one of three, twice in a row (second is a no-op)
    s.append([P(0), P(1, admin=False), P(2, admin=False), CN(0), CN(1), CN(2), S(0, 0), S(1, 1), S(2, 2),
              RQ(0, rem(1), rem(1)), *probes(1), RQ(2, prot(0)), RQ(0, rem(2)), *probes(2), RQ(0, prot(0))])
    return s


def random_script(rng):
    n_ctl = rng.choice([2, 2, 3, 3, 4])
    ops = []
    admins = [0] + [i for i in range(1, n_ctl) if rng.random() < 0.35]
    for i in range(n_ctl):
        ops.append(P(i, admin=i in admins))
    conns = {}  # conn -> controller
    c = 0
    for i in range(n_ctl):
        for _ in range(rng.choice([0, 1, 1, 2])):
            ops.append(CN(c))
            ops.append(S(c, i, "verify" if rng.random() < 0.5 else "force"))
            conns[c] = i
            c += 1
    admin_conns = [k for k, i in conns.items() if i in admins]
    if not admin_conns:
        ops += [CN(c), S(c, 0, "force")]
        conns[c] = 0
        admin_conns = [c]
        c += 1
    if rng.random() < 0.3 and conns:
        k = rng.choice(list(conns))
        ops.append(RQ(k, prot(rng.randrange(5))))
    if rng.random() < 0.35 and conns:
        # a second pair-verify on a verified connection that names another controller and fails
        for k in rng.sample(list(conns), min(len(conns), rng.choice([1, 1, 2]))):
            other = rng.choice([i for i in range(n_ctl + 1) if i != conns[k]])
            ops.append(S(k, other, key=rng.choice([9, conns[k]])))
    removed = []
    for _round in range(rng.choice([1, 1, 2])):
        live_admin = [k for k in admin_conns if conns[k] not in removed]
        if not live_admin:
            break
        remover_conn = rng.choice(live_admin)
        if rng.random() < 0.12:
            # somebody who may not: a non-admin session, or a connection without a session
            others = [k for k in conns if conns[k] not in admins]
            if others and rng.random() < 0.7:
                remover_conn = rng.choice(others)
            else:
                ops.append(CN(c))
                conns[c] = n_ctl
                remover_conn = c
                c += 1
        me = conns[remover_conn]
        x = rng.random()
        if x < 0.25:
            target = me  # self removal (last-admin rule when nobody else is admin)
        elif x < 0.35:
            target = n_ctl  # not paired
        else:
            target = rng.choice([i for i in range(n_ctl)])
        reqs = [rem(target, sp=rng.choice(["upper", "lower"]))]
        if rng.random() < 0.4:
            reqs.append(rng.choice([prot(rng.randrange(5)), LIST]))
        elif rng.random() < 0.15 and target < n_ctl:
            reqs.append(add(target, admin=rng.random() < 0.3, key=rng.choice([target, (target + 1) % 4])))
        if rng.random() < 0.3:
            # the shape of the request is a dimension of its own: the removal itself or what is pipelined behind it
            k = rng.randrange(len(reqs))
            reqs[k] = shaped(reqs[k], rng.choice(["close", "http10"]))
        if rng.random() < 0.15:
            reqs.insert(0, prot(rng.randrange(5)))
        inflight = []
        if rng.random() < 0.45:
            cands = [k for k in conns if k != remover_conn]
            rng.shuffle(cands)
            for k in cands[: rng.choice([1, 1, 2])]:
                ops.append(midreq(k, rng.choice(["snapshot", "headers", "halfbody"])))
                inflight.append(k)
        ops.append(RQ(remover_conn, *reqs))
        removed.append(target)
        for k in inflight:
            if rng.random() < 0.8:
                ops.append(FIN(k))
        # what the removed and the remaining controllers try afterwards
        order = list(conns)
        rng.shuffle(order)
        for k in order:
            if rng.random() < 0.75:
                for _ in range(rng.choice([1, 2, 3])):
                    ops.append(RQ(k, rng.choice([prot(0), prot(1), prot(2), prot(3), prot(4), LIST])))
        if rng.random() < 0.7 and target < n_ctl:
            ops += [CN(c), S(c, target)]
            ops.append(RQ(c, prot(rng.randrange(5))))
            c += 1
        if rng.random() < 0.25 and target < n_ctl:
            live_admin = [k for k in admin_conns if conns[k] not in removed]
            if live_admin:
                ops.append(RQ(rng.choice(live_admin), add(target, admin=rng.random() < 0.3)))
                removed = [t for t in removed if t != target]
                ops += [CN(c), S(c, target), RQ(c, prot(0))]
                conns[c] = target
                c += 1
    if rng.random() < 0.15:
        # the accessory is restarted afterwards (optionally the last removal fell into the shutdown window)
        last = max((k for k, o in enumerate(ops) if o["op"] == "req" and any(q["r"] == "remove" for q in o["reqs"])), default=None)
        if last is not None and rng.random() < 0.6:
            ops.insert(last, STOP_BEGIN)
            ops.insert(last + 2 + rng.choice([0, 0, 1, 3]), STOP_END)
        ops.append(RESTART)
        for i in range(n_ctl):
            ops += [CN(c), S(c, i)]
            if rng.random() < 0.6:
                ops.append(RQ(c, rng.choice([prot(0), prot(2), LIST])))
            c += 1
    return ops


def soup_script(rng):
    """Arbitrary interleaving: several controllers open sessions, use them, remove each other (and themselves), are added
    again (same or new key), snapshots start and complete or fail, peers go away, the accessory restarts -- in any order."""
    n_ctl = rng.choice([2, 3, 3, 4])
    ops = [P(0)] + [P(i, admin=rng.random() < 0.35) for i in range(1, n_ctl)]
    conns = {}  # conn -> controller the generator believes holds it
    keys = {i: i for i in range(n_ctl)}  # controller -> index of the key the generator believes is registered
    nextc = 0
    for _ in range(rng.randrange(8, 24)):
        x = rng.random()
        if x < 0.24 or not conns:
            i = rng.randrange(n_ctl)
            how = "verify" if rng.random() < 0.65 else "force"
            kw = {} if rng.random() < 0.85 else {"key": rng.choice([9, (i + 1) % 4])}
            ops += [CN(nextc), S(nextc, i, how, **({"key": keys[i]} if not kw and keys[i] != i else kw))]
            if not kw:
                conns[nextc] = i
            else:
                conns[nextc] = n_ctl  # nobody
            nextc += 1
        elif x < 0.46:
            k = rng.choice(list(conns))
            ops.append(RQ(k, *[rng.choice([prot(0), prot(1), prot(2), prot(3), prot(4), LIST]) for _ in range(rng.choice([1, 1, 2]))]))
        elif x < 0.64:
            k = rng.choice(list(conns))
            target = rng.randrange(n_ctl + 1)
            reqs = [rem(target, sp=rng.choice(["upper", "lower"]))]
            y = rng.random()
            if y < 0.3:
                reqs.append(rng.choice([prot(rng.randrange(5)), LIST]))
            elif y < 0.5 and target < n_ctl:
                nk = rng.choice([target, (target + 1) % 4])
                reqs.append(add(target, admin=rng.random() < 0.3, key=nk))
                keys[target] = nk
            ops.append(RQ(k, *reqs))
        elif x < 0.72:
            k = rng.choice(list(conns))
            target = rng.randrange(n_ctl)
            nk = rng.choice([target, target, (target + 2) % 4])
            ops.append(RQ(k, add(target, admin=rng.random() < 0.3, key=nk)))
            keys[target] = nk
        elif x < 0.80:
            ops.append(midreq(rng.choice(list(conns)), rng.choice(["snapshot", "snapshot", "headers", "halfbody"])))
        elif x < 0.89:
            ops.append(FIN(rng.choice(list(conns)), fail=rng.random() < 0.3))
        elif x < 0.93:
            k = rng.choice(list(conns))
            ops.append({"op": "peerclose", "conn": k})
            del conns[k]
        elif x < 0.97:
            ops.append(RESTART)
            conns.clear()
        else:
            i = rng.randrange(n_ctl)
            ops.append(P(i, admin=rng.random() < 0.5, key=keys[i]))  # pair-setup after a sweep / the application
    # at the end everybody tries again on a fresh connection
    for i in range(n_ctl):
        ops += [CN(nextc), S(nextc, i, **({"key": keys[i]} if keys[i] != i else {})), RQ(nextc, rng.choice([prot(0), prot(2), LIST]))]
        nextc += 1
    return ops


def with_config(rng, script):
    """Every random history runs under a configuration drawn here (half of them: the default one)."""
    if rng.random() < 0.5:
        return script
    drv, fam = rng.choice(c02.CONFIGS)
    return [c02.CFG(drv, fam), *script]


def gen_scripts(ctx: Ctx):
    scripts = boundary_scripts()
    for _ in range(ctx.n(250, 6000)):
        scripts.append(with_config(ctx.rng, random_script(ctx.rng)))
    for _ in range(ctx.n(90, 1500)):
        scripts.append(with_config(ctx.rng, soup_script(ctx.rng)))
    return scripts


# ----------------------------------------------------------------------------- run / search / replay


def _execute(ctx, script, keyseed) -> Runner16:
    return Runner16(ctx, script, keyseed).run()


def _report(ctx: Ctx, script, keyseed, r: Runner16):
    for sig, desc in r.fails:
        if any(f.signature == sig for f in ctx.failures):
            continue

        def still(cand, sig=sig):
            try:
                return any(s == sig for s, _ in _execute(ctx, cand, keyseed).fails)
            except Exception:  # noqa: BLE001
                return False

        small = delta_min(script, still, max_steps=150)
        d2 = [d for s, d in _execute(ctx, small, keyseed).fails if s == sig]
        ctx.fail(sig, d2[0] if d2 else desc, {"kind": "script", "script": small, "keyseed": keyseed})


def run(ctx: Ctx):
    st = ctx.stats
    st.rule = (
        "histories: 2-4 controllers with 0-2 open sessions each (real pair-verify with the reference controller or planted), "
        "removal by self / another admin / last-admin rule / unknown id / non-admin through real POST /pairings (optionally with "
        "pipelined requests in the same segment), then GET/PUT/subscribe/prepare/list from old connections, fresh verify attempts, "
        "re-adding; plus 'soup' histories: arbitrary interleavings of sessions, requests, removals, re-additions (same or new key), "
        "snapshots that start / complete / fail, peers going away and restarts. Every history runs under a rig configuration "
        "(half of the random ones non-default): application subclasses of AccessoryDriver / Accessory overriding the public hooks "
        "in the usual style, IPv6 peer names (4-tuples). Non-trivial: the history contains an acknowledged removal or a denied one; distinct by the outcome sequence."
    )
    logging.disable(logging.CRITICAL)
    try:
        scripts = gen_scripts(ctx)
        n_boundary = len(boundary_scripts())
        lines, impls, runners = [], [], []
        for k, script in enumerate(scripts):
            keyseed = k if k < n_boundary else ctx.seed * 1000003 + k  # boundary scripts replay identically for every seed
            r = _execute(ctx, script, keyseed)
            runners.append(r)
            lines.append(r.model_line())
            impls.append(r.impl)
            if r.fails:
                _report(ctx, script, keyseed, r)
            for oc in r.outcomes:
                st.hit("outcome", oc)
            for op in script:
                st.hit("op", op["op"] if op["op"] != "req" else "req:" + "+".join(q["r"] for q in op["reqs"]))
            st.case(r.outcomes, any(o.startswith("remove-") for o in r.outcomes))
    finally:
        logging.disable(logging.NOTSET)

    model = run_model_parallel("C16", lines)
    for script, m, impl in zip(scripts, model, impls):
        st.traces_validated += 1
        if "ok" not in m:
            raise ModelError(f"driver answered {str(m)[:300]}")
        for n, (a, i) in enumerate(zip(m["ok"], impl)):
            cm = canon_model(a)
            ci = dict(i)
            if cm != ci:
                # peerclose ops do not compare events (the close is the peer's)
                if ci["events"] == [] and cm["live"] == ci["live"] and cm["paired"] == ci["paired"] and _only_peer(cm):
                    continue
                ctx.disagree("sessions", {"script": script, "at_model_op": n}, cm, ci)
                break
    if runners:
        st.sample({"script": scripts[0], "outcomes": runners[0].outcomes})
        st.sample({"script": scripts[2], "outcomes": runners[2].outcomes})
        k = len(boundary_scripts())
        if len(scripts) > k:
            st.sample({"script": scripts[k], "outcomes": runners[k].outcomes})


def _only_peer(cm):
    return cm["events"] == []


def canon_model(a):
    ev = []
    for e in a["events"]:
        e = dict(e)
        rcv = e.get("rc")
        if isinstance(rcv, dict) and "pv" in rcv:
            r = dict(rcv["pv"])
            if "tlv" in r:
                r["tlv"] = [[t, (f"len:{len(v) // 2}" if t == rc.T_ENC else v)] for t, v in r["tlv"]]
            e["rc"] = {"pv": r}
        ev.append(e)
    return {"events": ev, "live": sorted(a["live"]), "paired": sorted(a["paired"])}


def search(ctx: Ctx):
    logging.disable(logging.CRITICAL)
    try:
        for k in range(1500):
            script = with_config(ctx.rng, random_script(ctx.rng))
            keyseed = 9_000_000 + ctx.seed * 1000003 + k
            r = _execute(ctx, script, keyseed)
            if r.fails:
                _report(ctx, script, keyseed, r)
                if len(ctx.failures) >= 3:
                    break
    finally:
        logging.disable(logging.NOTSET)


def replay(ctx: Ctx, rp):
    logging.disable(logging.CRITICAL)
    try:
        r = _execute(ctx, rp["script"], rp.get("keyseed", 0))
    finally:
        logging.disable(logging.NOTSET)
    for op in rp["script"]:
        print("  op:", op)
    print("  outcomes:", r.outcomes)
    print("  transports still open:", r.w.live())
    for sig, desc in r.fails:
        print("FAILS:", sig, desc)
    print("verdict:", "property violated on this input" if r.fails else "holds on this input")
    return 1 if r.fails else 0
