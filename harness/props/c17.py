"""C17 — Accessory and instance identifiers are unique, stable and consistently resolved."""
from __future__ import annotations

import json
import sys
from typing import Any, Dict, List, Optional

import common
from common import Ctx, delta_min, run_model_parallel
from ref import dbrig
from ref.render import full_type, hap_type

PROP = "C17"
LEAN_MODULE = "Props.C17"
TRUSTED = [
    "Lean 4.33 kernel; axioms propext, Classical.choice, Quot.sound only (audited by #print axioms)",
    "hand-written models lean/HapModel/Iid.lean (pyhap/iid_manager.py) and lean/HapModel/Db.lean "
    "(Accessory.add_service / get_characteristic / publish, Bridge.add_accessory / get_characteristic, "
    "AccessoryDriver.get_characteristics / set_characteristics resolution), tied by this differential run",
    "objects are modelled as opaque identities allocated fresh; sharing one characteristic object between "
    "services, adding the same service twice, or adding characteristics to a service after add_service is "
    "documented misuse and out of scope",
    "application IIDManager subclasses (get_iid_for_obj overridden: services known by unique_id keep a recorded iid, "
    "the rest is numbered automatically; recorded iids distinct, at or below the counter the application starts at, or "
    "far above it) are a configuration dimension of 25% of the random histories and two boundary histories: judged by "
    "the oracle on the real code; the database model has stock managers only, the manager-level model with explicit "
    "iids (Iid.assignAt, theorem C17_custom_manager) is tied by the manager-script stream",
    "histories interleave construction with observations (polls: GET /accessories, one multi-id GET /characteristics "
    "re-polling every earlier path, a few PUTs); removal = IIDManager.remove_obj/remove_iid and bridge.accessories.pop, "
    "re-adding = IIDManager.assign of a removed object (the object stays in its service; detaching a Service object from "
    "Accessory.services and adding it again reduces to the same manager operations and is not a separate model op); the "
    "model mirrors the REPAIRED IIDManager (design/fixes/C17-stale-iid-in-cache.patch)",
    "event delivery is observed on real HAPServerProtocol objects over fake plaintext transports on a virtual-time loop "
    "(harness/vloop.py): the EVENT bodies written after the 0.5 s coalescing window are decoded; identities reached by "
    "reads / writes are recorded by class-level wrappers around Characteristic.get_value / client_update_value",
    "generated table lean/HapModel/Gen/Services.lean (extract/services.py reads pyhap/resources/*.json)",
    "harness generators, object numbering, and the in-process rig harness/ref/dbrig.py (fake verified session)",
]


def extract(ctx: Ctx):
    sys.path.insert(0, str(common.VERIF / "extract"))
    import services as ex

    if ex.write(common.REPO, common.LEAN):
        common.log("[C17] regenerated lean/HapModel/Gen/Services.lean")


# --------------------------------------------------------------------------- running a history


class Run:
    """Executes a construction history on the real code, judging it with the property oracle."""

    def __init__(self, ctx: Optional[Ctx], bridge: bool, main: List[dict], main_aid: Optional[int], main_early=None,
                 main_manager: Optional[dict] = None):
        self.ctx = ctx
        self.h = {"bridge": bridge, "mainAid": main_aid, "main": main, "mainEarly": list(main_early or []), "ops": []}
        if main_manager is not None:
            self.h["mainManager"] = main_manager
        self.rig = dbrig.Rig(bridge, main, main_aid, main_early, main_manager)
        #: characteristics that have already published an event (construction-time or mid-history)
        self.hot: List[Any] = list(self.rig.early_objs)
        self.results: List[dict] = []
        self.fails: List[tuple] = []  # (signature, description)
        self.ever: Dict[int, Dict[int, Any]] = {}  # id(manager) -> iid -> object it was issued to
        self.prev: Dict[int, Dict[int, int]] = {}  # id(manager) -> id(obj) -> iid at the last snapshot
        self.auto_aids: List[int] = []
        self.model_subs: List[dict] = []
        self.model_ops: List[dict] = []  # the ops as the model gets them (polls with their concrete ids)
        self.polled: List[tuple] = []  # every path polled so far
        self.snapshot()

    def fail(self, sig: str, desc: str):
        if not any(s == sig for s, _ in self.fails):
            self.fails.append((sig, desc))

    def snapshot(self):
        """Oracle: an iid is never handed to a second object; an assigned object keeps its iid."""
        for key, acc in self.rig.accessories():
            m = acc.iid_manager
            ever = self.ever.setdefault(id(m), {})
            prev = self.prev.get(id(m), {})
            cur: Dict[int, int] = {}
            for obj, iid in m.iids.items():
                first = ever.get(iid)
                if first is not None and first is not obj:
                    self.fail(
                        "C17:iid-reissued",
                        f"accessory {key}: iid {iid} was issued to object #{self.rig.num(first)} earlier and is now "
                        f"handed to object #{self.rig.num(obj)}",
                    )
                ever.setdefault(iid, obj)
                if id(obj) in prev and prev[id(obj)] != iid:
                    self.fail(
                        "C17:iid-changed",
                        f"accessory {key}: object #{self.rig.num(obj)} changed iid {prev[id(obj)]} -> {iid} "
                        "while it stayed assigned",
                    )
                cur[id(obj)] = iid
            self.prev[id(m)] = cur

    def apply(self, op: dict) -> dict:
        self.h["ops"].append(op)
        self.model_ops.append(op)
        try:
            r = self._apply(op)
        except Exception as ex:  # noqa: BLE001 - an exception out of pyhap is the op's outcome
            if not dbrig.from_pyhap(ex):
                raise
            r = {"err": type(ex).__name__}
        self.results.append(r)
        self.snapshot()
        return r

    def _apply(self, op: dict) -> dict:
        rig = self.rig
        k = op["op"]
        if k == "poll":
            return self.poll(op)
        if k == "touch":
            if op["obj"] >= len(rig.objs):
                return {"ok": None}
            c = rig.objs[op["obj"]]
            if hasattr(c, "set_value") and dbrig.bump_value(c):
                self.hot.append(c)
            return {"ok": None}
        if k == "addAccessory":
            if not rig.is_bridge:
                return {"err": "badTarget"}
            bridge = rig.top
            acc = rig.new_accessory(op["aid"], op["specs"], op.get("catBridge", False), op.get("manager"))
            # value changes while the accessory is set up, before the bridge knows it (and gives it an aid)
            early = dbrig.early_changes(acc, op.get("early") or [])
            before = list(bridge.accessories.items())
            try:
                bridge.add_accessory(acc)
            except ValueError:
                after = list(bridge.accessories.items())
                if len(before) != len(after) or any(a[0] != b[0] or a[1] is not b[1] for a, b in zip(before, after)):
                    self.fail("C17:rejected-add-changed-state", f"add_accessory({op['aid']}) raised but the bridge changed")
                return {"err": "ValueError"}
            rig.number_accessory(acc)
            self.hot += early
            aid = acc.aid
            others = [k2 for k2, a in bridge.accessories.items() if a is not acc]
            if aid in others or aid == bridge.aid or bridge.accessories.get(aid) is not acc:
                self.fail(
                    "C17:duplicate-aid",
                    f"add_accessory accepted aid {aid} although it is "
                    + ("the bridge's own" if aid == bridge.aid else "already used / not registered under it"),
                )
            if len([1 for k2, _ in before if k2 == aid]):
                self.fail("C17:duplicate-aid", f"add_accessory accepted aid {aid} which was already bridged")
            if op["aid"] is None:
                self.auto_aids.append(aid)
                if aid in (1, 7):
                    self.fail("C17:auto-aid-reserved", f"automatic assignment produced the reserved aid {aid}")
            return {"ok": aid}
        if k == "removeAccessory":
            if not rig.is_bridge:
                return {"err": "badTarget"}
            rig.top.accessories.pop(op["aid"], None)
            return {"ok": None}
        acc = rig.accessory(op["aid"])
        if acc is None:
            return {"err": "badTarget"}
        if k == "addService":
            rig.add_service(acc, op["spec"])
            return {"ok": None}
        m = acc.iid_manager
        if k == "assign":
            obj = rig.objs[op["obj"]]
            if not any(obj is o for sv in acc.services for o in [sv, *sv.characteristics]):
                # an object that is not in this accessory's structure (e.g. of a removed accessory whose aid
                # was reused): outside the modelled scope, the history stays oracle-only
                self.h["foreignAssign"] = True
            m.assign(obj)
            return {"ok": None}
        if k == "removeObj":
            return {"ok": m.remove_obj(rig.objs[op["obj"]])}
        if k == "removeIid":
            return {"ok": rig.num(m.remove_iid(op["iid"]))}
        raise ValueError(f"unknown op {k}")

    # ------------------------------------------------------------------ final observation + oracle

    def observe(self, rng=None) -> dict:
        """The final observation; an exception escaping from pyhap during it is recorded as the
        observation (it then differs from the model's), never a harness crash."""
        try:
            return self._observe(rng)
        except Exception as ex:  # noqa: BLE001
            if not dbrig.from_pyhap(ex):
                raise
            return {"results": self.results, "accessories": None, "observation_raised": type(ex).__name__ + ": " + str(ex)[:160]}

    def listing_of(self, doc) -> list:
        """aid / iid / type skeleton of a GET /accessories document; flags duplicate ids."""
        rig = self.rig
        skeleton = []
        seen_aids = []
        for a in doc["accessories"]:
            aid = a["aid"]
            if aid is None or aid in seen_aids:
                self.fail("C17:duplicate-aid", f"aid {aid} is listed {'twice' if aid is not None else 'as null'} in GET /accessories")
            seen_aids.append(aid)
            iids = []
            svcs = []
            for s in a["services"]:
                iids.append(("service", s["iid"]))
                chars = []
                for c in s["characteristics"]:
                    iids.append(("characteristic", c["iid"]))
                    chars.append({"iid": c["iid"], "type": full_type(c["type"])})
                svcs.append({"iid": s["iid"], "type": full_type(s["type"]), "characteristics": chars})
            listed = [i for _, i in iids if i is not None]
            dup = sorted({i for i in listed if listed.count(i) > 1})
            if dup:
                self.fail("C17:duplicate-iid", f"accessory {aid}: instance id(s) {dup} listed more than once")
            skeleton.append({"aid": aid, "services": svcs})
        if rig.is_bridge and any(a == seen_aids[0] for a in seen_aids[1:]):
            self.fail("C17:duplicate-aid", "a bridged accessory carries the bridge's own aid")
        return skeleton

    def live_objects(self) -> Dict[int, set]:
        """aid key -> ids of the characteristic objects in that accessory's structure."""
        return {key: {id(c) for s in acc.services for c in s.characteristics} for key, acc in self.rig.accessories()}

    def poll(self, op: dict) -> dict:
        """An observation in the middle of a history: GET /accessories, then ONE GET /characteristics
        naming every listed characteristic pair plus every path polled earlier (identical ids are polled
        again after structural changes), then a write to a few of the listed pairs.  Judged: a listed
        pair is readable, the read reaches a characteristic of the accessory now bridged under that aid,
        of the listed type, and the same object a write reaches."""
        rig = self.rig
        for key, acc in rig.accessories():
            rig.number_accessory(acc)
        status, doc = rig.http("GET", "/accessories")
        if status != 200 or not isinstance(doc, dict):
            self.fail("C17:get-accessories-failed", f"GET /accessories answered {status}")
            self.model_ops[-1] = {"op": "poll", "ids": []}
            return {"poll": None}
        skeleton = self.listing_of(doc)
        listed = {}
        for a in doc["accessories"]:
            for s in a["services"]:
                for c in s["characteristics"]:
                    if a["aid"] is not None and c["iid"] is not None:
                        listed.setdefault((a["aid"], c["iid"]), c["type"])
        ids = list(listed) + [p for p in self.polled if p not in listed]
        ids = ids[:160]
        self.polled = list(dict.fromkeys(self.polled + ids))[-240:]
        self.model_ops[-1] = {"op": "poll", "ids": [list(p) for p in ids]}
        hits = dbrig.TRACE
        dbrig.TRACE_ON[0] = True
        try:
            del hits[:]
            st, body = rig.http("GET", "/characteristics?id=" + ",".join(f"{a}.{i}" for a, i in ids))
            reads = [c for k2, c in hits if k2 == "r"]
            entries = body.get("characteristics") if isinstance(body, dict) else None
            if st not in (200, 207) or not isinstance(entries, list):
                self.fail("C17:multi-read-failed", f"GET /characteristics for {ids[:8]}… answered {st}")
                return {"poll": {"accessories": skeleton, "code": st, "entries": None}}
            with_value = [e for e in entries if "value" in e]
            reached = {}
            if len(with_value) == len(reads):
                reached = {id(e): c for e, c in zip(with_value, reads)}
            else:
                self.fail("C17:multi-read-inconsistent", f"GET /characteristics returned {len(with_value)} values but read {len(reads)} characteristics")
            view = [
                {k2: v for k2, v in (("aid", e.get("aid")), ("iid", e.get("iid")), ("status", e.get("status")),
                                    ("obj", rig.num(reached[id(e)]) if id(e) in reached else None)) if v is not None}
                for e in entries
            ]
            live = self.live_objects()
            for e in entries:
                if rig.accessory(e.get("aid")) is None and "value" in e:
                    self.fail(
                        "C17:read-of-unknown-accessory-returned-value",
                        f"no accessory is registered under aid {e.get('aid')}, yet the entry for ({e.get('aid')},{e.get('iid')}) "
                        f"carries the value of object #{rig.num(reached[id(e)]) if id(e) in reached else '?'}",
                    )
                    break
            r_of = {}
            pos = 0
            for aid, iid in ids:
                e = entries[pos] if pos < len(entries) and (entries[pos].get("aid"), entries[pos].get("iid")) == (aid, iid) else None
                if e is not None:
                    pos += 1
                if (aid, iid) not in listed:
                    continue
                r_obj = reached.get(id(e)) if e is not None else None
                if r_obj is None:
                    self.fail(
                        "C17:listed-pair-not-readable",
                        f"({aid},{iid}) is listed by GET /accessories but a read of it "
                        + (f"fails (status {e.get('status')})" if e is not None else "produces no entry")
                        + f"; the accessory's manager holds iids {sorted(i for i in (rig.accessory(aid).iid_manager.objs if rig.accessory(aid) is not None else {}))[-4:]}…",
                    )
                    continue
                r_of[(aid, iid)] = r_obj
                if id(r_obj) not in live.get(aid, set()):
                    self.fail(
                        "C17:read-reaches-foreign-object",
                        f"a read of the listed pair ({aid},{iid}) reaches object #{rig.num(r_obj)}, which is no characteristic of "
                        f"the accessory now registered under aid {aid}",
                    )
                elif hap_type(r_obj.type_id) != listed[(aid, iid)]:
                    self.fail(
                        "C17:pair-denotes-other-characteristic",
                        f"({aid},{iid}) is listed with type {listed[(aid, iid)]} but a read reaches a characteristic of type {hap_type(r_obj.type_id)}",
                    )
            keys = list(r_of)
            for k in op.get("pick", []):
                if not keys:
                    break
                aid, iid = keys[k % len(keys)]
                r_obj = r_of[(aid, iid)]
                value = 0 if r_obj.value is None else r_obj.value
                del hits[:]
                q = {"characteristics": [{"aid": aid, "iid": iid, "value": value}]}
                st2, _ = rig.http("PUT", "/characteristics", json.dumps(q).encode())
                writes = [c for k2, c in hits if k2 == "w"]
                w_obj = writes[0] if len(writes) == 1 else None
                if w_obj is not r_obj:
                    self.fail(
                        "C17:read-write-resolve-differently",
                        f"({aid},{iid}): a read reaches object #{rig.num(r_obj)}, a write reaches "
                        f"{'#%s' % rig.num(w_obj) if w_obj is not None else 'nothing'} (PUT answered {st2})",
                    )
        finally:
            dbrig.TRACE_ON[0] = False
        # warm the caches again (the writes above dropped some of them)
        rig.http("GET", "/accessories")
        return {"poll": {"accessories": skeleton, "code": st, "entries": view}}

    def _observe(self, rng=None) -> dict:
        rig = self.rig
        dbrig.TRACE_ON[0] = True
        try:
            return self._observe_traced(rng)
        finally:
            dbrig.TRACE_ON[0] = False

    def _observe_traced(self, rng=None) -> dict:
        rig = self.rig

        status, doc = rig.http("GET", "/accessories")
        if status != 200 or not isinstance(doc, dict):
            self.fail("C17:get-accessories-failed", f"GET /accessories answered {status}")
            return {"results": self.results, "accessories": None}
        skeleton = self.listing_of(doc)

        # identity probes: which object does a read / a write reach
        hits = dbrig.TRACE  # ("r"|"w", object) recorded by the class-level wrappers (no callbacks installed)
        for key, acc in rig.accessories():
            # anything live that the construction bookkeeping does not know (e.g. registered by an add
            # that was reported as rejected) gets a number now: an observation, not a crash
            rig.number_accessory(acc)
        chars_live = []
        for key, acc in rig.accessories():
            for s in acc.services:
                for c in s.characteristics:
                    chars_live.append((key, acc, c))
        subs_obs = self.subscription_scenario(doc, rng)
        resolve = {}
        pairs = []
        for a in doc["accessories"]:
            for s in a["services"]:
                for c in s["characteristics"]:
                    if c["iid"] is not None and a["aid"] is not None:
                        pairs.append((a["aid"], c["iid"], c["type"]))
        client_of = {}
        for n, (aid, iid, typ) in enumerate(pairs):
            addr = ("10.1.%d.%d" % (n // 250, n % 250), 4000 + n)
            client_of[(aid, iid)] = addr
            del hits[:]
            st, body = rig.http("GET", f"/characteristics?id={aid}.{iid}")
            reads = [c for k2, c in hits if k2 == "r"]
            r_obj = reads[0] if len(reads) == 1 else None
            if r_obj is None:
                self.fail("C17:listed-pair-not-readable", f"GET /characteristics?id={aid}.{iid} ({st}) reached {len(reads)} characteristics")
                continue
            if hap_type(r_obj.type_id) != typ:
                self.fail(
                    "C17:pair-denotes-other-characteristic",
                    f"({aid},{iid}) is listed with type {typ} but a read reaches a characteristic of type {hap_type(r_obj.type_id)}",
                )
            value = 0 if r_obj.value is None else r_obj.value
            del hits[:]
            q = {"characteristics": [{"aid": aid, "iid": iid, "value": value}]}
            st, body = rig.http("PUT", "/characteristics", json.dumps(q).encode(), addr)
            writes = [c for k2, c in hits if k2 == "w"]
            w_obj = writes[0] if len(writes) == 1 else None
            if w_obj is not r_obj:
                self.fail(
                    "C17:read-write-resolve-differently",
                    f"({aid},{iid}): a read reaches object #{rig.num(r_obj)}, a write reaches "
                    f"{'#%s' % rig.num(w_obj) if w_obj is not None else 'nothing'} (PUT answered {st})",
                )
            # subscribe this pair's own client
            q = {"characteristics": [{"aid": aid, "iid": iid, "ev": True}]}
            rig.http("PUT", "/characteristics", json.dumps(q).encode(), addr)
            resolve[id(r_obj)] = {"read": rig.num(r_obj), "write": rig.num(w_obj)}
            resolve[id(r_obj)]["_pair"] = (aid, iid)
        # events: the id an event carries and the subscription it reaches
        out_resolve = []
        for key, acc, c in chars_live:
            del rig.events[:]
            del rig.pushed[:]
            try:
                c.notify()
            except Exception as ex:  # noqa: BLE001
                self.fail("C17:event-raised", f"notify of object #{rig.num(c)} raised {type(ex).__name__}")
                continue
            ev = rig.events[-1] if rig.events else None
            ev_pair = [ev["aid"], ev["iid"]] if ev else None
            iid = acc.iid_manager.get_iid(c)
            entry = {"obj": rig.num(c), "pair": [acc.aid, iid], "event": ev_pair}
            info = resolve.get(id(c))
            if info:
                pair = info["_pair"]
                entry["read"], entry["write"] = info["read"], info["write"]
                want = [(pair, client_of[pair])]
                got = [((d["aid"], d["iid"]), cl) for d, cl in rig.pushed]
                if ev_pair != list(pair) or got != want:
                    self.fail(
                        "C17:event-id-differs",
                        f"the characteristic read at {pair} publishes events as {ev_pair}; delivered to "
                        f"{[g[0] for g in got]} (subscribers of the pair expected exactly once)",
                    )
            out_resolve.append(entry)
        probe_obs = self.multi_read_probes(doc, resolve, hits, rng)
        managers = []
        for key, acc in rig.accessories():
            m = acc.iid_manager
            managers.append(
                {
                    "aid": key,
                    "ownAid": acc.aid,
                    "counter": m.counter,
                    "iids": sorted(([rig.num(o), i] for o, i in m.iids.items()), key=_nkey),
                }
            )
        return {
            "results": self.results,
            "accessories": skeleton,
            "managers": managers,
            "resolve": sorted(out_resolve, key=lambda e: _nkey([e["obj"]])),
            "probes": probe_obs,
            "subs": subs_obs,
        }

    # ------------------------------------------------------------------ subscriptions

    SUB_CLIENTS = [("10.9.0.1", 6001), ("10.9.0.2", 6002), ("10.9.0.3", 6003)]

    def gen_subs(self, rng, pairs: List[tuple]) -> List[dict]:
        """Subscription requests naming several pairs at once, single-pair (un)subscribes by other
        connections, value changes on every pair, and several value changes of different
        characteristics (of one accessory and of others) inside one coalescing window."""
        by_iid: Dict[int, List[tuple]] = {}
        by_aid: Dict[int, List[tuple]] = {}
        for p in pairs:
            by_iid.setdefault(p[1], []).append(p)
            by_aid.setdefault(p[0], []).append(p)
        group: List[tuple] = []
        hot_pairs = []
        for c in self.hot:  # characteristics that published before: their listed pair goes first
            for key, acc in self.rig.accessories():
                if any(c is x for sv in acc.services for x in sv.characteristics):
                    p = (acc.aid, acc.iid_manager.get_iid(c))
                    if p in pairs and p not in hot_pairs:
                        hot_pairs.append(p)
        if hot_pairs:
            group += rng.sample(hot_pairs, min(len(hot_pairs), 2))
        rich = [v for v in by_aid.values() if len(v) >= 2]
        if rich:
            for p in rng.sample(rng.choice(rich), 2):  # two characteristics of one accessory
                if p not in group:
                    group.append(p)
        shared = [v for v in by_iid.values() if len(v) >= 2]
        if shared:
            for p in rng.choice(shared)[:2]:  # the same iid in two accessories
                if p not in group:
                    group.append(p)
        for p in rng.sample(pairs, min(len(pairs), 3)):
            if p not in group:
                group.append(p)
        group = group[:6]
        if len(group) < 2:
            return []
        sub = lambda cl, items: {"client": cl, "sub": [[a, i, on] for (a, i), on in items]}  # noqa: E731
        every = [{"notify": list(p)} for p in group]
        steps = [sub(0, [(p, True) for p in group]), {"window": [list(p) for p in group[:3]]}, sub(1, [(group[0], True)])] + every
        steps += [{"window": [list(group[1]), list(group[0]), list(group[1])]}]
        steps += [sub(1, [(group[0], False)]), sub(0, [(group[1], False)])] + every
        steps += [sub(2, [(p, True) for p in group[1:]]), sub(2, [(group[-1], False)])] + every
        steps += [{"window": [list(p) for p in group]}]
        for _ in range(rng.randrange(2, 6)):
            k = rng.choice([1, 1, 2, 3])
            steps.append(sub(rng.randrange(3), [(rng.choice(group), rng.random() < 0.6) for _ in range(k)]))
            if rng.random() < 0.5:
                steps.append({"window": [list(rng.choice(group)) for _ in range(rng.choice([2, 3, 4]))]})
            else:
                steps += [{"notify": list(rng.choice(group))} for _ in range(rng.choice([1, 2]))]
        steps += every
        return steps

    def subscription_scenario(self, doc, rng) -> List[dict]:
        """Oracle on what is DELIVERED: real HAPServerProtocol connections on fake transports; after
        the coalescing window has elapsed the EVENT bodies written to each transport are decoded.  A
        connection receives an entry for pair p iff it itself subscribed to p and has not unsubscribed
        since and p's characteristic changed in that window; the entry carries p and the value of the
        characteristic that changed -- also when several characteristics change inside one window."""
        rig = self.rig
        pairs = [(a["aid"], c["iid"]) for a in doc["accessories"] for s in a["services"] for c in s["characteristics"]
                 if a["aid"] is not None and c["iid"] is not None]
        pairs = list(dict.fromkeys(pairs))
        steps = self.h.get("subs")
        if steps is None:
            import random as _random

            steps = self.gen_subs(rng or _random.Random(0), pairs) if pairs else []
            self.h["subs"] = steps
        own: Dict[int, set] = {}
        out: List[dict] = []
        self.model_subs = []
        done: List[str] = []
        if not steps:
            return out
        for peer in self.SUB_CLIENTS:
            rig.connect(peer)
        try:
            for st in steps:
                if "sub" in st:
                    addr = self.SUB_CLIENTS[st["client"]]
                    q = {"characteristics": [{"aid": a, "iid": i, "ev": on} for a, i, on in st["sub"]]}
                    rig.http("PUT", "/characteristics", json.dumps(q).encode(), addr)
                    for a, i, on in st["sub"]:
                        (own.setdefault(st["client"], set()).add if on else own.setdefault(st["client"], set()).discard)((a, i))
                    self.model_subs.append(st)
                    done.append(f"client {st['client']}: " + ", ".join(("+" if on else "-") + f"({a},{i})" for a, i, on in st["sub"]))
                    continue
                changed = [tuple(st["notify"])] if "notify" in st else [tuple(p) for p in st["window"]]
                objs = []
                for aid, iid in changed:
                    acc = rig.accessory(aid)
                    obj = acc.iid_manager.get_obj(iid) if acc is not None else None
                    if obj is not None and hasattr(obj, "notify"):
                        objs.append(((aid, iid), obj))
                if not objs:
                    continue  # the pairs are not listed in this (minimised) history
                nums = [rig.num(o) for _, o in objs]
                self.model_subs.append({"notify": nums[0]} if "notify" in st else {"window": nums})
                for peer in self.SUB_CLIENTS:
                    rig.delivered(peer)  # nothing may be pending, start from a clean transport
                for _, obj in objs:
                    obj.notify()
                rig.loop.advance(0.75)  # past the 0.5 s coalescing window
                want_pairs = list(dict.fromkeys(p for p, _ in objs))
                value_of = {p: o.value for p, o in objs}
                rows = []
                for n, peer in enumerate(self.SUB_CLIENTS):
                    got = rig.delivered(peer)
                    want = [p for p in want_pairs if p in own.get(n, set())]
                    got_pairs = [(e.get("aid"), e.get("iid")) for e in got]
                    if got_pairs:
                        rows.append([n, [list(p) for p in got_pairs]])
                    bad_value = [e for e in got if (e.get("aid"), e.get("iid")) in value_of
                                 and e.get("value") != value_of[(e.get("aid"), e.get("iid"))]]
                    if sorted(got_pairs, key=str) != sorted(want, key=str) or bad_value:
                        self.fail(
                            "C17:delivered-event-differs",
                            f"after [{'; '.join(done[-5:])}] the characteristics {want_pairs} change within one window; connection {n} "
                            f"receives {[(e.get('aid'), e.get('iid'), e.get('value')) for e in got]}, it is subscribed to "
                            f"{want} of them (values {[value_of[p] for p in want]})",
                        )
                out.append({"deliveries": rows})
        finally:
            for peer in self.SUB_CLIENTS:
                if peer in rig.conns:
                    rig.disconnect(peer)
        return out

    # ------------------------------------------------------------------ multi-id reads

    def gen_probes(self, rng, listed_by_aid) -> List[dict]:
        """Multi-id read requests over the listed pairs: runs of ids per accessory (as controllers
        send them), repeated ids, unknown accessories interleaved, some accessories unavailable."""
        rig = self.rig
        aids = list(listed_by_aid)
        bridged = [a for a in aids if a != 1]
        probes = []
        # deterministic: a characteristic of each accessory followed by two of the next one, which is unavailable
        if len(aids) >= 2:
            ids = []
            for a, b in zip(aids, aids[1:]):
                ids.append(list(listed_by_aid[a][0]))
                ids += [list(p) for p in listed_by_aid[b][:2]]
            probes.append({"unavailable": bridged[::2], "ids": ids})
            probes.append({"unavailable": bridged[1::2], "ids": ids})
        everything = [list(p) for a in aids for p in listed_by_aid[a]]
        if everything:
            shuffled = everything[:]
            rng.shuffle(shuffled)
            probes.append({"unavailable": [], "ids": shuffled[:60]})
        for _ in range(3):
            if not aids:
                break
            unav = [a for a in bridged if rng.random() < 0.4]
            ids = []
            for _ in range(rng.randrange(3, 11)):
                x = rng.random()
                if x < 0.1:
                    ids += [[rng.choice([40, 99]), rng.randrange(1, 12)] for _ in range(rng.choice([1, 2]))]
                    continue
                a = rng.choice(aids)
                run_ = [list(rng.choice(listed_by_aid[a])) for _ in range(rng.choice([1, 2, 2, 3]))]
                if rng.random() < 0.2:
                    run_.append(run_[0])
                ids += run_
            probes.append({"unavailable": unav, "ids": ids})
        return probes

    def multi_read_probes(self, doc, resolve, hits, rng) -> List[dict]:
        """Oracle on multi-id reads: the entry for a listed pair of an available accessory carries
        the value of exactly the object the write / event paths reach for that pair; for an
        unavailable accessory it is a failure entry, never another object's value."""
        rig = self.rig
        listed_by_aid: Dict[int, List[tuple]] = {}
        for a in doc["accessories"]:
            prs = [(a["aid"], c["iid"]) for s in a["services"] for c in s["characteristics"] if c["iid"] is not None]
            if a["aid"] is not None and prs and a["aid"] not in listed_by_aid:
                listed_by_aid[a["aid"]] = prs
        probes = self.h.get("probes")
        if probes is None:
            import random as _random

            probes = self.gen_probes(rng or _random.Random(0), listed_by_aid)
            self.h["probes"] = probes
        target = {}  # pair -> object that the single-id read / write / event probes agreed on
        for info in resolve.values():
            if info.get("write") is not None and info.get("write") == info.get("read"):
                target[tuple(info["_pair"])] = info["read"]
        out = []
        for pr in probes:
            flagged = []
            for key, acc in rig.accessories():
                if key != 1 and hasattr(acc, "rig_available"):
                    acc.rig_available = key not in pr["unavailable"]
                    if not acc.rig_available:
                        flagged.append(key)
            ids = [tuple(p) for p in pr["ids"]]
            del hits[:]
            st, body = rig.http("GET", "/characteristics?id=" + ",".join(f"{a}.{i}" for a, i in ids))
            entries = body.get("characteristics") if isinstance(body, dict) else None
            reads = [c for k2, c in hits if k2 == "r"]
            view = {"code": st, "entries": None}
            if st not in (200, 207) or not isinstance(entries, list):
                self.fail("C17:multi-read-failed", f"GET /characteristics for {ids[:8]}… answered {st}")
                out.append(view)
                continue
            with_value = [e for e in entries if "value" in e]
            reached = {}
            if len(with_value) == len(reads):
                for e, c in zip(with_value, reads):
                    reached[id(e)] = c
            else:
                self.fail(
                    "C17:multi-read-inconsistent",
                    f"GET /characteristics for {ids[:8]}… returned {len(with_value)} values but read {len(reads)} characteristics",
                )
            view["entries"] = [
                {k2: v for k2, v in (("aid", e.get("aid")), ("iid", e.get("iid")), ("status", e.get("status")),
                                    ("obj", rig.num(reached[id(e)]) if id(e) in reached else None)) if v is not None}
                for e in entries
            ]
            pos = 0
            for aid, iid in ids:
                acc = rig.accessory(aid)
                e = entries[pos] if pos < len(entries) and (entries[pos].get("aid"), entries[pos].get("iid")) == (aid, iid) else None
                if e is not None:
                    pos += 1
                if acc is None or (aid, iid) not in target:
                    continue
                if e is None:
                    self.fail("C17:multi-read-entry-missing", f"request {ids[:8]}…: no entry for the listed pair ({aid},{iid})")
                    break
                if aid in flagged:
                    if "value" in e or e.get("status", 0) == 0:
                        got = reached.get(id(e))
                        self.fail(
                            "C17:unavailable-read-returned-value",
                            f"accessory {aid} is unavailable, yet the entry for ({aid},{iid}) in request {ids[:6]}… has status "
                            f"{e.get('status', '<none>')} and the value of object #{rig.num(got) if got is not None else '?'} "
                            f"(writes and events for the pair reach object #{target[(aid, iid)]})",
                        )
                elif id(e) in reached and rig.num(reached[id(e)]) != target[(aid, iid)]:
                    self.fail(
                        "C17:multi-read-resolves-differently",
                        f"in request {ids[:6]}… the entry for ({aid},{iid}) carries the value of object "
                        f"#{rig.num(reached[id(e)])}; writes and events for the pair reach object #{target[(aid, iid)]}",
                    )
                elif "value" not in e:
                    self.fail(
                        "C17:multi-read-listed-pair-failed",
                        f"in request {ids[:6]}… the read of the listed pair ({aid},{iid}) of an available accessory failed "
                        f"(status {e.get('status')})",
                    )
            out.append(view)
        for key, acc in rig.accessories():
            if hasattr(acc, "rig_available"):
                acc.rig_available = True
        return out

    def char_numbers(self):
        from pyhap.characteristic import Characteristic

        return {n for n, o in enumerate(self.rig.objs) if isinstance(o, Characteristic)}


def _nkey(x):
    """Sort key that tolerates None among numbers."""
    return [(v is None, v if v is not None else 0) for v in x]


def model_view(m: dict, char_nums, live_objs) -> dict:
    """Project the model's answer onto what the harness observes."""
    accs = None
    if m.get("accessories") is not None:
        accs = [
            {
                "aid": a["aid"],
                "services": [
                    {
                        "iid": s["iid"],
                        "type": s["type"],
                        "characteristics": [{"iid": c["iid"], "type": c["type"]} for c in s["characteristics"]],
                    }
                    for s in a["services"]
                ],
            }
            for a in m["accessories"]
        ]
    resolve = []
    for e in m.get("resolve", []):
        if e["obj"] in char_nums:
            x = {"obj": e["obj"], "pair": e["pair"], "event": e["event"]}
            if "read" in e:
                x["read"], x["write"] = e["read"], e["write"]
            resolve.append(x)
    managers = [
        {"aid": g["aid"], "ownAid": g["ownAid"], "counter": g["counter"], "iids": sorted(g["iids"], key=_nkey)}
        for g in m.get("managers", [])
    ]
    return {
        "results": m.get("results"),
        "accessories": accs,
        "managers": managers,
        "resolve": sorted(resolve, key=lambda e: _nkey([e["obj"]])),
        "probes": m.get("probes", []),
        "subs": m.get("subs", []),
    }


class ConstructionRaised(Exception):
    """pyhap raised while the top-level accessory was being built from shipped services."""


def new_run(ctx, bridge, main, main_aid, main_early=None, main_manager=None) -> "Run":
    try:
        return Run(ctx, bridge, main, main_aid, main_early, main_manager)
    except Exception as ex:  # noqa: BLE001
        if not dbrig.from_pyhap(ex):
            raise
        raise ConstructionRaised(f"{type(ex).__name__}: {str(ex)[:160]}") from None


def replay_history(h: dict, ctx: Optional[Ctx] = None):
    run = new_run(ctx, h["bridge"], h["main"], h.get("mainAid", 1), h.get("mainEarly"), h.get("mainManager"))
    try:
        if h.get("probes") is not None:
            run.h["probes"] = h["probes"]
        if h.get("subs") is not None:
            run.h["subs"] = h["subs"]
        for op in h["ops"]:
            run.apply(op)
        obs = run.observe(ctx.rng if ctx is not None else None)
        return run, obs
    finally:
        run.rig.close()


# --------------------------------------------------------------------------- generation


def boundary_histories(pool) -> List[dict]:
    lb = {"svc": "Lightbulb", "opt": ["Brightness"]}
    sw = {"svc": "Switch", "opt": []}
    auto = lambda specs=(): {"op": "addAccessory", "aid": None, "specs": list(specs)}  # noqa: E731
    expl = lambda a, specs=(): {"op": "addAccessory", "aid": a, "specs": list(specs)}  # noqa: E731
    hs = []
    hs.append({"bridge": True, "main": [], "ops": [auto([lb]) for _ in range(9)]})
    hs.append({"bridge": True, "main": [], "ops": [expl(a) for a in (2, 3, 4, 5, 6)] + [auto(), auto(), auto()]})
    hs.append({"bridge": True, "main": [], "ops": [expl(a) for a in (2, 3, 4, 5, 6, 7, 8)] + [auto(), expl(7), expl(1), auto()]})
    hs.append({"bridge": True, "main": [sw], "ops": [expl(2, [lb]), expl(2), expl(1), {"op": "addAccessory", "aid": 5, "catBridge": True, "specs": []}, auto()]})
    hs.append(
        {
            "bridge": True,
            "main": [],
            "ops": [auto([lb]), auto(), auto(), {"op": "removeAccessory", "aid": 3}, auto([sw]), {"op": "removeAccessory", "aid": 9}, expl(3), auto()],
        }
    )
    # top-level objects: 0 info service, 1-6 its characteristics, 7 protocol service, 8 Version
    hs.append(
        {
            "bridge": True,
            "main": [lb],
            "ops": [
                {"op": "removeObj", "aid": 1, "obj": 11},
                {"op": "addService", "aid": 1, "spec": sw},
                {"op": "assign", "aid": 1, "obj": 11},
                {"op": "removeIid", "aid": 1, "iid": 13},
                {"op": "removeIid", "aid": 1, "iid": 13},
                {"op": "removeObj", "aid": 1, "obj": 11},
                {"op": "removeObj", "aid": 1, "obj": 11},
                {"op": "assign", "aid": 1, "obj": 12},
                {"op": "assign", "aid": 1, "obj": 11},
                {"op": "addService", "aid": 1, "spec": lb},
                {"op": "removeIid", "aid": 1, "iid": 99},
            ],
        }
    )
    hs.append({"bridge": False, "mainAid": None, "main": [lb], "ops": [{"op": "removeIid", "aid": 1, "iid": 2}, {"op": "addService", "aid": 1, "spec": sw}]})
    hs.append({"bridge": False, "mainAid": 1, "main": [lb, sw], "ops": [{"op": "removeObj", "aid": 1, "obj": 9}, {"op": "assign", "aid": 1, "obj": 9}]})
    hs.append({"bridge": True, "main": [], "ops": [auto() for _ in range(5)] + [{"op": "removeAccessory", "aid": 2}, expl(7), auto(), auto(), auto()]})
    # hand-assembled services: a type repeated within one add_characteristic call (fresh objects of one
    # type / the same fresh object twice) and in a later call
    def raw(calls, same):
        return {"raw": "00000043-0000-1000-8000-0026BB765291", "charNames": [n for c in calls for n in c], "calls": calls, "sameObject": same}

    hs.append(
        {
            "bridge": True,
            "main": [],
            "ops": [
                {"op": "addService", "aid": 1, "spec": raw([["On", "Brightness", "On"]], False)},
                {"op": "addService", "aid": 1, "spec": raw([["On", "Brightness", "On"]], True)},
                auto([raw([["On", "On"], ["Brightness", "On"]], False)]),
                {"op": "addService", "aid": 2, "spec": raw([["Hue"], ["Hue", "Saturation"]], True)},
                {"op": "addService", "aid": 2, "spec": raw([["Hue", "Saturation", "Hue", "Saturation"]], False)},
            ],
        }
    )
    hs.append({"bridge": False, "mainAid": None, "main": [], "ops": [{"op": "addService", "aid": 1, "spec": raw([["Name", "On", "Name"]], False)}]})
    # construction-time publishes: value changes before the bridge / driver assigns the aid
    hs.append({"bridge": True, "main": [], "ops": [{**auto([lb]), "early": [6, 7]}, {**expl(5, [sw]), "early": [6]}, {**auto([lb, sw]), "early": [0, 7, 9]}]})
    hs.append({"bridge": False, "mainAid": None, "mainEarly": [6, 7], "main": [lb], "ops": []})
    hs.append({"bridge": True, "mainEarly": [9, 10], "main": [lb], "ops": [auto([sw])]})
    # an event, then the characteristic is removed from the manager and assigned again, then events again
    hs.append(
        {
            "bridge": True,
            "main": [lb],
            "ops": [{"op": "touch", "obj": 10}, {"op": "touch", "obj": 11}, {"op": "removeObj", "aid": 1, "obj": 10},
                    {"op": "assign", "aid": 1, "obj": 10}, {**auto([lb]), "early": [7]}, {"op": "touch", "obj": 20},
                    {"op": "removeIid", "aid": 2, "iid": 9}, {"op": "assign", "aid": 2, "obj": 20}],
        }
    )
    poll = lambda *pick: {"op": "poll", "pick": list(pick) or [0, 3, 7]}  # noqa: E731
    # reads interleaved with replacing a bridged accessory under the same aid (explicit, and the
    # automatic search handing the lowest free aid out again); identical paths are polled again
    hs.append(
        {
            "bridge": True,
            "main": [],
            "ops": [auto([lb]), auto([sw]), poll(), {"op": "removeAccessory", "aid": 2}, expl(2, [sw, lb]), poll(1, 9, 12),
                    {"op": "removeAccessory", "aid": 3}, auto([lb, sw]), poll(2, 8), {"op": "removeAccessory", "aid": 2}, poll()],
        }
    )
    # reads interleaved with removing an object from the manager and assigning it again (new iid),
    # for a characteristic and for a whole service
    hs.append(
        {
            "bridge": True,
            "main": [lb],
            "ops": [poll(), {"op": "removeObj", "aid": 1, "obj": 11}, poll(), {"op": "assign", "aid": 1, "obj": 11}, poll(),
                    {"op": "removeIid", "aid": 1, "iid": 12}, {"op": "assign", "aid": 1, "obj": 11}, poll(),
                    {"op": "removeObj", "aid": 1, "obj": 9}, {"op": "removeObj", "aid": 1, "obj": 10}, {"op": "removeObj", "aid": 1, "obj": 11},
                    {"op": "assign", "aid": 1, "obj": 9}, {"op": "assign", "aid": 1, "obj": 10}, {"op": "assign", "aid": 1, "obj": 11}, poll()],
        }
    )
    hs.append({"bridge": False, "mainAid": None, "main": [lb], "ops": [poll(), {"op": "removeIid", "aid": 1, "iid": 9}, {"op": "assign", "aid": 1, "obj": 8}, poll()]})
    # application IIDManager subclasses (get_iid_for_obj overridden): recorded iids below the counter the
    # application starts at, equal to it, and far above; mixed with automatic ones; removal and re-assignment
    mgr = {"start": 30, "recorded": {"lamp": 20, "fan": 30, "far": 5003}}
    lamp = {"svc": "Lightbulb", "opt": ["Brightness"], "uid": "lamp"}
    fan = {"svc": "Fan", "opt": [], "uid": "fan"}
    far = {"svc": "Outlet", "opt": [], "uid": "far"}
    temp = {"svc": "TemperatureSensor", "opt": []}
    hs.append({"bridge": False, "mainAid": 1, "mainManager": mgr, "main": [lamp, fan, temp, sw],
               "ops": [poll(), {"op": "addService", "aid": 1, "spec": far}, {"op": "addService", "aid": 1, "spec": lb}, poll()]})
    hs.append({"bridge": True, "mainManager": {"start": 12, "recorded": {"lamp": 12}}, "main": [lamp],
               "ops": [{**auto([dict(fan), dict(temp)]), "manager": mgr}, {**auto([dict(lamp), dict(far), dict(sw)]), "manager": mgr}, poll(),
                       {"op": "addService", "aid": 2, "spec": dict(lamp)}, {"op": "addService", "aid": 3, "spec": dict(temp)},
                       {"op": "removeObj", "aid": 1, "obj": 9}, {"op": "assign", "aid": 1, "obj": 9}, poll(),
                       {"op": "addService", "aid": 1, "spec": dict(sw)}, poll()]})
    for h in hs:
        h.setdefault("mainAid", 1)
    return hs


def gen_manager(rng) -> dict:
    """A well-behaved application policy for a custom IIDManager: distinct recorded iids, the low ones at
    or below the value the application starts the automatic counter at (so automatic iids, all above it,
    never meet them), the high ones far beyond anything a history reaches."""
    lows = rng.sample(range(2, 40), rng.choice([1, 2, 3]))
    highs = [5000 + k for k in rng.sample(range(50), rng.choice([0, 1, 2]))]
    start = max(lows) + rng.choice([0, 0, 1, 6])
    return {"start": start, "recorded": {f"u{i}": v for i, v in enumerate(lows + highs)}}


def uses_custom(h: dict) -> bool:
    """Histories the database model does not mirror (judged by the oracle only): application manager
    subclasses, and a foreign object assigned to a manager."""
    return bool(h.get("foreignAssign")) or h.get("mainManager") is not None or any(o.get("manager") is not None for o in h["ops"])


def random_history(ctx: Ctx, pool, big: bool = False):
    """Generate adaptively while executing on the real code; returns the finished Run."""
    rng = ctx.rng
    bridge = rng.random() < 0.8
    main = [dbrig.random_spec(rng, pool) for _ in range(rng.choice([0, 0, 1, 2]))]
    main_aid = 1 if bridge else rng.choice([1, None])
    main_early = [rng.randrange(1000) for _ in range(rng.choice([1, 2]))] if rng.random() < 0.2 else []
    custom = rng.random() < 0.25  # application IIDManager subclasses (explicit + automatic iids mixed)
    uids: Dict[Any, List[str]] = {}  # accessory key -> unique_ids its manager still has a recorded iid for
    main_manager = None

    def tag(specs, free):
        for sp in specs:
            if free and "svc" in sp and rng.random() < 0.7:
                sp["uid"] = free.pop(rng.randrange(len(free)))
        return specs

    if custom and rng.random() < 0.7:
        main_manager = gen_manager(rng)
        uids[1] = list(main_manager["recorded"])
        if not main:
            main = [dbrig.random_spec(rng, pool)]
        tag(main, uids[1])
    run = new_run(ctx, bridge, main, main_aid, main_early, main_manager)
    rig = run.rig

    def any_spec():
        if rng.random() < 0.15:
            return dbrig.random_raw_spec(rng, pool, rig.loader)
        return dbrig.random_spec(rng, pool)

    n_ops = rng.randrange(8, 16) if big else rng.randrange(2, 13)
    removed: List[tuple] = []  # (aid, obj number) removed from a manager
    polls = rng.random() < 0.6  # this history interleaves reads with the construction
    pending: List[dict] = []  # ops forced next (replace under the same aid, poll again)
    for _ in range(n_ops):
        keys = [k for k, _ in rig.accessories()]
        if pending:
            r = run.apply(pending.pop(0))
            continue
        if polls and rng.random() < 0.22:
            run.apply({"op": "poll", "pick": [rng.randrange(1000) for _ in range(rng.choice([0, 2, 4]))]})
            continue
        if rng.random() < 0.08:
            # a value change (an event), sometimes followed by removing the characteristic from the
            # manager and assigning it again: its later events must carry the new iid
            key = rng.choice(keys)
            acc = rig.accessory(key)
            cs = [rig.num(c) for s2 in acc.services for c in s2.characteristics]
            cs = [n for n in cs if n is not None]
            if cs:
                o = rng.choice(cs)
                run.apply({"op": "touch", "obj": o})
                if rng.random() < 0.5:
                    pending = [{"op": "removeObj", "aid": key, "obj": o}, {"op": "assign", "aid": key, "obj": o}]
                continue
        x = rng.random()
        if bridge and (x < (0.55 if big else 0.25)) and len(keys) < (12 if big else 7):
            y = rng.random()
            if y < 0.5:
                aid = None
            elif y < 0.8:
                aid = rng.choice([a for a in range(2, 13)])
            else:
                aid = rng.choice(keys + [1, 7])
            specs = [any_spec() for _ in range(rng.choice([0, 0, 1, 1, 2]))]
            op = {"op": "addAccessory", "aid": aid, "specs": specs}
            if custom and rng.random() < 0.6:
                op["manager"] = gen_manager(rng)
                op["_free"] = list(op["manager"]["recorded"])
                if not specs:
                    specs.append(dbrig.random_spec(rng, pool))
                tag(specs, op["_free"])
            if rng.random() < 0.3:
                # value changes while the accessory is being set up, before the bridge gives it an aid
                op["early"] = [rng.randrange(1000) for _ in range(rng.choice([1, 2, 3]))]
            if rng.random() < 0.04:
                op["catBridge"] = True
        elif bridge and x < 0.33 and len(keys) > 1:
            op = {"op": "removeAccessory", "aid": rng.choice(keys[1:] + [rng.randrange(2, 12)])}
            if polls and op["aid"] in keys and rng.random() < 0.6:
                # replace it by a new accessory under the same aid, then poll the same paths again
                pending = [{"op": "addAccessory", "aid": rng.choice([op["aid"], None]),
                            "specs": [any_spec() for _ in range(rng.choice([1, 1, 2]))]},
                           {"op": "poll", "pick": [rng.randrange(1000) for _ in range(2)]}]
        elif x < 0.5:
            key = rng.choice(keys)
            op = {"op": "addService", "aid": key, "spec": tag([any_spec()], uids.get(key, []))[0]}
        else:
            key = rng.choice(keys)
            acc = rig.accessory(key)
            own = [rig.num(o) for s in acc.services for o in [s, *s.characteristics]]
            z = rng.random()
            # only objects of THIS accessory's structure: after a removed accessory was replaced under the same
            # aid, objects of the old one are foreign to the new manager (assigning them is documented misuse)
            mine = [o for a, o in removed if a == key and o in own]
            if z < 0.35:
                op = {"op": "removeObj", "aid": key, "obj": rng.choice(own)}
            elif z < 0.65:
                top = acc.iid_manager.counter
                op = {"op": "removeIid", "aid": key, "iid": rng.randrange(1, top + 3)}
            elif mine and z < 0.92:
                op = {"op": "assign", "aid": key, "obj": rng.choice(mine)}
            else:
                op = {"op": "assign", "aid": key, "obj": rng.choice(own)}
        free = op.pop("_free", None)
        r = run.apply(op)
        if free is not None and r.get("ok") is not None:
            uids[r["ok"]] = free
        if op["op"] == "removeAccessory":
            uids.pop(op["aid"], None)
        if op["op"] == "removeObj" and r.get("ok") is not None:
            removed.append((op["aid"], op["obj"]))
        if op["op"] == "removeIid" and r.get("ok") is not None:
            removed.append((op["aid"], r["ok"]))
    return run


# --------------------------------------------------------------------------- manager scripts (custom managers)


class _Thing:
    """Stands in for a Service / Characteristic in a manager script (hashable, has the two attributes
    the manager looks at)."""

    __slots__ = ("unique_id", "type_id", "n")

    def __init__(self, n, uid):
        self.n, self.unique_id, self.type_id = n, uid, f"thing-{n}"


def gen_manager_script(rng) -> dict:
    """Operations on ONE application manager (get_iid_for_obj overridden).  `policy`: the application is
    well-behaved (recorded iids distinct, at or below the counter it starts at or far above, one object
    per unique_id) -- then the property's demand applies; otherwise the script is arbitrary (recorded iids
    may collide with each other and with automatic ones) and only ties the model to the code."""
    policy = rng.random() < 0.6
    n = rng.randrange(3, 9)
    if policy:
        spec = gen_manager(rng)
        uids = list(spec["recorded"])
        rng.shuffle(uids)
        owner = [uids.pop() if uids and rng.random() < 0.5 else None for _ in range(n)]
    else:
        start = rng.randrange(0, 8)
        spec = {"start": start, "recorded": {f"u{i}": rng.randrange(1, start + 6) for i in range(rng.choice([1, 2, 3]))}}
        owner = [rng.choice(list(spec["recorded"]) + [None, None]) for _ in range(n)]
    ops = []
    for _ in range(rng.randrange(4, 16)):
        x = rng.random()
        if x < 0.55:
            ops.append(["assign", rng.randrange(n)])
        elif x < 0.8:
            ops.append(["removeObj", rng.randrange(n)])
        else:
            ops.append(["removeIid", rng.choice(list(spec["recorded"].values()) + [spec["start"] + k for k in range(1, 6)])])
    return {"policy": policy, "start": spec["start"], "recorded": spec["recorded"], "owner": owner, "ops": ops}


def run_manager_script(sc: dict):
    """Run the script on a real `IIDManager` subclass; returns (model line, observation, failures)."""
    mgr = dbrig.custom_manager({"start": sc["start"], "recorded": sc["recorded"]})
    things = [_Thing(k, uid) for k, uid in enumerate(sc["owner"])]
    num = {id(t): t.n for t in things}
    mops, fails = [], []
    ever: Dict[int, Any] = {}
    raised = None
    for op in sc["ops"]:
        try:
            if op[0] == "assign":
                t = things[op[1]]
                exp = sc["recorded"].get(t.unique_id)
                mops.append({"op": "explicit", "obj": t.n, "iid": exp} if exp is not None else {"op": "auto", "obj": t.n})
                mgr.assign(t)
            elif op[0] == "removeObj":
                mops.append({"op": "removeObj", "obj": op[1]})
                mgr.remove_obj(things[op[1]])
            else:
                mops.append({"op": "removeIid", "iid": op[1]})
                mgr.remove_iid(op[1])
        except Exception as ex:  # noqa: BLE001 - an exception out of pyhap is the script's outcome
            if not dbrig.from_pyhap(ex):
                raise
            raised = type(ex).__name__
            break
        if sc["policy"]:
            held = list(mgr.iids.values())
            dup = sorted({i for i in held if held.count(i) > 1})
            if dup:
                fails.append(("C17:custom-manager-duplicate-iid",
                              f"application manager (counter started at {sc['start']}, recorded {sc['recorded']}): after {op} the iid(s) {dup} "
                              f"are held by two objects each"))
                break
            for t2, i in mgr.iids.items():
                first = ever.setdefault(i, t2)
                if first is not t2:
                    fails.append(("C17:custom-manager-iid-reissued",
                                  f"application manager (counter started at {sc['start']}, recorded {sc['recorded']}): after {op} iid {i}, "
                                  f"once object #{num[id(first)]}'s, is handed to object #{num[id(t2)]}"))
                    break
            if any(mgr.objs.get(i) is not t2 for t2, i in mgr.iids.items()):
                fails.append(("C17:custom-manager-maps-inconsistent",
                              f"application manager: after {op} get_obj(get_iid(x)) is not x for some assigned object"))
            if fails:
                break
    if raised:
        obs = {"err": raised}
    else:
        obs = {"counter": mgr.counter, "iids": sorted([num[id(t)], i] for t, i in mgr.iids.items()),
               "objs": sorted([i, num[id(t)]] for i, t in mgr.objs.items())}
    mx = max([sc["start"] + len(sc["ops"]) + 2] + list(sc["recorded"].values()))
    line = {"layer": "db", "op": "c17m", "start": sc["start"], "objects": len(things), "maxIid": mx, "ops": mops}
    return line, obs, fails


def line_of(h: dict, model_subs=None, model_ops=None) -> dict:
    return {"layer": "db", "op": "c17", "bridge": h["bridge"], "mainAid": h.get("mainAid", 1), "main": h["main"],
            "ops": model_ops if model_ops is not None else h["ops"],
            "probes": h.get("probes") or [], "subs": model_subs or []}


def nontrivial(h: dict, results: List[dict]) -> bool:
    kinds = {o["op"] for o in h["ops"]}
    return bool(
        kinds & {"removeObj", "removeIid", "removeAccessory", "assign"}
        or any("err" in r for r in results)
        or any(r.get("ok", 0) is not None and o["op"] == "addAccessory" and o["aid"] is None and (r.get("ok") or 0) > 7 for o, r in zip(h["ops"], results))
    )


def minimise(h: dict, sig: str) -> dict:
    def still(ops):
        try:
            run, _ = replay_history({**h, "ops": ops})
        except Exception:  # noqa: BLE001 - an op list that no longer makes sense
            return False
        return any(s == sig for s, _ in run.fails)

    try:
        ops = delta_min(h["ops"], still, max_steps=120)
    except Exception:  # noqa: BLE001
        ops = h["ops"]
    h2 = {**h, "ops": ops}
    # a single probe that still shows it, if any
    for pr in h.get("probes") or []:
        try:
            run, _ = replay_history({**h2, "probes": [pr]})
        except Exception:  # noqa: BLE001
            continue
        if any(s == sig for s, _ in run.fails):
            return {**h2, "probes": [pr]}
    return h2


def judge(ctx: Ctx, run: Run):
    for sig, desc in run.fails:
        if any(f.signature == sig for f in ctx.failures):
            continue
        h = minimise(run.h, sig)
        ctx.fail(sig, desc, {"kind": "history", "h": h})


def run(ctx: Ctx):
    from pyhap.loader import Loader

    st = ctx.stats
    st.rule = (
        "a case is one construction history (top-level bridge or standalone accessory built from shipped services; "
        "add-service, add-accessory with explicit/automatic aid, remove-accessory, IIDManager assign/remove_obj/remove_iid) "
        "followed by GET /accessories and, for every listed characteristic pair, a GET, a PUT, a subscription and an event, "
        "then multi-id GET /characteristics requests (runs of ids per accessory, shuffled, repeated, unknown accessories "
        "interleaved, bridged accessories switched unavailable) judged per entry against the object the write/event paths reach, "
        "and a subscription scenario (one PUT subscribing several pairs, single-pair (un)subscribes by other connections, value "
        "changes on every pair: an event reaches exactly the connections that themselves subscribed to that pair). Services are "
        "shipped ones or hand-assembled with a type repeated inside one add_characteristic call / in a later call. "
        "25% of the histories give accessories an application IIDManager subclass (recorded + automatic iids). A second stream "
        "runs manager scripts (assign / remove_obj / remove_iid on one application manager, well-behaved or arbitrary) against "
        "the manager-level model. Non-trivial: the history contains a removal/re-assignment, a rejected operation, or an "
        "automatic aid beyond 7; distinct by the op list."
    )
    pool = dbrig.spec_pool(Loader())
    runs: List[Run] = []
    obs: List[dict] = []
    for h in boundary_histories(pool):
        try:
            r, o = replay_history(h, ctx)
        except ConstructionRaised as ex:
            ctx.disagree("c17-construction", h, "the top-level accessory is built", f"pyhap raised {ex}")
            continue
        runs.append(r)
        obs.append(o)
    n_random = ctx.n(450, 7000)
    n_big = ctx.n(120, 1500)
    for i in range(n_random + n_big):
        try:
            r = random_history(ctx, pool, big=i >= n_random)
        except ConstructionRaised as ex:
            ctx.disagree("c17-construction", {"random": i}, "the top-level accessory is built", f"pyhap raised {ex}")
            continue
        try:
            o = r.observe(ctx.rng)
        finally:
            r.rig.close()
        runs.append(r)
        obs.append(o)
    lines = [line_of(r.h, r.model_subs, r.model_ops) for r in runs]
    model = run_model_parallel("C17", lines)
    for r, o, m in zip(runs, obs, model):
        judge(ctx, r)
        st.traces_validated += 1
        st.case(r.h, nontrivial(r.h, r.results))
        for op, res in zip(r.h["ops"], r.results):
            st.hit("op", op["op"] + ("-auto" if op["op"] == "addAccessory" and op["aid"] is None else ""))
            if op["op"] == "poll":
                st.hit("outcome", "poll-ids", len(((res.get("poll") or {}).get("entries")) or []))
                continue
            st.hit("outcome", op["op"] + ":" + ("err-" + res["err"] if "err" in res else "ok"))
        st.hit("outcome", "listed-pairs", sum(1 for e in o.get("resolve", []) if "read" in e))
        if uses_custom(r.h):
            # application IIDManager subclasses: judged by the oracle on the real code; the database model has
            # stock managers only (the manager-level model with explicit iids is tied by the c17m stream)
            st.hit("outcome", "foreign-assign-history" if r.h.get("foreignAssign") else "custom-manager-history")
            continue
        if "fatal" in m:
            ctx.disagree("c17-history", r.h, m, "(model driver error)")
            continue
        mv = model_view(m, r.char_numbers(), None)
        if mv != o:
            key = next((k for k in ("results", "accessories", "managers", "resolve", "probes", "subs") if mv.get(k) != o.get(k)), "?")
            ctx.disagree("c17-history:" + key, r.h, _short(mv.get(key)), _short(o.get(key)))
    # manager scripts: the model with explicit iids (Iid.assignAt) against a real IIDManager subclass
    scripts = [gen_manager_script(ctx.rng) for _ in range(ctx.n(150, 2500))]
    ran = [run_manager_script(sc) for sc in scripts]
    mmodel = run_model_parallel("C17", [line for line, _, _ in ran])
    for sc, (line, ob, fails), mm in zip(scripts, ran, mmodel):
        st.traces_validated += 1
        st.case(["manager-script", sc], any(o[0] != "assign" for o in sc["ops"]))
        st.hit("outcome", "manager-script:" + ("policy" if sc["policy"] else "arbitrary") + (":KeyError" if "err" in ob else ""))
        for sig, desc in fails:
            if not any(f.signature == sig for f in ctx.failures):
                ctx.fail(sig, desc, {"kind": "manager-script", "script": sc})
        got = {"err": mm["err"]} if "err" in mm else {k: sorted(mm.get(k) or []) if k != "counter" else mm.get(k) for k in ("counter", "iids", "objs")}
        if "fatal" in mm or got != ob:
            ctx.disagree("c17-manager-script", sc, _short(mm), _short(ob))
    for i in sorted({0, min(5, len(runs) - 1), len(runs) - 1} if runs else set()):
        r, o = runs[i], obs[i]
        st.sample(
            {
                "history": {**r.h, "ops": r.h["ops"][:12]},
                "results": r.results[:12],
                "aids_listed": [a["aid"] for a in (o.get("accessories") or [])],
                "listed_pairs_probed": sum(1 for e in o.get("resolve", []) if "read" in e),
                "model_agrees": uses_custom(r.h) or ("fatal" not in model[i] and model_view(model[i], r.char_numbers(), None) == o),
            }
        )


def _short(x):
    s = json.dumps(x, default=str)
    return s if len(s) < 400 else s[:400] + f"...<{len(s)} chars>"


def search(ctx: Ctx):
    """Deeper oracle-only failing-input search on the real code."""
    from pyhap.loader import Loader

    pool = dbrig.spec_pool(Loader())
    for _ in range(2000):
        sc = gen_manager_script(ctx.rng)
        for sig, desc in run_manager_script(sc)[2]:
            if not any(f.signature == sig for f in ctx.failures):
                ctx.fail(sig, desc, {"kind": "manager-script", "script": sc})
    for i in range(1200):
        try:
            r = random_history(ctx, pool, big=i % 3 == 0)
        except ConstructionRaised:
            continue
        try:
            r.observe(ctx.rng)
        finally:
            r.rig.close()
        judge(ctx, r)
        if ctx.failures and i > 200:
            break


def replay(ctx: Ctx, r):
    if r.get("kind") == "manager-script":
        _, ob, fails = run_manager_script(r["script"])
        print("manager script:", json.dumps(r["script"])[:600])
        print("final state:", json.dumps(ob)[:400])
        for sig, desc in fails:
            print("FAILS:", sig, desc)
        print("verdict:", "property violated on this input" if fails else "holds on this input")
        return 1 if fails else 0
    h = r["h"]
    run_, obs = replay_history(h, ctx)
    print("history:", json.dumps(h)[:600])
    print("results:", run_.results)
    print("aids listed:", [a["aid"] for a in (obs.get("accessories") or [])])
    for sig, desc in run_.fails:
        print("FAILS:", sig, desc)
    print("verdict:", "property violated on this input" if run_.fails else "holds on this input")
    return 1 if run_.fails else 0
