"""C18 — Advertisement and setup payload track pairing state and configuration."""
from __future__ import annotations

import asyncio
import concurrent.futures
import contextlib
import io
import json
import logging
import os
from pathlib import Path
import shutil
import tempfile
import threading
import uuid
from types import SimpleNamespace
from typing import Any, Dict, List, Optional
from unittest.mock import patch

from common import REPO, Ctx, run_model_parallel
from ref import dnslabel, xhm as refxhm

PROP = "C18"
LEAN_MODULE = "Props.C18"
TRUSTED = [
    "Lean 4.33 kernel; axioms propext, Classical.choice, Quot.sound only (audited by #print axioms)",
    "hand-written models lean/HapModel/Advert.lean (config number, name sanitising incl. Python re.sub/strip/replace "
    "semantics on the three fixed patterns, TXT record incl. the setup hash, xhm_uri/base36), lean/HapModel/AdvertSys.lean "
    "(event model of _process_response / finish_pair / async_update_advertisement plus the application side "
    "config_changed / update_advertisement / unpair) and lean/HapModel/AdvertLife.lean (config number and persist file over "
    "any number of process lifetimes: add_accessory load-or-persist, async_start, config_changed, runtime restructuring), "
    "tied to the code by this differential run (whole TXT record of every refresh; live and persisted c# after every op)",
    "AccessoryDriver.unpair called by the application (not through a remove-pairing request) refreshes nothing: outside the "
    "request paths the property speaks of; modelled, tied, C18_sf_tracks_pairing excludes it and "
    "C18_sf_tracks_after_explicit_refresh says what restores the flag",
    "a restart compares with the configuration of the previous START: lifetimes in which the application restructured the "
    "running accessory are tied (model = code, C18_cfg_life_runtime_change_counted_twice) but not judged by the oracle",
    "the specification-side definitions of the theorems (ValidInstanceLabel, ValidHostLabel, xhmDecode) are run by the "
    "driver against harness/ref/dnslabel.py and harness/ref/xhm.py; MacTailOk / PinShape are evaluated on what "
    "util.generate_mac / generate_pincode produce",
    "to_HAP(include_value=False) modelled as a function of iid+metadata only; tied by checking that "
    "driver.accessories_hash is invariant under set_value/client_update_value on real accessories and that model "
    "rendering equality coincides with real hash equality on the generated restart pairs",
    "SHA-512 (accessories_hash, setup hash) as an arbitrary / injective function; zeroconf ServiceInfo, asyncio, h11 "
    "as libraries (asyncio: callbacks run to completion on the loop thread, call_soon_threadsafe is FIFO, no "
    "data_received after transport.close())",
    "M6 is never a delayed response: checked on the source (AST: only handle_resource assigns response.task) and by "
    "complete real pair-setup runs of the reference controller (harness/ref/pairsetup_client.py, srp_client.py)",
    "application subclasses of AccessoryDriver / Accessory / Bridge overriding the public hooks (pair, unpair, finish_pair, "
    "config_changed, update_advertisement, async_update_advertisement, async_persist, setup_message) in the call-super style "
    "with the documented return values are a dimension of the rig (event scripts, lives, restart pairs); same model, same oracle",
    "harness generators, harness/ref/dnslabel.py, harness/ref/xhm.py (independent oracles); a well-formed MAC "
    "(XX:XX:XX:XX:XX:XX); safe_mode is a parameter of the event model (ordering for both values, flag tracking for the "
    "default, C18_safe_mode_no_pairing_refresh for True) and scripts with safe_mode are tied but their staleness is not judged",
]

MAC = "AA:BB:CC:7A:8F:A9"
HAP_SUFFIX = "._hap._tcp.local."
LOCAL_SUFFIX = ".local."


# ----------------------------------------------------------------------------- imports of the code under check


def _mods():
    import pyhap.accessory as accessory
    import pyhap.accessory_driver as accessory_driver
    import pyhap.hap_handler as hap_handler
    import pyhap.hap_protocol as hap_protocol
    import pyhap.loader as loader
    import pyhap.state as state
    import pyhap.tlv as tlv

    for name in ("pyhap", "pyhap.accessory_driver", "pyhap.hap_handler", "pyhap.hap_protocol", "pyhap.accessory",
                 "pyhap.characteristic", "pyhap.hap_server", "pyhap.util"):
        logging.getLogger(name).disabled = True
    logging.getLogger("pyhap").setLevel(logging.CRITICAL + 1)
    return SimpleNamespace(
        accessory=accessory, accessory_driver=accessory_driver, hap_handler=hap_handler,
        hap_protocol=hap_protocol, loader=loader, state=state, tlv=tlv,
    )


_LOADER = None


def _loader(m):
    global _LOADER
    if _LOADER is None:
        _LOADER = m.loader.Loader()
    return _LOADER


def _cps(s: str) -> List[int]:
    return [ord(c) for c in s]


# ----------------------------------------------------------------------------- stream 1: names


ASCII_OK = "abcdefghijklmnopqrstuvwxyzABCDEFGHIJKLMNOPQRSTUVWXYZ0123456789"
PUNCT = "!\"#$%&'()*+,./:;<=>?@[\\]^_`{|}~"
WHITE = " \t\n\r\x0b\x0c\x1c\x1d\x1e\x1f\x85\u00a0\u1680\u2003\u2028\u2029\u202f\u3000"
NONASCII = ("\u00e4\u00f6\u00fc\u00c4\u00d6\u00dc\u00df\u00e9\u00e8\u00ea\u00f1\u00e7\u00f8\u00e5\u00c6\u0141\u017e\u015f\u011f\u0131"
            "\u03a9\u03c0\u03bb\u0414\u0416\u044f\u05e7\u05e9\u0623\u0628\u65e5\u672c\u8a9e\u706f\u5149\u96fb\u6c17\uc870\uba85"
            "\U0001f600\U0001f3e0\U0001f4a1\u0301\u200d\ufeff\U000103ff\U0010ffff\u0660\u0967\uff21\uff11\u2160\u00b2\ud800\udfff")

BOUNDARY_NAMES = [
    "!!!", "", "-", " ", "---", " - ", "- -", "a", "A-b", "1234", "0", "日本語", "Ünïcödé Lamp", "a\nb", "\t", "\ud800",
    "😀 lamp", "--h a p p y--", "--H A P P Y--", "- - H---A---P---P---Y - -", " x ", "\x1cx\x1f", "x" * 55,
    "x" * 56, "x" * 57, "x" * 62, "x" * 63, "x" * 64, "a" * 80, "y" * 200, "x" * 55 + "-y", "x" * 55 + " y",
    "x" * 54 + "--y", "x" * 54 + "  yz", "x" * 54 + "- -y", "-" * 60 + "x", " " * 60 + "x", "x" + "-" * 70,
    "x" + " " * 70 + "y", "!" * 100, "é" * 56, "é" * 57, "ab " * 30, "a-" * 40, "Living Room Lamp", "Bridge 2",
    "a" * 56 + "!", "!" + "a" * 56, " a" * 28, " a" * 29, "x" * 55 + "é", "x" * 56 + "é" * 10, "Test Accessory",
    "-a", "a-", " a", "a ", "a--b", "a  b", "a - b", "a -- b", "a-!-b", "Ab:cD", "_", "a_b", "a.b", "a b",
]


def gen_names(ctx: Ctx) -> List[str]:
    rng = ctx.rng
    names = list(BOUNDARY_NAMES)
    pools = [
        (ASCII_OK, 6), (" ", 2), ("-", 2), (PUNCT, 1), (WHITE, 1), (NONASCII, 2),
    ]
    for _ in range(ctx.n(2500, 40000)):
        mode = rng.random()
        if mode < 0.15:
            ln = rng.choice([1, 2, 3, 5, 8])
        elif mode < 0.55:
            ln = rng.randrange(1, 70)
        elif mode < 0.7:
            ln = rng.choice([54, 55, 56, 57, 58, 62, 63, 64, 65])
        else:
            ln = rng.randrange(1, 201)
        weights = [w * rng.choice([0, 1, 1, 3]) for _, w in pools]
        if not any(weights):
            weights[rng.randrange(len(weights))] = 1
        chars = []
        for _ in range(ln):
            pool = rng.choices(pools, weights=weights)[0][0]
            chars.append(rng.choice(pool))
        s = "".join(chars)
        if rng.random() < 0.25:
            s = rng.choice(["-", " ", "--", " -", "- ", "!", "é"]) + s
        if rng.random() < 0.25:
            s = s + rng.choice(["-", " ", "--", " -", "- ", "!", "é"])
        names.append(s[:200])
    # every name of length <= 4 (quick) / <= 6 (thorough) over a five-symbol alphabet that has one
    # member of each class the sanitisers distinguish
    import itertools

    sym = ["a", "-", " ", "!", "\u00e9"]
    for ln in range(1, (4 if ctx.quick else 6) + 1):
        for t in itertools.product(sym, repeat=ln):
            names.append("".join(t))
    # truncation boundary: a long valid prefix followed by every 3-symbol tail
    for k in ((53, 54, 55, 56) if ctx.quick else range(50, 60)):
        for t in itertools.product(sym, repeat=3):
            names.append("x" * k + "".join(t) + "z")
    return names


_STATES: Dict[str, Any] = {}


def _state_for(m, mac: str):
    st = _STATES.get(mac)
    if st is None or st.__class__ is not m.state.State:
        st = _STATES[mac] = m.state.State(address="127.0.0.1", mac=mac, pincode=b"031-45-154", port=51234)
    return st


def _mac_suffix(mac: str) -> str:
    """Last three octets without separators (independent of the slicing used by the code)."""
    return "".join(mac.split(":")[3:])


def gen_mac(rng) -> str:
    return ":".join(rng.choice("0123456789ABCDEFabcdef") + rng.choice("0123456789ABCDEFabcdef") for _ in range(6))


def impl_names(m, name: str, mac: str = MAC) -> Dict[str, Any]:
    acc = SimpleNamespace(display_name=name, category=1)
    st = _state_for(m, mac)
    try:
        info = m.accessory_driver.AccessoryMDNSServiceInfo(acc, st)
    except Exception as ex:  # noqa: BLE001
        return {"exc": type(ex).__name__, "msg": str(ex)[:60]}
    inst = dnslabel.first_label(info.name, HAP_SUFFIX)
    host = dnslabel.first_label(info.server, LOCAL_SUFFIX)
    md = info.decoded_properties.get("md")
    return {"inst": inst, "host": host, "vn": md}


def _canon_names_exc(a):
    """Model answer for a name on which the real ServiceInfo raised: zeroconf raises
    BadTypeInNameException exactly for an over-long instance label."""
    inst = a.get("inst") or ""
    return {"exc": "BadTypeInNameException"} if len(inst.encode()) > 63 else {k: a.get(k) for k in ("inst", "host", "vn")}


def oracle_names(ctx: Ctx, name: str, got: Dict[str, Any], mac: str = MAC):
    rep = {"kind": "name", "name": _cps(name), "mac": mac}
    shown = name if len(name) <= 24 else name[:24] + f"...({len(name)} chars)"
    if "exc" in got:
        if got["exc"] == "BadTypeInNameException" and "Too long" in got.get("msg", ""):
            sig = "C18:instance-label-too-long"
        else:
            sig = "C18:service-info-raises-" + got["exc"]
        ctx.fail(sig, f"display name {shown!r}: AccessoryMDNSServiceInfo raises {got['exc']} ({got.get('msg')})", rep)
        return
    if got["inst"] is None or got["host"] is None:
        ctx.fail("C18:service-name-shape", f"display name {shown!r}: name/server lack the service suffix", rep)
        return
    p = dnslabel.instance_label_problem(got["inst"])
    if p:
        ctx.fail(f"C18:instance-label-{p}", f"display name {shown!r} gives instance label {got['inst']!r}", rep)
    p = dnslabel.host_label_problem(got["host"])
    if p:
        ctx.fail(f"C18:host-label-{p}", f"display name {shown!r} gives host label {got['host']!r}", rep)
    # md is the sanitised name: the instance label is "<md> <mac suffix>"
    if got["vn"] is None or got["inst"] != f"{got['vn']} {_mac_suffix(mac)}":
        ctx.fail("C18:md-not-sanitised-name", f"display name {shown!r}: md={got['vn']!r} but label {got['inst']!r}", rep)


# ----------------------------------------------------------------------------- stream 2: TXT record


def impl_txt(m, case) -> Dict[str, Any]:
    acc = SimpleNamespace(display_name=case["name"], category=case["category"])
    st = m.state.State(address="127.0.0.1", mac=case["mac"], pincode=b"031-45-154", port=51234)
    st.setup_id = case["setup_id"]
    st.config_version = case["cfg"]
    for i in range(case["npaired"]):
        u = uuid.UUID(int=i + 1)
        st.add_paired_client(str(u).upper().encode(), bytes([i]) * 32, b"\x01" if i == 0 else b"\x00")
    info = m.accessory_driver.AccessoryMDNSServiceInfo(acc, st)
    props = dict(info.decoded_properties)
    return {"props": props, "mac": st.mac, "npaired": len(st.paired_clients), "cfg": st.config_version}


def oracle_txt(ctx: Ctx, case, got):
    props = got["props"]
    rep = {"kind": "txt", "case": case}
    want_sf = "1" if case["npaired"] == 0 else "0"
    if props.get("sf") != want_sf:
        ctx.fail("C18:sf-not-matching-pairing-state",
                 f"{case['npaired']} pairings but the record says sf={props.get('sf')!r}", rep)
    if props.get("id") != case["mac"]:
        ctx.fail("C18:id-not-mac", f"id={props.get('id')!r} for mac {case['mac']!r}", rep)
    if props.get("c#") != str(case["cfg"]):
        ctx.fail("C18:cfg-not-advertised", f"c#={props.get('c#')!r} for config_version {case['cfg']}", rep)
    if props.get("ci") != str(case["category"]):
        ctx.fail("C18:category-not-advertised", f"ci={props.get('ci')!r} for category {case['category']}", rep)


# ----------------------------------------------------------------------------- stream 3: config number


def gen_cfg_cases(ctx: Ctx):
    rng = ctx.rng
    cases = [
        {"cfg": 65535, "hash": "h0", "ops": [["set", "h1"]]},
        {"cfg": 65535, "hash": "h0", "ops": [["set", "h0"]]},
        {"cfg": 65535, "hash": None, "ops": [["incr"], ["incr"]]},
        {"cfg": 65534, "hash": None, "ops": [["set", "a"], ["set", "a"], ["set", "b"], ["incr"]]},
        {"cfg": 1, "hash": None, "ops": [["set", "a"]]},
        {"cfg": 1, "hash": "a", "ops": [["set", "a"], ["set", "a"]]},
    ]
    for _ in range(ctx.n(1000, 20000)):
        start = rng.choice([1, 2, 255, 256, 65533, 65534, 65535, rng.randrange(1, 65536)])
        h = rng.choice([None, "h0", "h1", "h2"])
        ops = []
        for _ in range(rng.randrange(1, 8)):
            ops.append(["incr"] if rng.random() < 0.3 else ["set", rng.choice(["h0", "h1", "h2", "h3"])])
        cases.append({"cfg": start, "hash": h, "ops": ops})
    return cases


def impl_cfg(m, case):
    st = m.state.State(address="127.0.0.1", mac=MAC, pincode=b"031-45-154", port=51234)
    st.config_version = case["cfg"]
    st.accessories_hash = case["hash"]
    out = []
    for op in case["ops"]:
        if op[0] == "incr":
            st.increment_config_version()
            out.append([st.config_version, None])
        else:
            r = st.set_accessories_hash(op[1])
            out.append([st.config_version, r])
    return {"ok": out, "cfg": st.config_version, "hash": st.accessories_hash}


def oracle_cfg(ctx: Ctx, case, got):
    rep = {"kind": "cfg", "case": case}
    cur, h = case["cfg"], case["hash"]
    for op, (c, _r) in zip(case["ops"], got["ok"]):
        if not (isinstance(c, int) and 1 <= c <= 65535):
            ctx.fail("C18:config-number-out-of-range", f"config number {cur} became {c} after {op}", rep)
            return
        if op[0] == "set":
            should_change = h != op[1]
            if (c != cur) != should_change:
                ctx.fail("C18:config-number-change-mismatch",
                         f"stored hash {h!r}, new hash {op[1]!r}: config number {cur} -> {c}", rep)
                return
            h = op[1]
        elif c == cur:
            ctx.fail("C18:config-number-not-incremented", f"increment left the config number at {c}", rep)
            return
        cur = c


# ----------------------------------------------------------------------------- stream 4: restart pairs (real async_start)


SERVICES = {
    "Lightbulb": {"opt": ["Brightness", "Hue", "Name"], "vals": {"On": [True, False], "Brightness": [0, 37, 100], "Hue": [0.0, 120.5], "Name": ["a", "lamp"]}},
    "Switch": {"opt": ["Name"], "vals": {"On": [True, False], "Name": ["s", "switch 2"]}},
    "TemperatureSensor": {"opt": ["StatusActive"], "vals": {"CurrentTemperature": [0.0, 21.5, 99.9], "StatusActive": [True, False]}},
    "Outlet": {"opt": [], "vals": {"On": [True, False], "OutletInUse": [True, False]}},
    "Fan": {"opt": ["RotationSpeed"], "vals": {"On": [True, False], "RotationSpeed": [0, 50, 100]}},
}
META_OVERRIDES = {
    "Brightness": [{"minValue": 10}, {"maxValue": 90}, {"minStep": 5}],
    "Hue": [{"maxValue": 300}, {"minStep": 2}],
    "CurrentTemperature": [{"minValue": -50}, {"maxValue": 150}],
    "RotationSpeed": [{"minStep": 10}, {"maxValue": 50}],
}


def gen_config(rng) -> Dict[str, Any]:
    bridge = rng.random() < 0.5
    accs = []
    for i in range(rng.randrange(1, 4) if bridge else 1):
        svcs = []
        for _ in range(rng.randrange(1, 4)):
            t = rng.choice(list(SERVICES))
            opt = [c for c in SERVICES[t]["opt"] if rng.random() < 0.5]
            vals = {}
            for c, choices in SERVICES[t]["vals"].items():
                if c in opt or c not in SERVICES[t]["opt"]:
                    if rng.random() < 0.7:
                        vals[c] = rng.choice(choices)
            svcs.append({"type": t, "opt": opt, "vals": vals, "meta": {}, "desc": {}})
        accs.append({"name": f"Acc {i}", "aid": i + 2 if bridge else 1, "services": svcs})
    return {"bridge": bridge, "accs": accs}


def mutate_config(rng, cfg: Dict[str, Any]):
    """Return (kind, new config, structure_or_metadata_changed)."""
    new = json.loads(json.dumps(cfg))
    kinds = ["identical", "values", "values", "rename-accessory", "add-service", "remove-service", "add-char", "metadata",
             "char-description", "set-primary", "link-service"]
    if cfg["bridge"]:
        kinds += ["add-accessory", "remove-accessory"]
    rng.shuffle(kinds)
    for kind in kinds:
        acc = rng.choice(new["accs"])
        svc = rng.choice(acc["services"])
        if kind == "identical":
            return kind, new, False
        if kind == "values":
            changed = False
            for a in new["accs"]:
                for s in a["services"]:
                    for c, choices in SERVICES[s["type"]]["vals"].items():
                        if c in s["opt"] or c not in SERVICES[s["type"]]["opt"]:
                            nv = rng.choice(choices)
                            if s["vals"].get(c) != nv:
                                s["vals"][c] = nv
                                changed = True
            if changed:
                return kind, new, False
        if kind == "rename-accessory":
            acc["name"] = acc["name"] + " renamed"  # the name lives in the *value* of the Name characteristic
            return kind, new, False
        if kind == "add-service":
            t = rng.choice(list(SERVICES))
            acc["services"].append({"type": t, "opt": [], "vals": {}, "meta": {}, "desc": {}})
            return kind, new, True
        if kind == "remove-service" and len(acc["services"]) > 1:
            acc["services"].pop(rng.randrange(len(acc["services"])))
            return kind, new, True
        if kind == "add-char":
            missing = [c for c in SERVICES[svc["type"]]["opt"] if c not in svc["opt"]]
            if missing:
                svc["opt"].append(rng.choice(missing))
                return kind, new, True
        if kind == "metadata":
            cands = [c for c in META_OVERRIDES if (c in svc["opt"] or c in SERVICES[svc["type"]]["vals"] and c not in SERVICES[svc["type"]]["opt"]) and c not in svc["meta"]]
            if cands:
                c = rng.choice(cands)
                svc["meta"][c] = rng.choice(META_OVERRIDES[c])
                svc["vals"].pop(c, None)
                return kind, new, True
        if kind == "char-description":
            if "On" in SERVICES[svc["type"]]["vals"] and "On" not in svc["desc"]:
                svc["desc"]["On"] = "Power " + str(rng.randrange(100))
                return kind, new, True
        if kind == "set-primary" and svc.get("primary") is None:
            svc["primary"] = rng.choice([True, False])  # absent -> stated (also "primary": false is metadata)
            return kind, new, True
        if kind == "link-service" and len(acc["services"]) > 1 and svc.get("linked") is None:
            others = [i for i, x in enumerate(acc["services"]) if x is not svc]
            svc["linked"] = rng.choice(others)
            return kind, new, True
        if kind == "add-accessory":
            new["accs"].append({"name": "Extra", "aid": max(a["aid"] for a in new["accs"]) + 1,
                                "services": [{"type": "Switch", "opt": [], "vals": {}, "meta": {}, "desc": {}}]})
            return kind, new, True
        if kind == "remove-accessory" and len(new["accs"]) > 1:
            new["accs"].pop()
            return kind, new, True
    return "identical", json.loads(json.dumps(cfg)), False


def build_accessories(m, driver, cfg, app="stock"):
    """Real pyhap objects for a config descriptor; returns (root accessory, all leaf accessories)."""
    A = m.accessory
    _drv_cls, acc_cls, bridge_cls = app_classes(m, app)
    leaves = []
    for a in cfg["accs"]:
        acc = acc_cls(driver, a["name"], aid=a["aid"])
        built = []
        for s in a["services"]:
            svc = acc.add_preload_service(s["type"], chars=list(s["opt"]))
            built.append(svc)
            for c, ov in s["meta"].items():
                svc.get_characteristic(c).override_properties(properties=dict(ov))
            for c, v in s["vals"].items():
                svc.get_characteristic(c).set_value(v)
            for c, d in s["desc"].items():  # last: characteristics are looked up by display name
                svc.get_characteristic(c).display_name = d
            if s.get("primary") is not None:
                svc.is_primary_service = s["primary"]
        for s, svc in zip(a["services"], built):
            if s.get("linked") is not None and s["linked"] < len(built) and built[s["linked"]] is not svc:
                svc.add_linked_service(built[s["linked"]])
        leaves.append(acc)
    if cfg["bridge"]:
        root = bridge_cls(driver, "Bridge")
        for acc in leaves:
            root.add_accessory(acc)
    else:
        root = leaves[0]
    return root, leaves


def abstract_db(root) -> List[Dict[str, Any]]:
    """What Advert.renderNoVal sees: ids plus metadata strings read from the public attributes
    (not from to_HAP), values separately."""
    accs = list(root.accessories.values()) if hasattr(root, "accessories") else []
    out = []
    for acc in [root] + accs:
        svcs = []
        for s in acc.services:
            chars = []
            for ch in s.characteristics:
                props = {k: (sorted(v.values()) if isinstance(v, dict) else v) for k, v in ch.properties.items()}
                meta = json.dumps([str(ch.type_id), ch.display_name, props], sort_keys=True, default=str)
                chars.append({"iid": acc.iid_manager.get_iid(ch), "meta": meta, "value": json.dumps(ch.value, default=str)})
            smeta = json.dumps([str(s.type_id), s.is_primary_service,
                                [[str(x.type_id), acc.iid_manager.get_iid(x)] for x in s.linked_services]])
            svcs.append({"iid": acc.iid_manager.get_iid(s), "meta": smeta, "chars": chars})
        out.append({"aid": acc.aid, "services": svcs})
    return out


class RecAdvertiser:
    """Stands in for AsyncZeroconf: records the ServiceInfo objects it is given."""

    def __init__(self, events, state):
        self.events = events
        self.state = state

    def _rec(self, what, info):
        props = dict(info.decoded_properties)
        self.events.append({"ev": what, "sf": props.get("sf"), "c#": props.get("c#"), "id": props.get("id"),
                            "props": props,
                            "npaired": len(self.state.paired_clients), "cfg": self.state.config_version})

    def async_register_service(self, info, **_kw):
        self._rec("register", info)
        return _done()

    def async_update_service(self, info):
        self._rec("publish", info)
        return _done()

    def async_unregister_service(self, info):
        return _done()

    def async_close(self):
        return _done()


async def _done():
    return None


class CtlExecutor(concurrent.futures.ThreadPoolExecutor):
    """Default executor under harness control: `finish_pair` jobs wait until the script runs
    them (on a real worker thread); everything else (persist) runs at once."""

    def __init__(self):
        super().__init__(max_workers=1)
        self.pending = []

    def submit(self, fn, /, *args, **kwargs):
        f: concurrent.futures.Future = concurrent.futures.Future()
        if getattr(fn, "__name__", "") == "finish_pair":
            self.pending.append((f, fn, args, kwargs))
        else:
            _complete(f, fn, args, kwargs)
        return f

    def run_one(self, i: int) -> bool:
        if i >= len(self.pending):
            return False
        f, fn, args, kwargs = self.pending.pop(i)
        t = threading.Thread(target=_complete, args=(f, fn, args, kwargs))
        t.start()
        t.join()
        return True


def _complete(f, fn, args, kwargs):
    try:
        f.set_result(fn(*args, **kwargs))
    except BaseException as ex:  # noqa: BLE001
        f.set_exception(ex)


def spin(loop):
    """One iteration of the event loop: everything that is ready now runs, in FIFO order."""
    loop.call_soon(loop.stop)
    loop.run_forever()


# ----------------------------------------------------------------------------- application subclasses (rig dimension)
#
# Integrations subclass AccessoryDriver / Accessory and override the public hook methods in the usual style:
# call super(), do their own bookkeeping, and return what the method is DOCUMENTED to return (pair: the bool of
# super(); unpair, finish_pair, config_changed, update_advertisement, setup_message: nothing).  Such a subclass
# behaves like the stock class in every observable C18 speaks about, so every stream that runs pairing histories
# or starts is also run with it; model and oracle are the same as for the stock class.

APP_FLAVOURS = ["stock", "pairing-hooks", "all-hooks"]
_APP_CLASSES: Dict[Any, Any] = {}


def app_classes(m, flavour: str):
    """(driver class, accessory class, bridge class) of an application of the given flavour."""
    key = (id(m.accessory_driver), flavour)
    if key in _APP_CLASSES:
        return _APP_CLASSES[key]
    AD, A = m.accessory_driver.AccessoryDriver, m.accessory
    if flavour == "stock":
        classes = (AD, A.Accessory, A.Bridge)
    else:
        class AppDriver(AD):
            """pair / unpair hooks as an integration writes them (notifications, bookkeeping)"""

            def __init__(self, **kwargs):
                super().__init__(**kwargs)
                self.app_log: List[str] = []

            def pair(self, client_username_bytes, client_public, client_permissions):
                ok = super().pair(client_username_bytes, client_public, client_permissions)
                self.app_log.append("paired" if ok else "pair refused")
                return ok

            def unpair(self, client_uuid):  # documented without a return value
                super().unpair(client_uuid)
                if not self.state.paired:
                    self.app_log.append("show setup code")

        if flavour == "all-hooks":
            class AppDriver(AppDriver):  # type: ignore[no-redef]
                def finish_pair(self):
                    super().finish_pair()
                    self.app_log.append("finish_pair")

                def config_changed(self):
                    super().config_changed()
                    self.app_log.append("config_changed")

                def update_advertisement(self):
                    super().update_advertisement()
                    self.app_log.append("update_advertisement")

                def async_update_advertisement(self):
                    super().async_update_advertisement()
                    self.app_log.append("async_update_advertisement")

                def async_persist(self):
                    super().async_persist()
                    self.app_log.append("async_persist")

        class AppAccessory(A.Accessory):
            def setup_message(self):
                super().setup_message()
                self.driver.app_log.append("setup_message")

            async def run(self):
                await super().run()

        class AppBridge(A.Bridge):
            def setup_message(self):
                super().setup_message()
                self.driver.app_log.append("setup_message")

        classes = (AppDriver, AppAccessory, AppBridge)
    _APP_CLASSES[key] = classes
    return classes


@contextlib.contextmanager
def real_driver(m, persist_file=None, patch_persist=True, app="stock"):
    """A real AccessoryDriver (or an application subclass of it, see `app_classes`) on a private loop with a
    recording advertiser and a controlled executor."""
    loop = asyncio.new_event_loop()
    asyncio.set_event_loop(loop)
    ex = CtlExecutor()
    loop.set_default_executor(ex)
    events: List[Dict[str, Any]] = []
    stack = contextlib.ExitStack()
    stack.enter_context(patch("pyhap.accessory_driver.HAPServer.async_start", new=_async_noop))
    stack.enter_context(patch("pyhap.accessory_driver.HAPServer.async_stop", new=_async_noop))
    if patch_persist:
        stack.enter_context(patch("pyhap.accessory_driver.AccessoryDriver.persist", new=lambda self: None))
    try:
        driver = app_classes(m, app)[0](
            loop=loop, address="127.0.0.1", mac=MAC, pincode=b"031-45-154", port=51234,
            persist_file=persist_file or "/nonexistent/c18.state", loader=_loader(m),
        )
        driver.advertiser = RecAdvertiser(events, driver.state)
        yield SimpleNamespace(driver=driver, loop=loop, ex=ex, events=events, app=app)
    finally:
        stack.close()
        try:
            spin(loop)
        except Exception:  # noqa: BLE001
            pass
        ex.shutdown(wait=True)
        asyncio.set_event_loop(None)
        loop.close()


async def _async_noop(*_a, **_k):
    return None


def start_driver(env):
    """Real AccessoryDriver.async_start (mDNS + HTTP server replaced), QR code output swallowed.
    Returns the setup payload the start printed for the user to scan (None if it printed none)."""
    buf = io.StringIO()
    with contextlib.redirect_stdout(buf):
        env.loop.run_until_complete(env.driver.async_start())
        spin(env.loop)
    for line in buf.getvalue().splitlines():
        if line.startswith("Setup payload: "):
            return line[len("Setup payload: "):].strip()
    return None


def impl_restart(m, case) -> Dict[str, Any]:
    """First start with config A, persist, 'restart' with config B through the real persist/load."""
    tmp = tempfile.mkdtemp(prefix="c18-restart-")
    pf = os.path.join(tmp, "accessory.state")
    try:
        app = case.get("app", "stock")
        with real_driver(m, pf, patch_persist=False, app=app) as env:
            if case.get("cfg0") is not None:
                env.driver.state.config_version = case["cfg0"]
            root, _ = build_accessories(m, env.driver, case["a"], app)
            env.driver.add_accessory(root)
            start_driver(env)
            c1, h1 = env.driver.state.config_version, env.driver.state.accessories_hash
            adv1 = env.events[0]["c#"] if env.events else None
            db1 = abstract_db(root)
            env.driver.persist()
        with real_driver(m, pf, patch_persist=False, app=app) as env:
            env.driver.load()
            loaded = env.driver.state.config_version
            root, _ = build_accessories(m, env.driver, case["b"], app)
            env.driver.add_accessory(root)
            start_driver(env)
            c2, h2 = env.driver.state.config_version, env.driver.state.accessories_hash
            adv2 = env.events[0]["c#"] if env.events else None
            db2 = abstract_db(root)
    finally:
        shutil.rmtree(tmp, ignore_errors=True)
    return {"c1": c1, "h1": h1, "adv1": adv1, "loaded": loaded, "c2": c2, "h2": h2, "adv2": adv2, "db1": db1, "db2": db2}


def oracle_restart(ctx: Ctx, case, got):
    rep = {"kind": "restart", "case": case}
    for c in (got["c1"], got["c2"]):
        if not (isinstance(c, int) and 1 <= c <= 65535):
            ctx.fail("C18:config-number-out-of-range", f"config number {c} after a start", rep)
            return
    if got["adv1"] != str(got["c1"]) or got["adv2"] != str(got["c2"]):
        ctx.fail("C18:cfg-not-advertised", f"registered c#={got['adv1']!r}/{got['adv2']!r}, state {got['c1']}/{got['c2']}", rep)
    changed = got["c2"] != got["c1"]
    if changed and not case["changed"]:
        sig = "C18:config-number-moved-by-values" if case["kind"] in ("values", "rename-accessory") else "C18:config-number-moved-without-change"
        ctx.fail(sig, f"restart with {case['kind']}: config number {got['c1']} -> {got['c2']}", rep)
    if not changed and case["changed"]:
        ctx.fail("C18:config-number-not-moved", f"restart with {case['kind']}: config number stayed {got['c1']}", rep)


# ----------------------------------------------------------------------------- stream 4b: restarts in NEW processes


def child_restart(persist_file: str, cfg: Dict[str, Any]) -> Dict[str, Any]:
    """(runs in the child, harness/c18_child.py) one start of the accessory on the shared persist file"""
    m = _mods()
    with real_driver(m, persist_file, patch_persist=False) as env:
        loaded = None
        if os.path.exists(persist_file):
            env.driver.load()
            loaded = env.driver.state.config_version
        root, _ = build_accessories(m, env.driver, cfg)
        env.driver.add_accessory(root)
        start_driver(env)
        out = {"loaded": loaded, "c": env.driver.state.config_version, "h": env.driver.state.accessories_hash,
               "adv": env.events[0]["c#"] if env.events else None, "hashseed": os.environ.get("PYTHONHASHSEED"),
               "pyhap": os.path.dirname(os.path.realpath(m.accessory_driver.__file__))}
        env.driver.persist()
    return out


# str hash seeds under which a set of the four numeric property names iterates in pairwise different orders
HASH_SEEDS = ["1", "2", "3", "5", "6"]


def gen_xrestart_chain(rng) -> Dict[str, Any]:
    """A life of one accessory over several interpreter starts: unchanged restarts (values may differ),
    one structural or metadata change, unchanged again."""
    base = {"bridge": False, "accs": [{"name": "Lamp", "aid": 1, "services": [
        {"type": "Lightbulb", "opt": ["Brightness", "Hue"], "vals": {"On": True, "Brightness": 37}, "meta": {}, "desc": {}},
        {"type": "TemperatureSensor", "opt": [], "vals": {"CurrentTemperature": 21.5}, "meta": {}, "desc": {}},
        {"type": "Fan", "opt": ["RotationSpeed"], "vals": {"RotationSpeed": 50}, "meta": {}, "desc": {}},
    ]}]}
    seeds = list(HASH_SEEDS)
    rng.shuffle(seeds)
    runs = []
    cur = base
    n_before = rng.choice([2, 3])
    for k in range(n_before + 1):
        cfg = json.loads(json.dumps(cur))
        if k and rng.random() < 0.6:  # only values differ
            cfg["accs"][0]["services"][0]["vals"]["Brightness"] = rng.choice([0, 50, 100])
            cfg["accs"][0]["services"][0]["vals"]["On"] = rng.random() < 0.5
        runs.append({"seed": seeds[k % len(seeds)], "cfg": cfg, "expect": "first" if k == 0 else "same"})
    changed = json.loads(json.dumps(cur))
    kind = rng.choice(["add-service", "metadata", "add-char"])
    if kind == "add-service":
        changed["accs"][0]["services"].append({"type": "Switch", "opt": [], "vals": {}, "meta": {}, "desc": {}})
    elif kind == "metadata":
        changed["accs"][0]["services"][0]["meta"]["Brightness"] = {"minValue": 10}
        changed["accs"][0]["services"][0]["vals"].pop("Brightness", None)
    else:
        changed["accs"][0]["services"][1]["opt"].append("StatusActive")
    runs.append({"seed": seeds[(n_before + 1) % len(seeds)], "cfg": changed, "expect": "moved", "change": kind})
    runs.append({"seed": seeds[(n_before + 2) % len(seeds)], "cfg": changed, "expect": "same"})
    return {"cfg0": rng.choice([None, 65535, 65534, 7]), "runs": runs}


def impl_xrestart(chain) -> Dict[str, Any]:
    """Each run in a fresh interpreter with its own PYTHONHASHSEED, sharing one persist file."""
    import subprocess
    import sys

    child = str(Path(__file__).resolve().parent.parent / "c18_child.py")
    tmp = tempfile.mkdtemp(prefix="c18-xrestart-")
    pf = os.path.join(tmp, "accessory.state")
    outs = []
    try:
        if chain.get("cfg0") is not None:
            # a previous life left this configuration number (and no hash) behind
            m = _mods()
            with real_driver(m, pf, patch_persist=False) as env:
                env.driver.state.config_version = chain["cfg0"]
                env.driver.persist()
        for r in chain["runs"]:
            env_vars = dict(os.environ, PYTHONHASHSEED=r["seed"])
            p = subprocess.run([sys.executable, child, pf, json.dumps(r["cfg"])], env=env_vars, capture_output=True,
                               text=True, timeout=120)
            line = next((l for l in reversed(p.stdout.splitlines()) if l.startswith("{")), None)
            if p.returncode != 0 or line is None:
                raise RuntimeError(f"c18_child failed: rc={p.returncode} {p.stderr[-400:]}")
            outs.append(json.loads(line))
    finally:
        shutil.rmtree(tmp, ignore_errors=True)
    return {"outs": outs}


def oracle_xrestart(ctx: Ctx, chain, got):
    rep = {"kind": "xrestart", "chain": chain}
    prev = None
    for r, o in zip(chain["runs"], got["outs"]):
        c = o["c"]
        if not (isinstance(c, int) and 1 <= c <= 65535):
            ctx.fail("C18:config-number-out-of-range", f"config number {c} after a start in a new process", rep)
            return
        if o["adv"] != str(c):
            ctx.fail("C18:cfg-not-advertised", f"registered c#={o['adv']!r}, state {c}", rep)
            return
        if r["expect"] == "same" and c != prev:
            ctx.fail("C18:config-number-moved-without-change:across-processes",
                     f"restart of an unchanged accessory in a new interpreter (PYTHONHASHSEED={r['seed']}): "
                     f"config number {prev} -> {c}", rep)
            return
        if r["expect"] == "moved" and c == prev:
            ctx.fail("C18:config-number-not-moved:across-processes",
                     f"restart with {r.get('change')} in a new interpreter: config number stayed {c}", rep)
            return
        prev = c


# ----------------------------------------------------------------------------- stream 4c: whole lives (restarts + runtime changes)


def _strip_values(cfg: Dict[str, Any]):
    """Structure and metadata of a config descriptor (what a restart may react to): no values, no names."""
    return [cfg["bridge"], [[a["aid"], [[s["type"], list(s["opt"]), s["meta"], s["desc"], s.get("primary"), s.get("linked")]
                                        for s in a["services"]]]
                            for a in cfg["accs"]]]


def gen_life(rng) -> Dict[str, Any]:
    """One accessory over 2..4 process lifetimes on one persist file; inside a lifetime: value changes,
    config_changed(), saves, and structural changes made on the running objects."""
    cur = gen_config(rng)
    procs = []
    for k in range(rng.choice([2, 3, 3, 4])):
        kind = "first"
        if k:
            kind, cur, _changed = mutate_config(rng, cur)
        ops = []
        for _ in range(rng.choice([0, 1, 2, 3, 5])):
            r = rng.random()
            if r < 0.4:
                t = rng.choice([s["type"] for a in cur["accs"] for s in a["services"]])
                cname = rng.choice(list(SERVICES[t]["vals"]))
                ops.append(["value", rng.randrange(4), rng.randrange(4), cname, rng.choice(SERVICES[t]["vals"][cname])])
            elif r < 0.62:
                ops.append(["configChanged"])
            elif r < 0.75:
                ops.append(["persist"])
            else:
                ops.append(["mutate", rng.choice(["add-service", "override", "add-accessory"]), rng.randrange(1000)])
        procs.append({"kind": kind, "cfg": json.loads(json.dumps(cur)), "ops": ops})
    return {"cfg0": rng.choice([None, None, 65535, 65534, 65533, rng.randrange(1, 65536)]), "procs": procs,
            "app": rng.choice(["stock", "stock", "all-hooks", "pairing-hooks"])}


def boundary_lives() -> List[Dict[str, Any]]:
    lamp = {"type": "Lightbulb", "opt": ["Brightness"], "vals": {"On": True}, "meta": {}, "desc": {}}
    fan = {"type": sorted(SERVICES)[0], "opt": [], "vals": {}, "meta": {}, "desc": {}}
    a = {"bridge": False, "accs": [{"name": "Lamp", "aid": 1, "services": [lamp]}]}
    b = {"bridge": False, "accs": [{"name": "Lamp", "aid": 1, "services": [lamp, fan]}]}
    return [
        # a service is added to the RUNNING accessory and announced with config_changed(); the next process is
        # started with exactly that configuration: the restart compares with the configuration of the previous
        # start and counts the change a second time (Props: C18_cfg_life_runtime_change_counted_twice)
        {"cfg0": None, "procs": [{"kind": "first", "cfg": a, "ops": [["mutate", "add-service", 0], ["configChanged"]]},
                                 {"kind": "add-service", "cfg": b, "ops": []}]},
        # the same at the wrap: 65534 -> 65535 (start) -> 1 (config_changed) -> 2 (restart)
        {"cfg0": 65534, "procs": [{"kind": "first", "cfg": a, "ops": [["mutate", "add-service", 0], ["configChanged"], ["persist"]]},
                                  {"kind": "add-service", "cfg": b, "ops": [["value", 0, 1, "On", False]]},
                                  {"kind": "identical", "cfg": b, "ops": []}]},
        # value changes, saves and config_changed() calls only: every restart keeps the number
        {"cfg0": 65535, "procs": [{"kind": "first", "cfg": b, "ops": [["value", 0, 1, "On", False], ["persist"], ["configChanged"]]},
                                  {"kind": "values", "cfg": b, "ops": [["configChanged"], ["configChanged"]]},
                                  {"kind": "identical", "cfg": b, "ops": []}]},
    ]


def _life_obs(env, pf):
    with open(pf, "r", encoding="utf8") as fh:
        disk = json.load(fh)
    st = env.driver.state
    return {"cfg": st.config_version, "disk_cfg": disk.get("config_version"),
            "disk_synced": disk.get("accessories_hash") == st.accessories_hash,
            "hash_is_live": st.accessories_hash == env.driver.accessories_hash}


def _live_mutation(m, env, root, leaves, kind: str, k: int) -> bool:
    """A structural / metadata change on the running accessory objects; False if not applicable."""
    acc = leaves[k % len(leaves)]
    if kind == "add-service":
        acc.add_preload_service(sorted(SERVICES)[k % len(SERVICES)])
        return True
    if kind == "override":
        for s in acc.services:
            for ch in s.characteristics:
                ovs = META_OVERRIDES.get(ch.display_name)
                if ovs:
                    ch.override_properties(properties=dict(ovs[k % len(ovs)]))
                    return True
        return False
    if kind == "add-accessory" and hasattr(root, "accessories") and root is not acc:
        extra = m.accessory.Accessory(env.driver, "Extra %d" % k, aid=max(root.accessories) + 1)
        extra.add_preload_service("Switch")
        root.add_accessory(extra)
        leaves.append(extra)
        return True
    return False


def impl_life(m, life) -> Dict[str, Any]:
    tmp = tempfile.mkdtemp(prefix="c18-life-")
    pf = os.path.join(tmp, "accessory.state")
    obs: List[Dict[str, Any]] = []
    model_ops: List[Any] = []
    starts = []
    try:
        if life.get("cfg0") is not None:
            # an earlier life left this configuration number (and no hash) behind
            with real_driver(m, pf, patch_persist=False) as env:
                env.driver.state.config_version = life["cfg0"]
                env.driver.persist()
        app = life.get("app", "stock")
        for proc in life["procs"]:
            with real_driver(m, pf, patch_persist=False, app=app) as env:
                root, leaves = build_accessories(m, env.driver, proc["cfg"], app)
                env.driver.add_accessory(root)  # loads the file, or writes the fresh state
                start_driver(env)
                reg = env.events[0] if env.events else None
                starts.append({"c": env.driver.state.config_version, "adv": reg["c#"] if reg else None,
                               "id": reg["id"] if reg else None, "mutated_live": False, "stop_c": None})
                model_ops.append(["restart", abstract_db(root)])
                obs.append(_life_obs(env, pf))
                for op in proc["ops"]:
                    if op[0] == "value":
                        acc = leaves[op[1] % len(leaves)]
                        svcs = [s for s in acc.services if s.display_name != "AccessoryInformation"]
                        svc = svcs[op[2] % len(svcs)]
                        ch = next((c for c in svc.characteristics if c.display_name == op[3]), None)
                        if ch is None:
                            continue
                        try:
                            ch.set_value(op[4])
                        except ValueError:
                            continue
                        model_ops.append(["value", acc.aid, acc.iid_manager.get_iid(ch), json.dumps(ch.value, default=str)])
                    elif op[0] == "configChanged":
                        env.driver.config_changed()
                        spin(env.loop)
                        model_ops.append(["configChanged"])
                    elif op[0] == "persist":
                        env.driver.persist()
                        model_ops.append(["persist"])
                    else:
                        if not _live_mutation(m, env, root, leaves, op[1], op[2]):
                            continue
                        starts[-1]["mutated_live"] = True
                        model_ops.append(["mutate", abstract_db(root)])
                    obs.append(_life_obs(env, pf))
                starts[-1]["stop_c"] = env.driver.state.config_version
    finally:
        shutil.rmtree(tmp, ignore_errors=True)
    return {"obs": obs, "model_ops": model_ops, "starts": starts}


def oracle_life(ctx: Ctx, life, got):
    rep = {"kind": "life", "life": life}
    for o in got["obs"]:
        for c in (o["cfg"], o["disk_cfg"]):
            if not (isinstance(c, int) and not isinstance(c, bool) and 1 <= c <= 65535):
                ctx.fail("C18:config-number-out-of-range", f"configuration number {c} (live {o['cfg']}, file {o['disk_cfg']})", rep)
                return
    for s in got["starts"]:
        if s["adv"] != str(s["c"]):
            ctx.fail("C18:cfg-not-advertised", f"registered c#={s['adv']!r}, state {s['c']}", rep)
            return
        if s["id"] != MAC:
            ctx.fail("C18:id-not-mac", f"registered id {s['id']!r}", rep)
            return
    # across each restart: the number the process stopped with against the one the next process starts with
    # moves exactly when structure or metadata differ between the two configurations.  A lifetime in which the
    # application restructured the *running* accessory is not judged (the property speaks of pairs of
    # configurations across a restart; there the restart compares with the configuration of the previous start).
    for k in range(1, len(got["starts"])):
        prev, cur = got["starts"][k - 1], got["starts"][k]
        if prev["mutated_live"]:
            continue
        should_move = _strip_values(life["procs"][k]["cfg"]) != _strip_values(life["procs"][k - 1]["cfg"])
        moved = cur["c"] != prev["stop_c"]
        kind = life["procs"][k]["kind"]
        if moved and not should_move:
            sig = "C18:config-number-moved-by-values" if kind in ("values", "rename-accessory") else "C18:config-number-moved-without-change"
            ctx.fail(sig, f"restart {k} ({kind}) of a life: config number {prev['stop_c']} -> {cur['c']}", rep)
            return
        if should_move and not moved:
            ctx.fail("C18:config-number-not-moved", f"restart {k} ({kind}) of a life: config number stayed {cur['c']}", rep)
            return


# ----------------------------------------------------------------------------- stream 5: values never move the hash


def impl_values(m, case) -> Dict[str, Any]:
    with real_driver(m) as env:
        root, leaves = build_accessories(m, env.driver, case["cfg"])
        env.driver.add_accessory(root)
        h0 = env.driver.accessories_hash
        db0 = abstract_db(root)
        hashes = []
        applied = []
        for ai, si, cname, v, how in case["ops"]:
            acc = leaves[ai % len(leaves)]
            svcs = [s for s in acc.services if s.display_name != "AccessoryInformation"]
            svc = svcs[si % len(svcs)]
            ch = next((c for c in svc.characteristics if c.display_name == cname), None)
            if ch is None:
                continue
            try:
                if how == "set":
                    ch.set_value(v)
                else:
                    ch.client_update_value(v, ("127.0.0.1", 5))
            except ValueError:
                continue
            applied.append([acc.aid, acc.iid_manager.get_iid(ch), json.dumps(ch.value, default=str)])
            hashes.append(env.driver.accessories_hash)
        with_values = json.dumps(env.driver.get_accessories(), sort_keys=True, default=str)
    return {"h0": h0, "hashes": hashes, "db0": db0, "applied": applied, "n_values": with_values.count('"value"')}


def oracle_values(ctx: Ctx, case, got):
    for i, h in enumerate(got["hashes"]):
        if h != got["h0"]:
            ctx.fail("C18:hash-depends-on-values",
                     f"accessories_hash changed after value operation {got['applied'][i]}",
                     {"kind": "values", "case": case})
            return


# ----------------------------------------------------------------------------- stream 6: setup payload


def gen_xhm_cases(ctx: Ctx):
    rng = ctx.rng
    alnum = "0123456789ABCDEFGHIJKLMNOPQRSTUVWXYZ"
    fixed = [0, 1, 9, 10, 99999999, 10000000, 12345678, 3145154, 67108864, 67108863, 33554432, 99999998, 46656, 1679616]
    cases = []
    for cat in range(256):
        codes = [rng.choice(fixed), rng.randrange(10**8), rng.randrange(10**8), rng.randrange(10**4)]
        if not ctx.quick:
            codes += [rng.randrange(10**8) for _ in range(26)]
        for code in codes:
            d = f"{code:08d}"
            cases.append({"category": cat, "pin": f"{d[:3]}-{d[3:5]}-{d[5:]}", "code": code,
                          "setup_id": "".join(rng.choice(alnum) for _ in range(4))})
    for code in fixed:
        d = f"{code:08d}"
        cases.append({"category": rng.choice([1, 2, 5, 17, 255]), "pin": f"{d[:3]}-{d[3:5]}-{d[5:]}", "code": code, "setup_id": "0ZA9"})
    return cases


_XHM_ACC = None


def impl_xhm(m, case) -> Dict[str, Any]:
    global _XHM_ACC
    if _XHM_ACC is None:
        drv = SimpleNamespace(loader=_loader(m), state=SimpleNamespace(pincode=b"", setup_id=""),
                              iid_manager=None)
        _XHM_ACC = m.accessory.Accessory(drv, "Setup payload")
    acc = _XHM_ACC
    acc.category = case["category"]
    acc.driver.state.pincode = case["pin"].encode("ascii")
    acc.driver.state.setup_id = case["setup_id"]
    try:
        return {"ok": acc.xhm_uri()}
    except Exception as ex:  # noqa: BLE001
        return {"exc": type(ex).__name__}


def oracle_xhm(ctx: Ctx, case, got):
    rep = {"kind": "xhm", "case": case}
    if "exc" in got:
        ctx.fail("C18:xhm-raises", f"xhm_uri raises {got['exc']} for {case}", rep)
        return
    try:
        d = refxhm.decode(got["ok"])
    except refxhm.XhmError as ex:
        ctx.fail("C18:xhm-undecodable", f"{got['ok']!r} is not a setup payload ({ex}) for {case}", rep)
        return
    if len(got["ok"]) != 7 + 9 + len(case["setup_id"]):
        ctx.fail("C18:xhm-undecodable", f"{got['ok']!r} has the wrong length for {case}", rep)
        return
    for k in ("category", "code", "setup_id"):
        if d[k] != case[k]:
            ctx.fail(f"C18:xhm-wrong-{k.replace('_', '-')}", f"{got['ok']!r} decodes to {k}={d[k]!r}, accessory has {case[k]!r}", rep)
            return


# ----------------------------------------------------------------------------- stream 7: ordering (event scripts)


def _uname(c: int) -> bytes:
    return str(uuid.UUID(int=c + 1)).upper().encode()


def _uid(c: int) -> uuid.UUID:
    return uuid.UUID(int=c + 1)


SYS_NAMES = ["Ordering", "Lamp", "\u00e9 Lamp!", "--h a p p y--", "!!!", "x" * 70, "Bridge 2"]


def gen_sys_acc(rng) -> Dict[str, Any]:
    """The accessory an event script runs on: name, category and the configuration number it starts with."""
    return {"name": rng.choice(SYS_NAMES), "category": rng.choice([1, 2, 5, 8, 17, rng.randrange(256)]),
            "cfg0": rng.choice([1, 1, 2, 65534, 65535, 65535, rng.randrange(1, 65536)])}


DEFAULT_SYS_ACC = {"name": "Ordering", "category": 1, "cfg0": 1}


def gen_sys_script(rng, big=False) -> Dict[str, Any]:
    nclients = rng.choice([1, 2, 3])
    paired = []
    if rng.random() < 0.6:
        for c in range(nclients):
            if rng.random() < 0.7:
                paired.append([c, (not paired) or rng.random() < 0.4])
    conns = {}
    for k in range(rng.choice([1, 2, 3])):
        conns[str(k)] = rng.choice([None, 0, 0, 1, rng.randrange(nclients)])
    steps = []
    busy: List[str] = []  # connections with a deferred response, oldest first
    app = rng.random() < 0.5  # half of the scripts also use the application-side driver API
    for _ in range(rng.randrange(2, 14 if not big else 30)):
        r = rng.random()
        free = [c for c in conns if c not in busy]
        if r < 0.55 and free:
            conn = rng.choice(free)
            kind = rng.choices(["m5", "v3", "add", "remove", "resource", "other"], weights=[3, 1, 2, 5, 1, 1])[0]
            st = {"step": "request", "conn": int(conn), "req": kind}
            if kind == "m5":
                st.update(client=rng.randrange(nclients + 1), ok=rng.random() < 0.8)
            elif kind == "v3":
                st.update(ok=rng.random() < 0.7)
            elif kind == "add":
                st.update(session=conns[conn], client=rng.randrange(nclients + 1), admin=rng.random() < 0.5)
            elif kind == "remove":
                st.update(session=conns[conn], client=rng.randrange(nclients + 1))
            elif kind == "resource":
                busy.append(conn)
            steps.append(st)
        elif r < 0.62 and app:
            # the application side of the driver API (no request, no response)
            k = rng.random()
            if k < 0.5:
                steps.append({"step": "configChanged"})
            elif k < 0.75:
                steps.append({"step": "appRefresh"})
            else:
                steps.append({"step": "appUnpair", "client": rng.randrange(nclients + 1)})
        elif r < 0.7:
            steps.append({"step": "exec", "i": rng.choice([0, 0, 0, 1, 2])})
        elif r < 0.85 or not busy:
            steps.append({"step": "drain"})
        else:
            steps.append({"step": "taskDone", "i": 0})
            busy.pop(0)
    steps.append({"step": "quiesce"})
    script = {"paired": paired, "conns": conns, "steps": steps, "acc": gen_sys_acc(rng),
              "app": rng.choice(["stock", "stock", "pairing-hooks", "all-hooks"])}
    if rng.random() < 0.08:
        script["safe_mode"] = True  # the driver's documented switch: finish_pair leaves the advertisement alone
    return script


def gen_real_script(rng) -> Dict[str, Any]:
    """Scripts around complete real pair-setup exchanges (about 85 ms each, so only a handful per run)."""
    sched = lambda: rng.choice([[], [{"step": "exec", "i": 0}], [{"step": "drain"}], [{"step": "exec", "i": 0}, {"step": "drain"}],
                                [{"step": "drain"}, {"step": "exec", "i": 0}, {"step": "drain"}]])
    c0 = rng.randrange(3)
    conns = {"0": None, "1": c0, "2": rng.choice([None, c0, (c0 + 1) % 3])}
    steps = [{"step": "request", "conn": 0, "req": "m5real", "client": c0}] + sched()
    if rng.random() < 0.5:
        steps += [{"step": "request", "conn": 2, "req": rng.choice(["other", "add", "resource"]), "session": conns["2"],
                   "client": (c0 + 1) % 3, "admin": rng.random() < 0.5}]
    if rng.random() < 0.7:
        steps += [{"step": "request", "conn": 1, "req": "remove", "session": c0, "client": c0}] + sched()
        if rng.random() < 0.6:
            steps += [{"step": "request", "conn": 0, "req": "m5real", "client": (c0 + 1) % 3}] + sched()
    steps.append({"step": "quiesce"})
    return {"paired": [], "conns": conns, "steps": steps, "acc": gen_sys_acc(rng), "app": rng.choice(APP_FLAVOURS)}


BOUNDARY_SCRIPTS = [
    # pair-setup completes: record must flip to sf=0 after the M6 write
    {"paired": [], "conns": {"0": None}, "steps": [
        {"step": "request", "conn": 0, "req": "m5", "client": 0, "ok": True}, {"step": "exec", "i": 0}, {"step": "drain"}, {"step": "quiesce"}]},
    # the last admin removes itself: record flips back to sf=1 after the response
    {"paired": [[0, True]], "conns": {"0": 0}, "steps": [
        {"step": "request", "conn": 0, "req": "remove", "session": 0, "client": 0}, {"step": "exec", "i": 0}, {"step": "drain"}, {"step": "quiesce"}]},
    # last-admin rule: removing the only admin clears a remaining non-admin pairing too
    {"paired": [[0, True], [1, False]], "conns": {"0": 0, "1": 1}, "steps": [
        {"step": "request", "conn": 1, "req": "remove", "session": 1, "client": 0},
        {"step": "request", "conn": 0, "req": "remove", "session": 0, "client": 0}, {"step": "quiesce"}]},
    # pair, unpair, pair again with late executor runs
    {"paired": [], "conns": {"0": None, "1": 0}, "steps": [
        {"step": "request", "conn": 0, "req": "m5", "client": 0, "ok": True},
        {"step": "request", "conn": 1, "req": "remove", "session": 0, "client": 0},
        {"step": "request", "conn": 0, "req": "m5", "client": 1, "ok": True},
        {"step": "exec", "i": 2}, {"step": "exec", "i": 0}, {"step": "drain"}, {"step": "exec", "i": 0}, {"step": "quiesce"}]},
    # a deferred (snapshot) response next to a pairing change and a session upgrade
    {"paired": [[0, True]], "conns": {"0": 0, "1": None}, "steps": [
        {"step": "request", "conn": 1, "req": "resource"}, {"step": "request", "conn": 0, "req": "v3", "ok": True},
        {"step": "request", "conn": 0, "req": "remove", "session": 0, "client": 0}, {"step": "exec", "i": 0},
        {"step": "taskDone", "i": 0}, {"step": "quiesce"}]},
    # self-removal tears the remover's session down after the response; later steps on it are dropped,
    # a pending snapshot response on a torn-down connection is never written
    {"paired": [[0, True], [1, True]], "conns": {"0": 0, "1": 1, "2": None}, "steps": [
        {"step": "request", "conn": 1, "req": "resource"},
        {"step": "request", "conn": 0, "req": "remove", "session": 0, "client": 1},
        {"step": "request", "conn": 1, "req": "other"}, {"step": "taskDone", "i": 0},
        {"step": "request", "conn": 0, "req": "remove", "session": 0, "client": 0},
        {"step": "request", "conn": 0, "req": "other"},
        {"step": "request", "conn": 2, "req": "m5", "client": 2, "ok": True}, {"step": "quiesce"}]},
    # complete REAL pair-setup (reference controller, M1..M5 through _pairing_five), refresh run at once;
    # then the admin removes itself over its verified session and a second controller pairs
    {"paired": [], "conns": {"0": None, "1": 0}, "steps": [
        {"step": "request", "conn": 0, "req": "m5real", "client": 0}, {"step": "exec", "i": 0}, {"step": "drain"},
        {"step": "request", "conn": 1, "req": "remove", "session": 0, "client": 0}, {"step": "exec", "i": 0}, {"step": "drain"},
        {"step": "request", "conn": 0, "req": "m5real", "client": 1}, {"step": "quiesce"}]},
    # real pair-setup with the loop running before the executor
    {"paired": [], "conns": {"0": None}, "steps": [
        {"step": "request", "conn": 0, "req": "m5real", "client": 2}, {"step": "drain"}, {"step": "exec", "i": 0},
        {"step": "drain"}, {"step": "quiesce"}]},
    # pair-setup against an accessory that is already paired is refused at M1
    {"paired": [[0, True]], "conns": {"0": None}, "steps": [
        {"step": "request", "conn": 0, "req": "m5real", "client": 1}, {"step": "quiesce"}]},
    # config_changed at 65535 wraps the advertised number to 1, between a pairing and its refresh
    {"paired": [], "conns": {"0": None}, "acc": {"name": "Wrap", "category": 5, "cfg0": 65535}, "steps": [
        {"step": "request", "conn": 0, "req": "m5", "client": 0, "ok": True}, {"step": "configChanged"},
        {"step": "exec", "i": 0}, {"step": "drain"}, {"step": "configChanged"}, {"step": "quiesce"}]},
    # the application unpairs the last admin through the driver API: no refresh until it asks for one
    {"paired": [[0, True], [1, False]], "conns": {"0": 0}, "acc": {"name": "!!!", "category": 2, "cfg0": 7}, "steps": [
        {"step": "appUnpair", "client": 0}, {"step": "drain"}, {"step": "appUnpair", "client": 2},
        {"step": "appRefresh"}, {"step": "quiesce"}]},
    # application-requested refresh while a pairing's own refresh is still with the executor
    {"paired": [], "conns": {"0": None}, "acc": {"name": "x" * 70, "category": 255, "cfg0": 65534}, "steps": [
        {"step": "request", "conn": 0, "req": "m5real", "client": 1}, {"step": "appRefresh"}, {"step": "drain"},
        {"step": "configChanged"}, {"step": "configChanged"}, {"step": "exec", "i": 0}, {"step": "quiesce"}]},
    # safe_mode: pairing completes, the response is written, no refresh is ever made for it
    {"paired": [], "conns": {"0": None}, "safe_mode": True, "steps": [
        {"step": "request", "conn": 0, "req": "m5", "client": 0, "ok": True}, {"step": "exec", "i": 0}, {"step": "drain"},
        {"step": "appRefresh"}, {"step": "quiesce"}]},
    # failed M5 and unauthorised pairings requests change nothing
    {"paired": [], "conns": {"0": None}, "steps": [
        {"step": "request", "conn": 0, "req": "m5", "client": 0, "ok": False},
        {"step": "request", "conn": 0, "req": "add", "session": None, "client": 1, "admin": True},
        {"step": "request", "conn": 0, "req": "other"}, {"step": "quiesce"}]},
]


class FakeTransport(asyncio.Transport):
    def __init__(self, events, conn):
        super().__init__()
        self.events = events
        self.conn = conn
        self.closed = False

    def get_extra_info(self, name, default=None):
        return ("10.0.0.%d" % (self.conn + 1), 50000 + self.conn) if name == "peername" else default

    def set_write_buffer_limits(self, high=None, low=None):
        pass

    last: Optional[bytes] = None  # the bytes of the most recent write (read by the reference controller)

    def write(self, data):
        # like a real transport: bytes handed over after close() are discarded, not sent
        self.events.append({"ev": "discarded-write" if self.closed else "write", "conn": self.conn, "n": len(data)})
        if not self.closed:
            self.last = bytes(data)

    def writelines(self, lines):
        self.write(b"".join(bytes(x) for x in lines))

    def is_closing(self):
        return self.closed

    def write_eof(self):
        pass

    def close(self):
        self.closed = True


def _request_bytes(path: str, body: bytes, method="POST") -> bytes:
    return (f"{method} {path} HTTP/1.1\r\nHost: x._hap._tcp.local\r\nContent-Length: {len(body)}\r\n"
            "Content-Type: application/pairing+tlv8\r\n\r\n").encode() + body


def _http_body(raw: Optional[bytes]) -> Optional[bytes]:
    if not raw or b"\r\n\r\n" not in raw:
        return None
    return raw.split(b"\r\n\r\n", 1)[1]


def real_pair_setup(deliver, conn: int, client: int, code: bytes):
    """M1, M3, M5 of the independent reference controller (harness/ref/pairsetup_client.py,
    srp_client.py) for controller `client`; every message goes through `deliver`."""
    import hashlib

    from cryptography.hazmat.primitives.asymmetric import ed25519

    from ref import pairsetup_client as pc, srp_client as srp

    other = {"step": "request", "conn": conn, "req": "other"}
    t = pc.parse(_http_body(deliver(conn, "ps-m1", _request_bytes("/pair-setup", pc.m1_body()), dict(other))) or b"")
    if not t or t.get(pc.T_STATE) != b"\x02" or pc.T_ERROR in t or pc.T_SALT not in t or pc.T_PUBLIC_KEY not in t:
        return "M2-refused"  # e.g. already paired: the accessory answers 'unavailable'
    a = int.from_bytes(hashlib.sha512(b"C18 controller secret %d" % client).digest()[:32], "big")
    cl = srp.client(code, t[pc.T_SALT], t[pc.T_PUBLIC_KEY], a)
    t = pc.parse(_http_body(deliver(conn, "ps-m3", _request_bytes("/pair-setup", pc.m3_body(cl.A_bytes, cl.M1)), dict(other))) or b"")
    if not t or t.get(pc.T_STATE) != b"\x04" or pc.T_ERROR in t:
        return "M4-refused"
    ltsk = ed25519.Ed25519PrivateKey.from_private_bytes(bytes([client + 1]) * 32)
    sub, _ltpk = pc.m5_subtlv(cl.K, _uname(client), ltsk)
    deliver(conn, "m5real", _request_bytes("/pair-setup", pc.m5_body(cl.K, sub)),
            {"step": "request", "conn": conn, "req": "m5", "client": client, "ok": True}, m5ok=True)
    return "M5-sent"


def impl_sys(m, script) -> Dict[str, Any]:
    """Run one event script on the real HAPServerProtocol / AccessoryDriver; returns the event log."""
    H = m.hap_handler
    tlv = m.tlv
    app = script.get("app", "stock")
    with real_driver(m, app=app) as env:
        driver, loop, ex, events = env.driver, env.loop, env.ex, env.events

        class PassThroughCrypto:  # transparent stand-in for HAPCrypto (framing is C04/C05's subject)
            def __init__(self_inner, key):
                events.append({"ev": "cipher", "conn": current["conn"]})
                self_inner.buf = b""

            def receive_data(self_inner, data):
                self_inner.buf += data

            def decrypt(self_inner):
                d, self_inner.buf = self_inner.buf, b""
                return d

            def encrypt(self_inner, data):
                return [data]

        current = {"conn": None}
        for c, adm in script["paired"]:
            driver.state.add_paired_client(_uname(c), bytes([c + 1]) * 32, b"\x01" if adm else b"\x00")
        ident = script.get("acc") or DEFAULT_SYS_ACC
        acc = app_classes(m, app)[1](driver, ident["name"])
        acc.category = ident["category"]
        driver.add_accessory(acc)
        with patch("pyhap.hap_protocol.HAPCrypto", PassThroughCrypto):
            # the configuration number the script starts with: what async_start's hash comparison leaves behind
            driver.state.accessories_hash = driver.accessories_hash
            driver.state.config_version = ident["cfg0"]
            printed_payload = start_driver(env)
            if script.get("safe_mode"):
                driver.safe_mode = True
            connections: Dict[Any, Any] = {}
            protos = {}
            for k, session in script["conns"].items():
                p = m.hap_protocol.HAPServerProtocol(loop, connections, driver)
                p.connection_made(FakeTransport(events, int(k)))
                if session is not None:
                    p.handler.is_encrypted = True
                    p.handler.client_uuid = _uid(session)
                protos[int(k)] = p
            deferred = []  # (conn, rid, future)
            dropped = 0
            reqs = []  # per request: oracle bookkeeping
            rid = 0
            execs_since_spin = 0
            model_steps = []
            app_unpairs: List[int] = []  # event index at which the application unpaired somebody

            def flush_loop():
                nonlocal execs_since_spin
                for _ in range(execs_since_spin):
                    model_steps.append({"step": "loopRun", "i": 0})
                execs_since_spin = 0
                spin(loop)

            def deliver(conn, kind, data, model_step, crafted=None, m5ok=False):
                """One request on `conn` through the real data_received (h11, dispatch, _process_response);
                returns the bytes written in answer during the call, None if nothing was written yet."""
                nonlocal rid
                p = protos[conn]
                current["conn"] = conn
                before = len(driver.state.paired_clients)
                ev_start = len(events)
                events.append({"ev": "req", "rid": rid, "conn": conn})
                p.transport.last = None
                if crafted is not None:
                    with patch.object(p.handler, "dispatch", crafted):
                        p.data_received(data)
                else:
                    p.data_received(data)
                after = len(driver.state.paired_clients)
                reqs.append({"rid": rid, "conn": conn, "kind": kind, "before": before, "after": after,
                             "ev": [ev_start, len(events)], "m5ok": m5ok})
                model_steps.append(model_step)
                rid += 1
                return p.transport.last

            for st in script["steps"]:
                if st["step"] == "request":
                    p = protos[st["conn"]]
                    if p.transport.is_closing():
                        # the session was torn down (C16 repair): asyncio delivers nothing on a closed
                        # transport, so the step is dropped here; the model must drop it on its own
                        ms = {k: v for k, v in st.items()}
                        if ms["req"] == "m5real":
                            ms["req"] = "other"
                        model_steps.append(ms)
                        dropped += 1
                        continue
                    kind = st["req"]
                    crafted = None
                    if kind == "m5real":
                        # a complete pair-setup by the independent reference controller: M1, M3, M5 through
                        # the real handler (SRP, _pairing_five); in the model: other, other, m5
                        real_pair_setup(deliver, st["conn"], st["client"], bytes(driver.state.pincode))
                        continue
                    if kind == "m5":
                        def crafted(_req, _body=None, st=st):
                            resp = H.HAPResponse()
                            resp.status_code, resp.reason = 200, "OK"
                            if st["ok"]:
                                # what _pairing_five does once the proofs check out
                                driver.pair(_uname(st["client"]), bytes([st["client"] + 1]) * 32, b"\x01")
                                resp.pairing_changed = True
                            resp.body = b"\x06\x01\x06"
                            return resp
                        data = _request_bytes("/pair-setup", b"\x06\x01\x05")
                    elif kind == "v3":
                        def crafted(_req, _body=None, st=st):
                            resp = H.HAPResponse()
                            resp.status_code, resp.reason = 200, "OK"
                            if st["ok"]:
                                resp.shared_key = b"k" * 32
                            resp.body = b"\x06\x01\x04"
                            return resp
                        data = _request_bytes("/pair-verify", b"\x06\x01\x03")
                    elif kind == "resource":
                        fut = loop.create_future()

                        def crafted(_req, _body=None, fut=fut):
                            resp = H.HAPResponse()
                            resp.status_code, resp.reason = 200, "OK"
                            resp.task = fut
                            return resp
                        deferred.append((st["conn"], rid, fut))
                        data = _request_bytes("/resource", b"{}")
                    elif kind == "add":
                        body = tlv.encode(b"\x00", b"\x03", b"\x01", _uname(st["client"]), b"\x03",
                                          bytes([st["client"] + 1]) * 32, b"\x0b", b"\x01" if st["admin"] else b"\x00")
                        data = _request_bytes("/pairings", body)
                    elif kind == "remove":
                        body = tlv.encode(b"\x00", b"\x04", b"\x01", _uname(st["client"]))
                        data = _request_bytes("/pairings", body)
                    else:
                        data = _request_bytes("/accessories", b"", method="GET")
                    deliver(st["conn"], kind, data, {k: v for k, v in st.items()}, crafted,
                            m5ok=kind == "m5" and st["ok"])
                elif st["step"] == "exec":
                    ex.run_one(st["i"])  # out of range: nothing happens (nor in the model)
                    execs_since_spin += 1
                    model_steps.append({"step": "execRun", "i": st["i"]})
                elif st["step"] == "drain":
                    flush_loop()
                elif st["step"] == "configChanged":
                    driver.config_changed()
                    execs_since_spin += 1  # one more callback waits in the loop
                    model_steps.append({"step": "configChanged"})
                elif st["step"] == "appRefresh":
                    driver.update_advertisement()
                    execs_since_spin += 1
                    model_steps.append({"step": "appRefresh"})
                elif st["step"] == "appUnpair":
                    try:
                        driver.unpair(_uid(st["client"]))
                        app_unpairs.append(len(events))
                    except KeyError:
                        pass  # not paired: the call raises before it touches anything
                    model_steps.append({"step": "appUnpair", "client": st["client"]})
                elif st["step"] == "taskDone":
                    if st["i"] < len(deferred):
                        conn, drid, fut = deferred.pop(st["i"])
                        current["conn"] = conn
                        events.append({"ev": "task", "rid": drid, "conn": conn})
                        fut.set_result(b"img")
                        for _ in range(execs_since_spin):
                            model_steps.append({"step": "loopRun", "i": 0})
                        execs_since_spin = 0
                        model_steps.append({"step": "taskDone", "i": st["i"]})
                        spin(loop)
                        spin(loop)
                    else:
                        model_steps.append({"step": "taskDone", "i": st["i"]})
                elif st["step"] == "quiesce":
                    for _ in range(4):  # until nothing is scheduled any more (delayed responses need a few rounds)
                        n = 0
                        while ex.pending and n < 1000:
                            ex.run_one(0)
                            execs_since_spin += 1
                            model_steps.append({"step": "execRun", "i": 0})
                            n += 1
                        flush_loop()
            final = sorted([[int(u.int) - 1, bool(driver.state.is_admin(u))] for u in driver.state.paired_clients])
            pending = len(ex.pending)
            closed = sorted(k for k, p in protos.items() if p.transport.is_closing())
            final_cfg = driver.state.config_version
            setup_id = driver.state.setup_id
    return {"events": events, "reqs": reqs, "final": final, "model_steps": model_steps, "pending": pending,
            "closed": closed, "dropped": dropped, "final_cfg": final_cfg, "setup_id": setup_id, "printed_payload": printed_payload,
            "pincode": bytes(driver.state.pincode).decode("ascii"), "app_unpairs": app_unpairs,
            "ident": ident}


def canon_sys_impl(got) -> Dict[str, Any]:
    """Observable trace in the model's vocabulary: writes tagged with the request they answer,
    cipher installs, published records (sf only)."""
    log = []
    cur = None
    for e in got["events"]:
        if e["ev"] in ("req", "task"):
            cur = e["rid"]
        elif e["ev"] == "write":
            log.append(["write", e["conn"], cur])
        elif e["ev"] == "cipher":
            log.append(["cipher", e["conn"], cur])
        elif e["ev"] == "publish":
            log.append(["publish", e["props"]])
    last = [e for e in got["events"] if e["ev"] in ("register", "publish")]
    reg = [e for e in got["events"] if e["ev"] == "register"]
    return {"log": log, "paired": got["final"], "pending": got["pending"], "adv_sf": last[-1]["sf"] if last else None,
            "closed": got["closed"], "cfg": got["final_cfg"], "registered": reg[0]["props"] if reg else None,
            "adv": last[-1]["props"] if last else None}


def canon_sys_model(ans) -> Dict[str, Any]:
    log = []
    for e in ans.get("log", []):
        log.append(["publish", dict(e[2])] if e[0] == "publish" else e)
    return {"log": log, "paired": sorted(ans.get("paired", [])), "pending": ans.get("pending"), "adv_sf": ans.get("adv_sf"),
            "closed": sorted(ans.get("closed", [])), "cfg": ans.get("cfg"), "registered": dict(ans.get("registered", [])),
            "adv": dict(ans.get("adv", []))}


def oracle_sys(ctx: Ctx, script, got):
    rep = {"kind": "sys", "script": script}
    ev = got["events"]
    # (1) every record handed to the advertiser states the pairing state of that moment
    for e in ev:
        if e["ev"] in ("register", "publish"):
            want = "1" if e["npaired"] == 0 else "0"
            if e["sf"] != want:
                ctx.fail("C18:sf-not-matching-pairing-state",
                         f"record handed to the advertiser says sf={e['sf']!r} while {e['npaired']} controllers are paired", rep)
                return
            if e["id"] != MAC:
                ctx.fail("C18:id-not-mac", f"record id {e['id']!r}", rep)
                return
            # the advertised configuration number is the accessory's current one and stays within 1..65535
            if not (isinstance(e["c#"], str) and e["c#"].isascii() and e["c#"].isdigit() and 1 <= int(e["c#"]) <= 65535):
                ctx.fail("C18:config-number-out-of-range", f"record handed to the advertiser carries c#={e['c#']!r}", rep)
                return
            if e["c#"] != str(e["cfg"]):
                ctx.fail("C18:cfg-not-advertised", f"record carries c#={e['c#']!r} while config_version is {e['cfg']}", rep)
                return
    # (1b) the setup payload printed at start for the user to scan decodes to this accessory's category,
    #      setup code and setup id
    if got.get("printed_payload") is not None:
        want = {"category": got["ident"]["category"], "code": int(got["pincode"].replace("-", ""), 10), "setup_id": got["setup_id"]}
        try:
            d = refxhm.decode(got["printed_payload"])
        except refxhm.XhmError as ex:
            ctx.fail("C18:xhm-undecodable", f"printed setup payload {got['printed_payload']!r} is not a setup payload ({ex})", rep)
            return
        for k in ("category", "code", "setup_id"):
            if d[k] != want[k]:
                ctx.fail(f"C18:xhm-wrong-{k.replace('_', '-')}",
                         f"printed setup payload {got['printed_payload']!r} decodes to {k}={d[k]!r}, accessory has {want[k]!r}", rep)
                return
    # (2) the refreshed record of the last step of pairing / unpairing comes after that step's response:
    #     no record reaches the advertiser between the arrival of the request and the moment the response
    #     bytes are handed to the transport (the actual write, also when the response is a delayed one;
    #     one request is outstanding per connection, so it is the next write on that connection)
    quiesced = bool(script["steps"]) and script["steps"][-1]["step"] == "quiesce"
    for r in got["reqs"]:
        last_step = r["m5ok"] or ((r["before"] == 0) != (r["after"] == 0))
        if not last_step:
            continue
        a = r["ev"][0]
        w = next((i for i in range(a + 1, len(ev)) if ev[i]["ev"] == "write" and ev[i]["conn"] == r["conn"]), None)
        window = ev[a + 1 : w if w is not None else len(ev)]
        if any(e["ev"] == "publish" for e in window):
            ctx.fail("C18:advert-before-response",
                     f"request {r['rid']} ({r['kind']}) changed the pairing state {r['before']}->{r['after']} and the refreshed "
                     "record reached the advertiser before the response was written", rep)
            return
        if w is None and quiesced:
            ctx.fail("C18:pairing-response-not-written", f"request {r['rid']} ({r['kind']}) got no response", rep)
            return
    # (3) once everything scheduled has run, the advertised flag is that of the final state.  Scope: pairing
    #     histories made of protocol steps; `AccessoryDriver.unpair` called by the application itself is not
    #     a step with a response and does not refresh anything (the application has to ask for it, as e.g.
    #     Home Assistant does) -- such a script is judged only if a refresh was requested after the last such call
    if script.get("safe_mode"):
        quiesced = False  # with safe_mode the driver never refreshes after a pairing change (that is the switch)
    if quiesced and got.get("app_unpairs"):
        # a record built after the last application-level unpair reflects it
        quiesced = any(e["ev"] == "publish" for e in ev[got["app_unpairs"][-1]:])
    if quiesced:
        last = [e for e in ev if e["ev"] in ("register", "publish")]
        final_unpaired = len(got["final"]) == 0
        if not last or (last[-1]["sf"] == "1") != final_unpaired:
            ctx.fail("C18:advert-stale-after-pairing-change",
                     f"after all scheduled work ran the advertiser holds sf={last[-1]['sf'] if last else None!r} but "
                     f"{len(got['final'])} controllers are paired", rep)


# ----------------------------------------------------------------------------- stream 8: specification-side definitions


def gen_spec_cases(ctx: Ctx, labels: List[Any], uris: List[str]) -> List[Dict[str, Any]]:
    """Labels and URIs on which the Lean-side validity predicates / reference decoder (the definitions
    the theorems are stated with) are compared with the independent Python validators: what the code
    really produced, plus perturbations on both sides of every rule."""
    rng = ctx.rng
    cases = []
    fixed = ["", " ", "-", "a", "a" * 63, "a" * 64, "é" * 31 + "a", "é" * 31 + "ab", "é" * 32, "\U0001f600" * 15 + "abc",
             "\U0001f600" * 16, " a", "a ", "-a", "a-", "a b", "a_b", "a.b", "A-b-9", "日本", "aé"]
    for x in fixed:
        cases.append({"inst": x, "host": x, "uri": "X-HM://001408XXEABCD"})
    pert = [lambda x: " " + x, lambda x: x + " ", lambda x: "-" + x, lambda x: x + "-", lambda x: x + "x" * (64 - len(x)),
            lambda x: x + "x" * (63 - len(x)), lambda x: x[:3] + "é" + x[3:], lambda x: x[:2] + "_" + x[2:],
            lambda x: x.replace(" ", "", 1), lambda x: x]
    for inst, host in labels[: ctx.n(300, 3000)]:
        f = rng.choice(pert)
        g = rng.choice(pert)
        cases.append({"inst": f(inst), "host": g(host), "uri": "X-HM://001408XXEABCD"})
    for u in uris[: ctx.n(300, 3000)]:
        k = rng.random()
        if k < 0.5:
            v = u
        elif k < 0.8:  # another digit somewhere behind the two leading ones
            i = rng.randrange(9, 16)
            v = u[:i] + rng.choice("0123456789ABCDEFGHIJKLMNOPQRSTUVWXYZ") + u[i + 1:]
        else:  # not a base-36 digit
            i = rng.randrange(7, 16)
            v = u[:i] + rng.choice("abz!-_ é") + u[i + 1:]
        cases.append({"inst": "a", "host": "a", "uri": v})
    cases.append({"inst": "a", "host": "a", "uri": "x-hm://001408XXEABCD"})
    return cases


def impl_spec(case) -> Dict[str, Any]:
    try:
        d = refxhm.decode(case["uri"])
    except refxhm.XhmError:
        d = None
    return {"inst_ok": dnslabel.instance_label_problem(case["inst"]) is None,
            "host_ok": dnslabel.host_label_problem(case["host"]) is None, "xhm": d}


# ----------------------------------------------------------------------------- constants fixed by the model


def source_constants() -> Dict[str, Any]:
    """Module-level constants the model hard-codes, read from the source text (ast, no import)."""
    import ast

    out: Dict[str, Any] = {}
    wanted = {
        "pyhap/accessory_driver.py": ["VALID_MDNS_REGEX", "LEADING_TRAILING_SPACE_DASH", "DASH_REGEX", "HAP_SERVICE_TYPE",
                                      "MAX_MDNS_NAME_LENGTH", "DEFAULT_MDNS_NAME"],
        "pyhap/const.py": ["MAX_CONFIG_VERSION", "DEFAULT_CONFIG_VERSION", "HAP_PROTOCOL_SHORT_VERSION"],
    }
    for rel, names in wanted.items():
        tree = ast.parse((REPO / rel).read_text())
        for node in tree.body:
            if isinstance(node, ast.Assign) and len(node.targets) == 1 and isinstance(node.targets[0], ast.Name):
                n = node.targets[0].id
                if n not in names:
                    continue
                v = node.value
                if isinstance(v, ast.Call) and getattr(v.func, "attr", "") == "compile" and v.args:
                    v = v.args[0]
                try:
                    out[n] = eval(compile(ast.Expression(v), rel, "eval"), {"__builtins__": {}}, {})  # constants only
                except Exception:  # noqa: BLE001
                    out[n] = "<not a constant expression>"
        for n in names:
            out.setdefault(n, None)
    # which handler functions attach a task to the response (deferred write): the ordering theorem needs
    # that a pairing-changing response is never deferred (Proofs.AdvertSys.handle_changed_not_task)
    tree = ast.parse((REPO / "pyhap/hap_handler.py").read_text())
    task_setters = set()
    for fn in ast.walk(tree):
        if isinstance(fn, (ast.FunctionDef, ast.AsyncFunctionDef)):
            for node in ast.walk(fn):
                targets = node.targets if isinstance(node, ast.Assign) else [node.target] if isinstance(node, (ast.AnnAssign, ast.AugAssign)) else []
                val = getattr(node, "value", None)
                if isinstance(val, ast.Constant) and val.value is None:
                    continue  # HAPResponse.__init__: no task
                if any(isinstance(t, ast.Attribute) and t.attr == "task" for t in targets):
                    task_setters.add(fn.name)
    out["TASK_HANDLERS"] = sorted(task_setters)
    return out


# ----------------------------------------------------------------------------- run


def _check_repo(ctx: Ctx, m):
    f = os.path.realpath(m.accessory_driver.__file__)
    if not f.startswith(os.path.realpath(str(REPO))):
        raise RuntimeError(f"pyhap imported from {f}, expected under {REPO}")
    ctx.stats.notes.append(f"implementation under check: {os.path.dirname(f)}")


def run(ctx: Ctx):
    m = _mods()
    _check_repo(ctx, m)
    st = ctx.stats
    rng = ctx.rng
    st.rule = (
        "names: boundary list + Unicode-heavy random display names (1..200 chars); non-trivial if sanitising changes the "
        "name, truncates it or falls back. cfg: op sequences around 65535; non-trivial if a wrap or a refused change occurs. "
        "restart: config pairs through real persist/load/async_start; non-trivial unless identical. life: 2..4 process lifetimes "
        "on one persist file with value changes, config_changed, saves and live restructuring; non-trivial if anything but "
        "identical restarts happens. xhm: all 256 categories x "
        "setup codes. sys: event scripts on the real HAPServerProtocol with controlled executor/loop and application calls "
        "(config_changed, update_advertisement, unpair); non-trivial if a "
        "pairing-changing request occurs. spec: labels/URIs through the Lean-side validity predicates and decoder vs the Python "
        "validators; non-trivial if something is rejected. Distinct by canonical input."
    )
    lines: List[Dict[str, Any]] = []
    impl: List[Any] = []
    post: List[Any] = []  # per line: (stream, case, canonicaliser for the model answer)

    # --- restarts in new processes: started now (children run beside the in-process streams), judged below
    chains = [gen_xrestart_chain(rng) for _ in range(ctx.n(1, 6))]
    xpool = concurrent.futures.ThreadPoolExecutor(max_workers=3)
    xfuts = [xpool.submit(impl_xrestart, ch) for ch in chains]

    # --- names
    consts = source_constants()
    repaired = consts.get("MAX_MDNS_NAME_LENGTH") is not None
    if not repaired:
        st.notes.append(
            "the tree under check lacks the C18 name repair (no MAX_MDNS_NAME_LENGTH): the names stream is compared with "
            "the model's *legacy* sanitisers; C18_names_valid / C18_sanitised_names speak about the repaired ones, "
            "C18_names_legacy_counterexample about these"
        )
    names_op = "names" if repaired else "names_legacy"
    real_labels: List[Any] = []
    real_uris: List[str] = []
    macs = [MAC, "00:00:00:Ab:cD:EF"] + [gen_mac(rng) for _ in range(6)]
    for k, name in enumerate(gen_names(ctx)):
        mac = MAC if k < len(BOUNDARY_NAMES) else macs[k % len(macs)]
        got = impl_names(m, name, mac)
        oracle_names(ctx, name, got, mac)
        lines.append({"layer": "advert", "op": names_op, "name": _cps(name), "mac": mac})
        if "exc" in got:
            # zeroconf refuses the name; the model has no ServiceInfo, its labels are judged instead
            impl.append({"exc": got["exc"]})
            post.append(("names", {"name": name[:80], "len": len(name)}, _canon_names_exc))
        else:
            impl.append({k: got.get(k) for k in ("inst", "host", "vn")})
            post.append(("names", {"name": name[:80], "len": len(name)}, lambda a: {k: a.get(k) for k in ("inst", "host", "vn")}))
            if got.get("inst") is not None and got.get("host") is not None and k % 7 == 0:
                real_labels.append((got["inst"], got["host"]))
        changed = "exc" in got or got["vn"] != name
        st.case(["n", _cps(name)], changed)
        st.hit("op", "names")
        if "exc" in got:
            st.hit("outcome", "names-raises-" + got["exc"])
        elif got["vn"] == name:
            st.hit("outcome", "names-unchanged")
        elif len(name) > 56 and len(got["vn"]) >= 50:
            st.hit("outcome", "names-truncated")
        elif got["vn"] == "HAP" and name != "HAP":
            st.hit("outcome", "names-fallback")
        else:
            st.hit("outcome", "names-sanitised")
    st.sample({"display_name": "- - H---A---P---P---Y - -", "impl": impl_names(m, "- - H---A---P---P---Y - -")})

    # --- TXT record
    for i in range(ctx.n(300, 4000)):
        case = {
            "name": rng.choice(["Lamp", "Test Accessory", "\u00e9 Lamp!", "--h a p p y--", "Bridge 2"]),  # degenerate names: names stream
            "category": rng.choice([1, 2, 5, 8, 17, 32, rng.randrange(256)]),
            "mac": "".join(rng.choice("0123456789ABCDEFabcdef") + rng.choice("0123456789ABCDEF") + ":" for _ in range(6))[:-1],
            "cfg": rng.choice([1, 2, 65535, rng.randrange(1, 65536)]),
            "npaired": rng.choice([0, 0, 1, 2, 3]),
            "setup_id": "".join(rng.choice("0123456789ABCDEFGHIJKLMNOPQRSTUVWXYZ") for _ in range(4)),
        }
        try:
            got = impl_txt(m, case)
        except Exception as ex:  # noqa: BLE001  (a name problem; judged by the names stream)
            st.hit("outcome", "txt-raises-" + type(ex).__name__)
            continue
        oracle_txt(ctx, case, got)
        lines.append({"layer": "advert", "op": "advert", "name": _cps(case["name"]), "category": case["category"],
                      "mac": case["mac"], "cfg": case["cfg"], "paired": case["npaired"] > 0, "setup_id": case["setup_id"]})
        impl.append(got["props"])
        post.append(("txt", case, lambda a: dict(a.get("ok", []))))
        st.case(["t", case], True)
        st.hit("op", "txt")
        st.hit("outcome", "txt-sf-" + str(got["props"].get("sf")))
        if i == 0:
            st.sample({"txt_case": case, "impl": got["props"]})

    # --- config number
    for case in gen_cfg_cases(ctx):
        got = impl_cfg(m, case)
        oracle_cfg(ctx, case, got)
        lines.append({"layer": "advert", "op": "cfg", **case})
        impl.append(got)
        post.append(("cfg", case, lambda a: a))
        wraps = any(c == 1 for c, _ in got["ok"]) and case["cfg"] > 60000
        refused = any(r is False for _, r in got["ok"])
        st.case(["c", case], wraps or refused)
        st.hit("op", "cfg")
        st.hit("outcome", "cfg-wrap" if wraps else ("cfg-unchanged-hash" if refused else "cfg-increment"))

    # --- setup payload
    for case in gen_xhm_cases(ctx):
        got = impl_xhm(m, case)
        oracle_xhm(ctx, case, got)
        lines.append({"layer": "advert", "op": "xhm", "category": case["category"], "pin": case["pin"], "setup_id": case["setup_id"]})
        impl.append(got)
        post.append(("xhm", case, lambda a: {"ok": a.get("ok")}))
        st.case(["x", case], True)
        st.hit("op", "xhm")
        st.hit("outcome", "xhm-ok" if "ok" in got else "xhm-raises")
        if "ok" in got:
            real_uris.append(got["ok"])

    # --- the specification-side definitions against the independent validators
    for case in gen_spec_cases(ctx, real_labels, real_uris):
        got = impl_spec(case)
        lines.append({"layer": "advert", "op": "spec", "inst": _cps(case["inst"]), "host": _cps(case["host"]), "uri": case["uri"]})
        impl.append(got)
        post.append(("spec", case, lambda a: a))
        st.case(["sp", case], not (got["inst_ok"] and got["host_ok"]) or got["xhm"] is None)
        st.hit("op", "spec")
        st.hit("outcome", "spec-inst-" + ("valid" if got["inst_ok"] else "invalid"))
        st.hit("outcome", "spec-host-" + ("valid" if got["host_ok"] else "invalid"))
        st.hit("outcome", "spec-xhm-" + ("decodes" if got["xhm"] is not None else "rejected"))

    # --- generated identities satisfy the hypotheses of the label and setup-payload theorems
    import pyhap.util as putil

    for _ in range(ctx.n(150, 2000)):
        mac, pin = putil.generate_mac(), putil.generate_pincode().decode("ascii")
        lines.append({"layer": "advert", "op": "ident", "mac": mac, "pin": pin})
        impl.append({"mac_ok": True, "pin_ok": True, "code": int(pin.replace("-", ""), 10)})
        post.append(("ident-hypotheses", {"mac": mac, "pin": pin}, lambda a: a))
        st.case(["id", mac, pin], True)
        st.hit("op", "ident")

    # --- restart pairs
    n_restart = ctx.n(80, 1000)
    for i in range(n_restart):
        a = gen_config(rng)
        kind, b, changed = mutate_config(rng, a)
        case = {"a": a, "b": b, "kind": kind, "changed": changed,
                "cfg0": rng.choice([None, None, 65534, 65535, 65533, rng.randrange(1, 65536)]),
                "app": rng.choice(["stock", "stock", "all-hooks"])}
        got = impl_restart(m, case)
        oracle_restart(ctx, case, got)
        # model: the two set_accessories_hash calls of the two starts
        lines.append({"layer": "advert", "op": "cfg", "cfg": case["cfg0"] or 1, "hash": None,
                      "ops": [["set", got["h1"]], ["set", got["h2"]]]})
        impl.append([got["c1"], got["c2"]])
        post.append(("restart-cfg", {"kind": kind, "cfg0": case["cfg0"]}, lambda a: [x[0] for x in a.get("ok", [])]))
        # model: value-free rendering equal <=> real hashes equal
        lines.append({"layer": "advert", "op": "render", "db": got["db1"], "ops": []})
        impl.append(None)
        post.append(("restart-render-a", None, None))
        lines.append({"layer": "advert", "op": "render", "db": got["db2"], "ops": []})
        impl.append({"same_hash": got["h1"] == got["h2"]})
        post.append(("restart-render-b", {"kind": kind}, None))
        st.case(["r", case], kind != "identical")
        st.hit("op", "restart")
        st.hit("outcome", "restart-" + kind + ("-moved" if got["c1"] != got["c2"] else "-kept"))
        if i == 0:
            st.sample({"restart_kind": kind, "c1": got["c1"], "c2": got["c2"], "hash_equal": got["h1"] == got["h2"]})

    # --- whole lives: several process lifetimes with runtime changes in between
    lives = boundary_lives() + [gen_life(rng) for _ in range(ctx.n(40, 500))]
    for i, life in enumerate(lives):
        got = impl_life(m, life)
        oracle_life(ctx, life, got)
        lines.append({"layer": "advert", "op": "life", "cfg0": life["cfg0"], "ops": got["model_ops"]})
        impl.append(got["obs"])
        post.append(("life", {"cfg0": life["cfg0"], "kinds": [p["kind"] for p in life["procs"]],
                              "ops": [[o[0] for o in p["ops"]] for p in life["procs"]]}, lambda a: a.get("ok")))
        st.case(["l", life], len(got["obs"]) > len(life["procs"]) or any(p["kind"] != "identical" for p in life["procs"][1:]))
        st.hit("op", "life")
        st.hit("outcome", "life-driver-class-" + life.get("app", "stock"))
        for o in got["model_ops"]:
            st.hit("op", "life-" + o[0])
        for k in range(1, len(got["starts"])):
            moved = got["starts"][k]["c"] != got["starts"][k - 1]["stop_c"]
            st.hit("outcome", "life-restart-" + ("after-runtime-restructuring-" if got["starts"][k - 1]["mutated_live"] else "")
                   + life["procs"][k]["kind"] + ("-moved" if moved else "-kept"))
        if i == 1:
            st.sample({"life_kinds": [p["kind"] for p in life["procs"]], "cfg0": life["cfg0"],
                       "ops": [o[0] for o in got["model_ops"]], "c#": [o["cfg"] for o in got["obs"]]})

    # --- values never move the hash
    for i in range(ctx.n(80, 800)):
        cfg = gen_config(rng)
        ops = []
        for _ in range(rng.randrange(1, 8)):
            t_acc = rng.randrange(4)
            t_svc = rng.randrange(4)
            svc_types = [s["type"] for a in cfg["accs"] for s in a["services"]]
            t = rng.choice(svc_types)
            cname = rng.choice(list(SERVICES[t]["vals"]))
            ops.append([t_acc, t_svc, cname, rng.choice(SERVICES[t]["vals"][cname]), rng.choice(["set", "client"])])
        case = {"cfg": cfg, "ops": ops}
        got = impl_values(m, case)
        oracle_values(ctx, case, got)
        lines.append({"layer": "advert", "op": "render", "db": got["db0"], "ops": got["applied"]})
        impl.append({"invariant": all(h == got["h0"] for h in got["hashes"])})
        post.append(("values-render", {"applied": got["applied"]}, lambda a: {"invariant": a.get("before") == a.get("after")}))
        st.case(["v", case], bool(got["applied"]))
        st.hit("op", "values", len(got["applied"]))
        st.hit("outcome", "values-hash-invariant" if all(h == got["h0"] for h in got["hashes"]) else "values-hash-moved")

    # --- ordering scripts
    scripts = [json.loads(json.dumps(s)) for s in BOUNDARY_SCRIPTS]
    for k, bs in enumerate(BOUNDARY_SCRIPTS):  # the same histories on an application subclass of the driver
        scripts.append({**json.loads(json.dumps(bs)), "app": APP_FLAVOURS[1 + k % 2]})
    for _ in range(ctx.n(400, 8000)):
        scripts.append(gen_sys_script(rng, big=not ctx.quick and rng.random() < 0.3))
    for _ in range(ctx.n(4, 40)):
        scripts.append(gen_real_script(rng))
    for i, script in enumerate(scripts):
        got = impl_sys(m, script)
        oracle_sys(ctx, script, got)
        ident = got["ident"]
        lines.append({"layer": "advert", "op": "sys", "paired": script["paired"], "steps": got["model_steps"],
                      "sessions": [[int(k), v] for k, v in script["conns"].items() if v is not None],
                      "name": _cps(ident["name"]), "category": ident["category"], "mac": MAC, "cfg": ident["cfg0"],
                      "setup_id": got["setup_id"], "safe": bool(script.get("safe_mode"))})
        impl.append(canon_sys_impl(got))
        post.append(("sys", script, canon_sys_model))
        changing = [r for r in got["reqs"] if r["m5ok"] or ((r["before"] == 0) != (r["after"] == 0))]
        st.case(["s", script], bool(changing))
        st.hit("op", "sys-script")
        for s in script["steps"]:
            st.hit("op", "sys-" + (s.get("req") or s["step"]))
        st.hit("outcome", "sys-pairing-changed" if changing else "sys-no-change")
        if script.get("safe_mode"):
            st.hit("outcome", "sys-safe-mode-script")
        st.hit("outcome", "sys-driver-class-" + script.get("app", "stock"))
        st.hit("outcome", "sys-publishes", sum(1 for e in got["events"] if e["ev"] == "publish"))
        st.hit("outcome", "sys-sessions-closed", len(got["closed"]))
        if got.get("printed_payload") is not None:
            st.hit("outcome", "sys-setup-payload-printed-at-start")
        st.hit("outcome", "sys-requests-dropped-on-closed-connection", got["dropped"])
        if i == 1:
            st.sample({"sys_script": script, "impl_trace": canon_sys_impl(got)})

    # --- restarts in new processes: collect
    for ch, fut in zip(chains, xfuts):
        got = fut.result()
        oracle_xrestart(ctx, ch, got)
        outs = got["outs"]
        lines.append({"layer": "advert", "op": "cfg", "cfg": ch["cfg0"] or 1, "hash": None,
                      "ops": [["set", o["h"]] for o in outs]})
        impl.append([o["c"] for o in outs])
        post.append(("xrestart-cfg", {"expect": [r["expect"] for r in ch["runs"]], "seeds": [r["seed"] for r in ch["runs"]]},
                     lambda a: [x[0] for x in a.get("ok", [])]))
        st.case(["xr", ch], True)
        st.hit("op", "xrestart-process", len(outs))
        for r, o, prev in zip(ch["runs"], outs, [None] + outs[:-1]):
            st.hit("outcome", "xrestart-" + r["expect"] + ("" if prev is None else ("-moved" if o["c"] != prev["c"] else "-kept")))
        if len(st.samples) < 4:
            st.sample({"xrestart": [{"hashseed": o["hashseed"], "expect": r["expect"], "c#": o["c"]} for r, o in zip(ch["runs"], outs)]})
    xpool.shutdown()

    # --- constants
    lines.append({"layer": "advert", "op": "consts"})
    impl.append(consts)
    if repaired:
        post.append(("constants", None, lambda a: a))
    else:
        post.append(("constants", None, lambda a: {**a, "MAX_MDNS_NAME_LENGTH": None, "DEFAULT_MDNS_NAME": None}))

    # --- model side
    model = run_model_parallel("C18", lines)
    render_a = None
    for (stream, case, canon), ln, a, im in zip(post, lines, model, impl):
        st.traces_validated += 1
        if "fatal" in a:
            ctx.disagree(stream, case, a, im)
            continue
        if stream == "restart-render-a":
            render_a = a.get("before")
            continue
        if stream == "restart-render-b":
            same_render = render_a == a.get("before")
            if same_render != im["same_hash"]:
                ctx.disagree("restart-render", case, {"same_value_free_rendering": same_render}, im)
            continue
        ma = canon(a)
        if ma != im:
            ctx.disagree(stream, case, _short(ma), _short(im))


def _short(x):
    s = json.dumps(x, default=str) if not isinstance(x, str) else x
    return x if len(s) < 600 else s[:600] + f"...<{len(s)} chars>"


# ----------------------------------------------------------------------------- search / replay


def search(ctx: Ctx):
    """Deeper oracle-only search on the real code."""
    m = _mods()
    saved = ctx.tier
    ctx.tier = "thorough"
    rng = ctx.rng
    try:
        for name in gen_names(ctx):
            oracle_names(ctx, name, impl_names(m, name))
        for case in gen_cfg_cases(ctx):
            oracle_cfg(ctx, case, impl_cfg(m, case))
        for case in gen_xhm_cases(ctx):
            oracle_xhm(ctx, case, impl_xhm(m, case))
        for _ in range(600):
            script = gen_sys_script(rng, big=rng.random() < 0.3)
            oracle_sys(ctx, script, impl_sys(m, script))
        for _ in range(3):
            ch = gen_xrestart_chain(rng)
            oracle_xrestart(ctx, ch, impl_xrestart(ch))
        for _ in range(12):
            script = gen_real_script(rng)
            oracle_sys(ctx, script, impl_sys(m, script))
        for _ in range(80):
            a = gen_config(rng)
            kind, b, changed = mutate_config(rng, a)
            case = {"a": a, "b": b, "kind": kind, "changed": changed, "cfg0": rng.choice([None, 65535])}
            oracle_restart(ctx, case, impl_restart(m, case))
        for _ in range(80):
            life = gen_life(rng)
            oracle_life(ctx, life, impl_life(m, life))
    finally:
        ctx.tier = saved


def replay(ctx: Ctx, r):
    m = _mods()
    kind = r["kind"]
    if kind == "name":
        name = "".join(chr(c) for c in r["name"])
        got = impl_names(m, name, r.get("mac", MAC))
        oracle_names(ctx, name, got, r.get("mac", MAC))
        print("display name", repr(name), "->", got)
    elif kind == "txt":
        got = impl_txt(m, r["case"])
        oracle_txt(ctx, r["case"], got)
        print("record", got["props"])
    elif kind == "cfg":
        got = impl_cfg(m, r["case"])
        oracle_cfg(ctx, r["case"], got)
        print("config numbers", got)
    elif kind == "restart":
        got = impl_restart(m, r["case"])
        oracle_restart(ctx, r["case"], got)
        print("restart", r["case"]["kind"], {k: got[k] for k in ("c1", "c2", "adv1", "adv2")}, "hash equal:", got["h1"] == got["h2"])
    elif kind == "values":
        got = impl_values(m, r["case"])
        oracle_values(ctx, r["case"], got)
        print("hash invariant:", all(h == got["h0"] for h in got["hashes"]), "ops", got["applied"])
    elif kind == "xhm":
        got = impl_xhm(m, r["case"])
        oracle_xhm(ctx, r["case"], got)
        print("xhm_uri", got)
    elif kind == "xrestart":
        got = impl_xrestart(r["chain"])
        oracle_xrestart(ctx, r["chain"], got)
        print("starts:", [(x["seed"], x["expect"], o["c"], o["h"][:8]) for x, o in zip(r["chain"]["runs"], got["outs"])])
    elif kind == "life":
        got = impl_life(m, r["life"])
        oracle_life(ctx, r["life"], got)
        print("life:", [(o[0], ob["cfg"], ob["disk_cfg"]) for o, ob in zip(got["model_ops"], got["obs"])])
    elif kind == "sys":
        got = impl_sys(m, r["script"])
        oracle_sys(ctx, r["script"], got)
        print("trace", json.dumps(canon_sys_impl(got)))
    else:
        print("unknown replay kind", kind)
        return 2
    for f in ctx.failures:
        print("FAILS:", f.signature, f.description)
    print("verdict:", "property violated on this input" if ctx.failures else "holds on this input")
    return 1 if ctx.failures else 0
