"""C19 — Malformed or hostile HTTP never wedges or crashes the server.

Byte streams from a structured HTTP generator are fed, in random chunkings, to the real
`HAPServerProtocol.data_received` (fake transport; unverified connection, and plaintext inside a
"verified" session: handler.is_encrypted = True, hap_crypto None).

* Oracle (independent of the Lean model): no exception out of data_received / connection_lost /
  loop callbacks; what was written re-parses (h11 CLIENT) as complete well-formed responses, never
  more than complete requests (reference parse of the same bytes with an h11 SERVER) and exactly as
  many while the connection stays open; an open connection at a message boundary still answers a
  probe; pipelined answers equal the answers to the same requests sent alone (order); a closed
  connection is gone from the registry; a bystander connection and — for streams without
  legitimate writes — the accessory state are untouched.
* Tie: interaction-transcript replay.  Every call the protocol makes on its h11.Connection
  (arguments, result / exception class, our_state/their_state before and after) — also on a parser
  it installs later — and, per dispatch, the outcome of urlparse and of the route handler plus the
  position of the dispatch among the h11 calls are recorded; the model (lean/HapModel/Pump.lean +
  Dispatch.lean) is run against the transcript and must make exactly those calls in that ONE
  interleaved order, write the same bytes, close and unregister at the same points, install the
  session key and schedule finish_pair alike.  The h11 state-machine contract assumed by
  C19_callbacks_* is evaluated on every recorded call.
"""
from __future__ import annotations

import asyncio
import json
import logging
import sys
import time
from typing import Any, Dict, List, Optional, Tuple

import h11

from common import VERIF, Ctx, hx, log, run_model_parallel
from ref import httpc
from props import c03 as base

PROP = "C19"
LEAN_MODULE = "Props.C19"
TRUSTED = [
    "Lean 4.33 kernel; axioms propext, Classical.choice, Quot.sound only (audited by #print axioms)",
    "hand-written models lean/HapModel/Pump.lean (HAPServerProtocol pump) and Dispatch.lean (repaired dispatch); tied "
    "by interaction-transcript replay of every h11 call, urlparse outcome and handler outcome on each generated stream",
    "h11 (0.16) byte-level parsing and response framing: library code, exercised not proved; the data_received theorems quantify "
    "over every h11 behaviour subject only to its documented contract that its methods raise nothing but h11.ProtocolError",
    "C19_callbacks_no_escape / C19_callbacks_one_response (all callbacks incl. the delayed response, all histories) assume h11's "
    "documented connection state machine (H11Contract: per-call relations NextOk/CycleOk/SendOk on our_state/their_state) — "
    "evaluated by the driver on every recorded call of the real h11 in each run — and NoFramingRefusal (h11 refuses a send its "
    "state machine permits only for framing reasons: body on a HEAD/204/304 answer, Content-Length mismatch; counted per run)",
    "asyncio contract: callbacks run to completion on one thread; data_received is never called with b'' nor after "
    "transport.close(); connection_lost once. Handler bodies may raise any Exception subclass (not BaseException)",
    "BaseException subclasses are outside the pump model; exceptions that surface through the event loop's exception handler "
    "(done-callbacks, timers, tasks run for a connection, incl. CancelledError) and calls that do not return are judged by the "
    "harness oracle on the real code (time-limited calls, loop exception handler), not by a theorem",
    "the frame layer (hap_crypto) is C04/C05's: most streams run as plaintext (hap_crypto None) before and inside a session; the "
    "session:* streams complete a real pair-verify and continue encrypted, with the result of each hap_crypto.decrypt() supplied "
    "to the model as an oracle field and the answers decrypted by harness/ref/frames.py",
    "not modelled in the pump: check_idle, queue_event/_send_events (C12/C13's model), write()'s encrypt branch (C05), connection_made",
    "harness/ref/httpc.py (h11 client re-parse, reference request count with an h11 server), generators, canonicalisers",
]

logging.disable(logging.CRITICAL)
PROBE = b"GET /accessories HTTP/1.1\r\nHost: probe\r\n\r\n"


# --------------------------------------------------------------------------- recording


class RecConn:
    """Wraps the protocol's h11.Connection and records every interaction, each with the connection's
    (our_state, their_state) before and after the call (read from the inner object, not recorded as calls):
    the h11 state-machine contract of the model is evaluated on them by the driver."""

    def __init__(self, inner, calls: List[Any]):
        object.__setattr__(self, "_c", inner)
        object.__setattr__(self, "_calls", calls)

    def _st(self):
        return [str(self._c.our_state), str(self._c.their_state)]

    def _rec(self, before, *entry):
        self._calls.append(list(entry) + [{"s": before + self._st()}])

    def receive_data(self, data):
        b = self._st()
        r = self._c.receive_data(data)
        self._rec(b, "receive_data", hx(data))
        return r

    def next_event(self):
        b = self._st()
        try:
            ev = self._c.next_event()
        except h11.RemoteProtocolError:
            self._rec(b, "next_event", {"ev": "RemoteProtocolError"})
            raise
        except h11.LocalProtocolError:
            self._rec(b, "next_event", {"ev": "LocalProtocolError"})
            raise
        except BaseException as ex:  # contract breach of h11: recorded so that the model desyncs
            self._calls.append([f"h11-raised-{type(ex).__name__}"])
            raise
        self._rec(b, "next_event", _ev_json(ev))
        return ev

    def start_next_cycle(self):
        b = self._st()
        try:
            self._c.start_next_cycle()
        except h11.LocalProtocolError:
            self._rec(b, "start_next_cycle", False)
            raise
        self._rec(b, "start_next_cycle", True)

    @property
    def our_state(self):
        b = self._st()
        v = self._c.our_state
        self._rec(b, "our_state", v is h11.MUST_CLOSE)
        return v

    @property
    def trailing_data(self):
        b = self._st()
        v = self._c.trailing_data
        self._rec(b, "trailing_data", bool(v[0]))
        return v

    def send(self, event):
        b = self._st()
        try:
            r = self._c.send(event)
        except h11.LocalProtocolError:
            self._rec(b, "send", _send_json(event), None)
            raise
        except BaseException as ex:
            self._calls.append([f"h11-raised-{type(ex).__name__}"])
            raise
        self._rec(b, "send", _send_json(event), hx(r or b""))
        return r

    def __getattr__(self, name):
        self._calls.append([f"other:{name}"])
        return getattr(self._c, name)


_REC_CLASSES: Dict[Any, Any] = {}


def _recording_class(cls):
    """Subclass of the protocol class whose `conn` attribute is a property: a parser the protocol
    installs later (`self.conn = h11.Connection(...)` in the upgrade step) is wrapped and recorded too."""
    if cls not in _REC_CLASSES:
        def _get(self):
            return self.__dict__["_verif_conn"]

        def _set(self, v):
            if not isinstance(v, RecConn):
                calls = self.__dict__["_verif_calls"]
                calls.append(["fresh", {"s": ["-", "-", str(v.our_state), str(v.their_state)]}])
                v = RecConn(v, calls)
            self.__dict__["_verif_conn"] = v

        _REC_CLASSES[cls] = type("Recorded" + cls.__name__, (cls,), {"conn": property(_get, _set)})
    return _REC_CLASSES[cls]


def _ev_json(ev) -> Dict[str, Any]:
    if ev is h11.NEED_DATA:
        return {"ev": "NEED_DATA"}
    if ev is h11.PAUSED:
        return {"ev": "PAUSED"}
    if type(ev) is h11.Request:
        return {"ev": "Request", "method": hx(ev.method), "target": hx(ev.target),
                "headers": [[hx(k), hx(v)] for k, v in ev.headers]}
    if type(ev) is h11.Data:
        return {"ev": "Data", "data": hx(ev.data)}
    if type(ev) is h11.EndOfMessage:
        return {"ev": "EndOfMessage"}
    if type(ev) is h11.ConnectionClosed:
        return {"ev": "ConnectionClosed"}
    return {"ev": "Other:" + type(ev).__name__}


def _send_json(ev) -> Dict[str, Any]:
    if type(ev) is h11.Response:
        return {"ev": "Response", "status": ev.status_code,
                "headers": [[bytes(k).decode("latin-1"), bytes(v).decode("latin-1")] for k, v in ev.headers]}
    if type(ev) is h11.Data:
        return {"ev": "Data", "data": hx(ev.data)}
    if type(ev) is h11.EndOfMessage:
        return {"ev": "EndOfMessage"}
    if type(ev) is h11.ConnectionClosed:
        return {"ev": "ConnectionClosed"}
    return {"ev": "Other:" + type(ev).__name__}


_CURRENT: List[Optional[Dict[str, Any]]] = [None]  # the dispatch record being filled (one at a time)


def _patch_urlparse(hap_handler):
    """Module-level `urlparse` of hap_handler -> recording wrapper (idempotent)."""
    if getattr(hap_handler.urlparse, "_verif_wrapped", False):
        return
    orig = hap_handler.urlparse

    def urlparse(url, *a, **k):
        rec = _CURRENT[0]
        try:
            r = orig(url, *a, **k)
        except Exception as ex:  # noqa: BLE001
            if rec is not None:
                rec["urlparse"] = {"err": type(ex).__name__}
            raise
        if rec is not None:
            try:
                rec["urlparse"] = {"ok": hx(r.path.encode())}
            except Exception:  # noqa: BLE001
                rec["urlparse"] = {"ok": ""}
        return r

    urlparse._verif_wrapped = True  # type: ignore[attr-defined]
    hap_handler.urlparse = urlparse


def instrument(conn: base.Conn, world: base.World):
    """Record h11 calls, dispatch outcomes and callback boundaries of this connection."""
    p = conn.p
    calls: List[Any] = []
    disp: List[Dict[str, Any]] = []
    cbs: List[Dict[str, Any]] = []
    if "conn" in getattr(p, "__dict__", {}) and not isinstance(getattr(type(p), "conn", None), property):
        inner = p.__dict__.pop("conn")
        p.__dict__["_verif_calls"] = calls
        p.__class__ = _recording_class(type(p))
        p.conn = RecConn(inner, calls)
    else:  # the parser is not a plain instance attribute in this tree: a parser installed later is not followed
        p.conn = RecConn(p.conn, calls)
    hap_handler = world.mods[3]
    _patch_urlparse(hap_handler)
    h = p.handler
    orig_dispatch = h.dispatch

    def dispatch(request, body=None):
        rec: Dict[str, Any] = {"urlparse": None, "handler": None, "is_admin": bool(h.state.is_admin(h.client_uuid)),
                               "escaped": None, "body": hx(body or b""), "h11_pos": len(calls),
                               "target": hx(request.target) if request is not None else None}
        disp.append(rec)
        _CURRENT[0] = rec
        try:
            return orig_dispatch(request, body)
        except BaseException as ex:
            rec["escaped"] = type(ex).__name__
            raise
        finally:
            _CURRENT[0] = None
            # is this connection's controller still paired? (what a session teardown would look at)
            rec["self_gone"] = h.client_uuid is not None and h.client_uuid not in h.state.paired_clients

    h.dispatch = dispatch
    names = {n for paths in hap_handler.HAPServerHandler.HANDLERS.values() for n in paths.values()}
    for name in names:
        orig = getattr(h, name, None)
        if orig is None:
            continue

        def wrapper(orig=orig, name=name):
            rec = _CURRENT[0]
            exn = None
            try:
                return orig()
            except Exception as ex:  # noqa: BLE001
                exn = type(ex).__name__
                raise
            finally:
                r = h.response
                if rec is not None and r is not None:
                    body = r.body if isinstance(r.body, (bytes, bytearray)) else repr(r.body).encode()
                    rec["handler"] = {
                        "name": name,
                        "resp": {"status": r.status_code, "headers": [[str(k), str(v)] for k, v in r.headers],
                                 "body": hx(body), "task": r.task is not None, "shared_key": bool(r.shared_key),
                                 "pairing_changed": bool(r.pairing_changed),
                                 "pairing_removed": bool(getattr(r, "pairing_removed", False))},
                        "exn": exn, "verified_after": bool(h.is_encrypted), "uuid_after": h.client_uuid is not None,
                    }

        setattr(h, name, wrapper)

    # The delayed-response callback is found through PUBLIC behaviour: whatever the protocol registers as a
    # done-callback on the task a response carries (`response.task.add_done_callback(cb)`) is that callback.
    def run_ready(real_cb, task):
        try:
            cb = {"cb": "ready", "ok": hx(task.result())}
        except BaseException as ex:  # noqa: BLE001  (recording only; the real callback runs below regardless)
            cb = {"cb": "ready", "err": type(ex).__name__}
        cbs.append(cb)
        try:
            return real_cb(task)
        except BaseException as ex:  # noqa: BLE001
            cb["escaped"] = type(ex).__name__
            raise
        finally:
            calls.append(["cb_end"])
            cb["writes"] = sum(1 for o in conn.t.ops if o[0] == "write")
            cb["closing"] = conn.t.closed

    class TaskProxy:
        """response.task as the protocol sees it: the real task, except that done-callbacks are recorded"""

        def __init__(self, task):
            self._task = task

        def add_done_callback(self, fn, *a, **k):
            return self._task.add_done_callback(lambda t, fn=fn: run_ready(fn, t), *a, **k)

        def __getattr__(self, name):
            return getattr(self._task, name)

    inner_dispatch = h.dispatch

    def dispatch_with_task(request, body=None):
        resp = inner_dispatch(request, body)
        t = getattr(resp, "task", None)
        if t is not None and not isinstance(t, TaskProxy):
            resp.task = TaskProxy(t)
        return resp

    h.dispatch = dispatch_with_task
    return calls, disp, cbs


# --------------------------------------------------------------------------- reference parse (oracle side)


def reference_requests(stream: bytes) -> Dict[str, Any]:
    """How many complete requests does this byte stream contain, for any HTTP/1.1 server that answers
    each request before reading the next?  (h11 as the reference parser.)"""
    c = h11.Connection(h11.SERVER)
    c.receive_data(stream)
    n, methods, error, must_close, cur = 0, [], None, False, None
    for _ in range(10000):
        try:
            ev = c.next_event()
        except h11.RemoteProtocolError as ex:
            error = str(ex)
            break
        if ev is h11.NEED_DATA:
            break
        if ev is h11.PAUSED:
            try:
                c.start_next_cycle()
            except h11.LocalProtocolError:
                break
            continue
        if type(ev) is h11.Request:
            cur = ev
        elif type(ev) is h11.EndOfMessage:
            n += 1
            methods.append(bytes(cur.method) if cur is not None else b"GET")
            try:
                c.send(h11.Response(status_code=500, headers=[("Content-Length", "0")]))  # never a protocol switch
                c.send(h11.EndOfMessage())
            except h11.LocalProtocolError:
                break
            if c.our_state is h11.MUST_CLOSE:
                must_close = True
                break
        elif type(ev) is h11.ConnectionClosed:
            break
    at_boundary = (
        error is None and not must_close and c.their_state in (h11.IDLE, h11.DONE) and not c.trailing_data[0]
    )
    return {"complete": n, "methods": methods, "error": error, "must_close": must_close, "at_boundary": at_boundary}


# --------------------------------------------------------------------------- generator


def _tok(rng, n):
    return bytes(rng.choice(b"abcdefghijklmnopqrstuvwxyzABCDEFGHIJKLMNOPQRSTUVWXYZ0123456789-_.!#$%&'*+^`|~") for _ in range(n))


def _printable(rng, n):
    return bytes(rng.randrange(0x21, 0x7F) for _ in range(n))


def _chunked(rng, body: bytes, bad: bool) -> bytes:
    out, pos = b"", 0
    while pos < len(body):
        k = rng.randrange(1, 40)
        part = body[pos : pos + k]
        out += (b"%x" % len(part)) + (b";ext=1" if rng.random() < 0.2 else b"") + b"\r\n" + part + b"\r\n"
        pos += k
    if bad:
        return out + rng.choice([b"zz\r\nxx\r\n", b"-1\r\n\r\n", b"5\r\nab\r\n0\r\n\r\n", b"FFFFFFFFFFFFFFFFFFFFFFFF\r\n"])
    return out + b"0\r\n" + (b"X-Trailer: 1\r\n" if rng.random() < 0.2 else b"") + b"\r\n"


WEIRD_TARGETS = [b"//[", b"//[::1", b"http://[/accessories", b"//[/resource", b"*", b"/", b"/accessories?%zz=%",
                 b"/characteristics?id=", b"/characteristics?id=1.1,,x.y", b"/characteristics?id=99.99",
                 b"/characteristics", b"/resource?\xe2\x82\xac", b"/acc\x7fessories", b"/\xff\xfe", b"/a b",
                 b"/pair-setup/../accessories", b"/PAIRINGS", b"http://host]/x", b"/accessories#]"]

HEADER_VALUES = [b"\xff", b"\x80\x81", b"caf\xc3\xa9", b"\xc3\x28", b"\xed\xa0\x80", b"\xf4\x90\x80\x80", b"", b" ",
                 b"a\tb", b"\xe2\x82\xac", b"x" * 300, b"\xc0\xaf", b"\xf0\x9f\x98\x80", b"\xe0\x80\x80"]


def gen_request(rng, world: base.World, verified: bool) -> Tuple[bytes, Dict[str, Any]]:
    """One request (bytes) + labels: complete? legitimately effectful?"""
    routes = base.route_table(world)
    kind = rng.choices(
        ["valid", "junk-body", "target", "header", "method", "version", "framing", "garbage", "repetitive"],
        weights=[30, 10, 15, 20, 6, 5, 10, 4, 12],
    )[0]
    meta = {"kind": kind, "effectful": False}
    if kind == "repetitive":
        raw = repetitive_request(rng, world)
        meta["effectful"] = b"/pair-" in raw.split(b"\r\n", 1)[0] or (verified and raw.startswith((b"PUT ", b"POST ")))
        return raw, meta
    m, p, _h = rng.choice(routes)
    method, target, body, headers, version = m.encode(), p.encode(), b"", [], b"1.1"
    if kind in ("valid", "header", "framing", "version"):
        tb = base.valid_bodies(world, m, p)
        if p == "/pairings":
            # also remove the *other* controller (the base list removes the admin itself, which tears
            # the session down after the response)
            tb = tb + [(p.encode(), httpc.pairings_remove(base.CANARY_USER_ID))]
        target, body = rng.choice(tb)
        # what may legitimately change the accessory / pairing / srp state
        meta["effectful"] = (verified and m in ("PUT", "POST")) or p in ("/pair-setup", "/pair-verify")
    if kind == "junk-body":
        body = rng.choice(base.junk_bodies(rng, 18))
        meta["effectful"] = p in ("/pair-setup", "/pair-verify")
    if kind == "target":
        target = rng.choice(WEIRD_TARGETS + [_printable(rng, rng.choice([1, 3, 20, 200])), b"/" + _printable(rng, 9000)])
        body = b"" if rng.random() < 0.5 else b"{}"
    if kind == "method":
        method = rng.choice([m.lower().encode(), b"HEAD", b"OPTIONS", b"CONNECT", b"DELETE", b"TRACE", _tok(rng, 1),
                             _tok(rng, 40), b"GE T", b"G\xc3\x89T", b""])
    if kind == "header":
        for _ in range(rng.randrange(1, 4)):
            name = rng.choice([b"X-" + _tok(rng, 5), b"Accept", b"User-Agent", b"Authorization", b"Cookie", _tok(rng, 1)])
            val = rng.choice(HEADER_VALUES + [bytes(rng.randrange(0x80, 0x100) for _ in range(rng.randrange(1, 6)))])
            headers.append((name, val))
        if rng.random() < 0.2:
            headers.append((b"X-Fold", b"a\r\n b"))
        if rng.random() < 0.1:
            headers += [(b"X-%d" % i, b"v") for i in range(rng.choice([50, 120]))]
        if rng.random() < 0.1:
            headers.append((b"Bad Name", b"v"))
    if kind == "version":
        version = rng.choice([b"1.0", b"1.0", b"2.0", b"1.1 ", b"0.9", b"x"])
        if rng.random() < 0.3:
            headers.append((b"Connection", rng.choice([b"keep-alive", b"close"])))
    hs = [(b"Host", b"hap.local")] if not (kind == "framing" and rng.random() < 0.1) else []
    hs += headers
    payload = body
    if kind == "framing":
        f = rng.choice(["chunked", "chunked-bad", "cl-dup", "cl-diff", "cl-bad", "cl-short", "cl-long", "te-other",
                        "expect", "upgrade", "close", "cl+te"])
        meta["framing"] = f
        if f in ("chunked", "chunked-bad"):
            hs.append((b"Transfer-Encoding", b"chunked"))
            payload = _chunked(rng, body, f == "chunked-bad")
        elif f == "cl-dup":
            hs += [(b"Content-Length", str(len(body)).encode())] * 2
        elif f == "cl-diff":
            hs += [(b"Content-Length", str(len(body)).encode()), (b"Content-Length", str(len(body) + 1).encode())]
        elif f == "cl-bad":
            hs.append((b"Content-Length", rng.choice([b"-1", b"abc", b"1e3", b"", b"99999999999999999999999", b"0x10"])))
        elif f == "cl-short":
            hs.append((b"Content-Length", str(max(0, len(body) - 1)).encode()))
        elif f == "cl-long":
            hs.append((b"Content-Length", str(len(body) + rng.randrange(1, 50)).encode()))
        elif f == "te-other":
            hs.append((b"Transfer-Encoding", rng.choice([b"gzip", b"chunked, gzip", b"identity"])))
        elif f == "expect":
            hs += [(b"Expect", b"100-continue"), (b"Content-Length", str(len(body)).encode())]
        elif f == "upgrade":
            hs += [(b"Upgrade", b"websocket"), (b"Connection", b"upgrade"), (b"Content-Length", str(len(body)).encode())]
        elif f == "close":
            hs += [(b"Connection", b"close"), (b"Content-Length", str(len(body)).encode())]
        elif f == "cl+te":
            hs += [(b"Content-Length", str(len(body)).encode()), (b"Transfer-Encoding", b"chunked")]
            payload = _chunked(rng, body, False)
    elif body or method in (b"POST", b"PUT"):
        hs.append((b"Content-Length", str(len(body)).encode()))
    if kind == "garbage":
        raw = rng.choice([b"\r\n\r\n", b"\x00\x01\x02", bytes(rng.randrange(256) for _ in range(rng.randrange(1, 80))),
                          b"GET\r\n\r\n", b"GET / HTTP/1.1\r\n" + b"X: " + b"a" * 70000 + b"\r\n\r\n", b"\x16\x03\x01\x02\x00\x01",
                          b"GET / HTTP/1.1\nHost: x\n\n", b" GET / HTTP/1.1\r\nHost: x\r\n\r\n"])
        return raw, meta
    raw = method + b" " + target + b" HTTP/" + version + b"\r\n" + b"".join(k + b": " + v + b"\r\n" for k, v in hs) + b"\r\n" + payload
    return raw, meta


# --------------------------------------------------------------------------- long repetitive structure
# Time is an observable of the pump: every callback must RETURN (base.guarded turns a call that does not
# into C19:callback-does-not-return).  Inputs whose cost can be super-linear in their length are short
# strings with long repetitive structure: runs of one separator, alternating separator/digit groups,
# nesting, and a final character that makes an almost-match fail.  All are far below h11's size limits.


def _rep_pieces(rng) -> Tuple[bytes, bytes]:
    """(unit, spoiler): the unit is repeated, the spoiler appended"""
    unit = rng.choice([b".111", b".1", b"1.", b",", b"1,", b"1.1,", b",1.1", b"11", b"1.1,,", b".", b"%31", b"%2C", b"1.1%2c",
                       b"a=b&", b"&", b"=", b";", b"id=1.1&", b"+", b" ", b"\t", b"a.", b"-1", b"0", b"1e", b"/", b"../", b"?", b"((", b"[]",
                       b"1.1\x00,", b"\xc3\xa9", b"a,", b"aa", b"ab"])
    spoiler = rng.choice([b"", b"x", b"!", b".", b",", b" ", b"\xff", b"1", b"-", b"%", b"&"])
    return unit, spoiler


def repetitive_value(rng, budget: int = 2500) -> bytes:
    unit, spoiler = _rep_pieces(rng)
    n = rng.choice([20, 30, 45, 60, 120, 400, 1000])
    n = max(1, min(n, budget // len(unit)))
    head = rng.choice([b"", b"1", b"1.1", b"a", b"0"])
    return head + unit * n + spoiler


def repetitive_json(rng) -> bytes:
    k = rng.choice(["deep-list", "deep-obj", "digits", "backslashes", "many-items", "exp", "spaces", "nested-chars", "long-key", "commas"])
    n = rng.choice([30, 200, 1500])
    if k == "deep-list":
        return b"[" * n + b"]" * rng.choice([0, n])
    if k == "deep-obj":
        return b'{"a":' * n + b"1" + b"}" * rng.choice([0, n])
    if k == "digits":
        return b'{"characteristics":[{"aid":1,"iid":' + b"9" * (n * 3) + b',"value":' + b"1" * n + b"}]}"
    if k == "backslashes":
        return b'{"a":"' + b"\\" * n + rng.choice([b'"}', b""])
    if k == "many-items":
        return b'{"characteristics":[' + b",".join([b'{"aid":1,"iid":9,"value":1}'] * min(n, 400)) + b"]}"
    if k == "exp":
        return b'{"ttl":1e' + b"9" * n + b',"pid":1' + b"0" * n + b"}"
    if k == "spaces":
        return b"{" + b" \t\r\n" * n + rng.choice([b"}", b"x"])
    if k == "nested-chars":
        return b'{"characteristics":' + b'[{"characteristics":' * min(n, 300) + b"[]" + b"}]" * min(n, 300) + b"}"
    if k == "long-key":
        return b'{"' + b"ab" * n + b'":' + b"[" * 3
    return b"[" + b"," * n + b"]"


def repetitive_tlv(rng) -> bytes:
    k = rng.choice(["same-tag", "zero-len", "fragments", "ff-run"])
    n = rng.choice([20, 100, 300])
    if k == "same-tag":
        return b"\x06\x01\x01" * n
    if k == "zero-len":
        return b"\x01\x00" * n + b"\x06"
    if k == "fragments":
        return (b"\x03\xff" + b"\x11" * 255) * min(n, 12) + b"\x03\x01"
    return b"\xff" * n


def repetitive_request(rng, world: base.World) -> bytes:
    """One complete request with long repetitive structure in its query string, path, a header value or its body."""
    routes = base.route_table(world)
    m, p, _h = rng.choice(routes + [("GET", "/characteristics", "")] * 4)
    where = rng.choice(["query-id", "query-id", "query-id", "query", "path", "header", "body-json", "body-tlv"])
    method, target, body, headers = m.encode(), p.encode(), b"", []
    if where == "query-id":
        target = p.encode() + b"?id=" + repetitive_value(rng) + rng.choice([b"", b"&meta=1", b"&ev=1&perms=1"])
    elif where == "query":
        target = p.encode() + b"?" + repetitive_value(rng)
    elif where == "path":
        target = rng.choice([p.encode(), b"/", b"//"]) + repetitive_value(rng)
    elif where == "header":
        name = rng.choice([b"Accept", b"Cookie", b"Authorization", b"Content-Type", b"User-Agent", b"X-Forwarded-For", b"Connection"])
        headers.append((name, repetitive_value(rng).replace(b"\x00", b"").strip() or b"a"))
    elif where == "body-json":
        method, target = rng.choice([(b"PUT", b"/characteristics"), (b"PUT", b"/prepare"), (b"POST", b"/resource")])
        body = repetitive_json(rng)
    else:
        method, target = b"POST", rng.choice([b"/pair-setup", b"/pair-verify", b"/pairings"])
        body = repetitive_tlv(rng)
    target = bytes(c for c in target if 0x21 <= c <= 0x7E or c >= 0x80) or b"/"
    hs = [(b"Host", b"hap.local")] + headers
    if body or method in (b"POST", b"PUT"):
        hs.append((b"Content-Length", str(len(body)).encode()))
    return method + b" " + target + b" HTTP/1.1\r\n" + b"".join(k + b": " + v + b"\r\n" for k, v in hs) + b"\r\n" + body


def repetitive_boundary() -> List[Tuple[List[bytes], str]]:
    """The shapes named by the anchors (id lists), always run: digit groups joined by dots only / commas only /
    mixed, with and without a final character that spoils an almost-match."""
    g = lambda t: b"GET " + t + b" HTTP/1.1\r\nHost: x\r\n\r\n"  # noqa: E731
    ids = [
        (b"1" + b".111" * 60 + b"x", "60 dotted digit groups then x"),
        (b"1" + b".111" * 60, "60 dotted digit groups"),
        (b"1.1" + b",1.1" * 300 + b"!", "300 ids then !"),
        (b"1.1," * 300, "300 ids, trailing comma"),
        (b"1" * 2000 + b".1", "2000-digit aid"),
        (b"1." + b"1" * 2000 + b"x", "2000-digit iid then x"),
        (b"," * 1500, "1500 commas"),
        (b"." * 1500, "1500 dots"),
        (b"1.1" + b",," * 500 + b"x", "comma pairs then x"),
        (b"1.1" + b"%2C1.1" * 200 + b"%", "percent-encoded commas then %"),
        (b"1" + b" 1" * 40 + b"x", "digits joined by spaces (+)".replace(" (+)", "")),
    ]
    out = [([g(b"/characteristics?id=" + v.replace(b" ", b"+"))], "id list: " + label) for v, label in ids]
    # the same almost-matching shapes at every place a handler or the dispatcher may look at
    for unit, spoil in [(b".111", b"x"), (b"1.1,", b"!"), (b"a=b&", b"!"), (b"a,", b"!"), (b"aa", b"!"), (b"a.", b"!"),
                        (b"../", b"!"), (b"a;", b"!"), (b"%41", b"%")]:
        v = unit * 40 + spoil
        lab = f"40 x {unit.decode()} then {spoil.decode()}"
        out.append(([g(b"/accessories?" + v)], "query: " + lab))
        out.append(([g(b"/characteristics?id=1.1&x=" + v)], "query parameter: " + lab))
        out.append(([g(b"/" + v)], "path: " + lab))
        out.append(([b"GET /accessories HTTP/1.1\r\nHost: x\r\nAccept: " + v + b"\r\nCookie: " + v + b"\r\nUser-Agent: " + v + b"\r\n\r\n"],
                    "header values: " + lab))
    out.append(([g(b"/characteristics?" + b"id=1.1&" * 300)], "300 id parameters"))
    out.append(([g(b"/accessories?" + b"a" * 30 + b"=" * 1500)], "1500 equal signs"))
    return out


def boundary_streams(world: base.World) -> List[Tuple[List[bytes], str]]:
    """Deterministic cases named by the property's anchors, always run first."""
    g = lambda t, extra=b"": b"GET " + t + b" HTTP/1.1\r\nHost: x\r\n" + extra + b"\r\n"  # noqa: E731
    acc = g(b"/accessories")
    return [
        ([g(b"/accessories", b"X-Bin: \xff\r\n")], "header value 0xff"),
        ([g(b"//[")], "target //["),
        ([g(b"/accessories", b"X-Bin: \xff\r\n") + acc], "0xff then a good request"),
        ([acc + g(b"//[") + acc], "good, //[, good (pipelined)"),
        ([acc + acc + acc], "three pipelined"),
        ([b"HEAD /accessories HTTP/1.1\r\nHost: x\r\n\r\n" + acc], "HEAD then GET"),
        ([b"GET /accessories HTTP/1.0\r\n\r\n" + acc], "HTTP/1.0 then GET"),
        ([g(b"/accessories", b"Connection: close\r\n") + acc], "Connection: close then GET"),
        ([acc[:10], acc[10:]], "split request line"),
        ([bytes([b]) for b in acc], "byte by byte"),
        ([b"POST /resource HTTP/1.1\r\nHost: x\r\nContent-Length: 2\r\n\r\n{}" + acc], "resource then GET (pipelined)"),
        ([b"POST /resource HTTP/1.1\r\nHost: x\r\nUpgrade: x\r\nConnection: upgrade\r\nContent-Length: 2\r\n\r\n{}"], "resource with Upgrade"),
        ([b"PUT /characteristics HTTP/1.1\r\nHost: x\r\nTransfer-Encoding: chunked\r\n\r\n2\r\n{}\r\n0\r\n\r\n" + acc], "chunked then GET"),
        ([b"GET / HTTP/1.1\r\nHost: x\r\nContent-Length: 5\r\nContent-Length: 6\r\n\r\nhello" + acc], "conflicting lengths"),
        ([b"\x16\x03\x01\x02\x00\x01\x00\x01\xfc\x03\x03"], "TLS hello"),
        ([g(b"/" + b"a" * 70000)], "oversized request line"),
        ([g(b"/accessories", b"Expect: 100-continue\r\n")], "Expect: 100-continue"),
        ([httpc.http_request(b"POST", b"/pairings", httpc.pairings_remove(base.CANARY_CTRL_ID)) + acc],
         "remove own pairing then GET (pipelined)"),
    ] + repetitive_boundary() + [
        ([httpc.http_request(b"POST", path, tlv) + acc], f"{path.decode()} with TLV {tlv.hex()} then GET")
        for path in (b"/pair-setup", b"/pair-verify", b"/pairings")
        for tlv in (b"\x06", b"\x06\x01\x01\x00", b"\x06\x01\x03\x05", b"\x06\x01\x01\x03\xff\x01\x02", b"\x00\x01\x05\x06")
    ]


def gen_stream(rng, world: base.World, verified: bool) -> Tuple[List[bytes], Dict[str, Any]]:
    n = rng.choice([1, 1, 2, 2, 3, 5])
    reqs = [gen_request(rng, world, verified) for _ in range(n)]
    stream = b"".join(r for r, _ in reqs)
    meta = {"kinds": [m["kind"] for _, m in reqs], "effectful": any(m["effectful"] for _, m in reqs),
            "requests": [r for r, _ in reqs]}
    if rng.random() < 0.12 and len(stream) > 2:
        stream = stream[: rng.randrange(1, len(stream))]
        meta["truncated"] = True
    if rng.random() < 0.05:
        stream += bytes(rng.randrange(256) for _ in range(rng.randrange(1, 30)))
        meta["trailing_garbage"] = True
    mode = rng.random()
    if mode < 0.4 or len(stream) < 2:
        chunks = [stream]
    elif mode < 0.9:
        cuts = sorted({rng.randrange(1, len(stream)) for _ in range(rng.randrange(1, 6))})
        chunks = [stream[a:b] for a, b in zip([0] + cuts, cuts + [len(stream)])]
    else:
        chunks = [stream[i : i + 1] for i in range(min(len(stream), 400))] + ([stream[400:]] if len(stream) > 400 else [])
    return [c for c in chunks if c], meta


# --------------------------------------------------------------------------- one run on the real code


def run_stream(world: base.World, chunks: List[bytes], verified: bool, with_uuid: bool, record: bool = True,
               probe: bool = True) -> Dict[str, Any]:
    """Feed the chunks to a fresh connection of `world`; observe everything the oracle needs."""
    loop_errors = world.loop_errors  # what the loop reports for callbacks / tasks it runs for the connections
    bystander = world.connect()
    by_before = (list(bystander.t.ops), bystander.t.closed)
    conn = world.connect()
    if verified:
        conn.p.handler.is_encrypted = True
        if with_uuid:  # True / "admin": the paired admin; "user": the paired non-admin controller
            import uuid

            ident = base.CANARY_USER_ID if with_uuid == "user" else base.CANARY_CTRL_ID
            conn.p.handler.client_uuid = uuid.UUID(ident.decode())
    calls, disp, cbs = instrument(conn, world) if record else ([], [], [])
    digest0 = world.digest()
    fp0 = world.finish_pair_calls
    escaped: List[Tuple[str, str]] = []
    hung: List[str] = []
    fed = b""
    for ch in chunks:
        if conn.t.closed:
            break  # asyncio delivers nothing after transport.close()
        cb = {"cb": "data", "data": hx(ch)}
        cbs.append(cb)
        fed += ch
        exc, hung_now = base.guarded(conn.p.data_received, ch)
        if exc:
            cb["escaped"] = exc
            escaped.append(("data_received", exc))
        calls.append(["cb_end"])
        cb["writes"] = sum(1 for o in conn.t.ops if o[0] == "write")
        cb["closing"] = conn.t.closed
        if hung_now:
            hung.append("data_received")
            break
        world.drain()
        if cb.get("escaped"):
            break  # a real transport is torn down by the loop after a callback raised
    for cb in cbs:
        if cb["cb"] == "ready" and cb.get("escaped"):
            escaped.append(("response-ready callback", cb["escaped"]))
    ref = reference_requests(fed)
    written = b"".join(o[1] for o in conn.t.ops if o[0] == "write")
    resps, trailing = httpc.parse_responses(written, ref["methods"], eof=conn.t.closed)
    obs: Dict[str, Any] = {
        "fed": fed, "ref": ref, "written": written, "responses": resps, "trailing": trailing, "closed": conn.t.closed,
        "escaped": escaped, "registered": conn.p in world.connections.values(),
        "ops": [[o[0]] + ([hx(o[1])] if o[0] == "write" else []) for o in conn.t.ops],
    }
    # still answering? (only meaningful if the peer is at a message boundary and nothing escaped)
    obs["probe"] = None
    if probe and not conn.t.closed and not escaped and not hung and ref["at_boundary"] and len(resps) == ref["complete"]:
        n0 = len(conn.t.ops)
        cb = {"cb": "data", "data": hx(PROBE)}
        cbs.append(cb)
        exc, hung_now = base.guarded(conn.p.data_received, PROBE)
        if hung_now:
            hung.append("data_received(probe)")
        if exc:
            cb["escaped"] = exc
            escaped.append(("data_received(probe)", exc))
        calls.append(["cb_end"])
        cb["writes"] = sum(1 for o in conn.t.ops if o[0] == "write")
        cb["closing"] = conn.t.closed
        world.drain()
        pw = b"".join(o[1] for o in conn.t.ops[n0:] if o[0] == "write")
        pr, ptrail = httpc.parse_responses(pw, [b"GET"], eof=conn.t.closed)
        obs["probe"] = {"responses": len(pr), "trailing": ptrail, "closed": conn.t.closed}
    # the peer goes away
    cbs.append({"cb": "lost"})
    exc, hung_now = base.guarded(conn.p.connection_lost, None)
    if hung_now:
        hung.append("connection_lost")
    if exc:
        cbs[-1]["escaped"] = exc
        escaped.append(("connection_lost", exc))
    calls.append(["cb_end"])
    cbs[-1]["writes"] = sum(1 for o in conn.t.ops if o[0] == "write")
    cbs[-1]["closing"] = conn.t.closed
    world.drain()
    if world.hung:
        hung.append(world.hung)
    obs["hung"] = hung
    obs["registered_after_lost"] = conn.p in world.connections.values()
    obs["loop_errors"] = list(loop_errors)
    # (snapshot callbacks are C03's observable, not accessory state)
    obs["digest_changed"] = [k for k, v in world.digest().items() if digest0[k] != v and k != "snapshot_calls"]
    # the bystander: untouched and alive
    obs["bystander_touched"] = (list(bystander.t.ops), bystander.t.closed) != by_before or bystander.p not in world.connections.values()
    r = bystander.send(PROBE, b"GET")
    obs["bystander_answers"] = len(r["responses"]) == 1 and not r["escaped"]
    obs["final_ops"] = [[o[0]] + ([hx(o[1])] if o[0] == "write" else []) for o in conn.t.ops]
    obs["transcript"] = {"h11": calls, "disp": disp, "callbacks": cbs}
    obs["encrypted"] = conn.p.hap_crypto is not None
    obs["finish_pair"] = world.finish_pair_calls - fp0
    return obs


def solo_answers(world_args, requests: List[bytes], verified: bool, with_uuid: bool) -> Optional[List[Tuple[int, bytes]]]:
    """Answers to the same requests sent alone, each on its own fresh connection of a fresh world."""
    out = []
    for rq in requests:
        w = base.World(*world_args)
        try:
            o = run_stream(w, [rq], verified, with_uuid, record=False, probe=False)
        finally:
            w.close()
        if len(o["responses"]) != 1 or o["escaped"]:
            return None
        out.append((o["responses"][0].status, o["responses"][0].body))
    return out


# --------------------------------------------------------------------------- several connections at once

PEERS = [("10.2.0.%d" % k, 7000 + k) for k in range(3)]


def _set_session(conn: base.Conn, verified: bool, with_uuid):
    if verified:
        conn.p.handler.is_encrypted = True
        if with_uuid:
            import uuid

            ident = base.CANARY_USER_ID if with_uuid == "user" else base.CANARY_CTRL_ID
            conn.p.handler.client_uuid = uuid.UUID(ident.decode())


def _state_digest(world: base.World) -> Dict[str, Any]:
    d = world.digest()
    d.pop("snapshot_calls", None)
    return json.loads(json.dumps(d))  # canonical JSON shapes (tuples -> lists) so that digests compare


def run_multi(world_args, specs: List[Optional[Dict[str, Any]]], schedule: List[int], record: bool = True) -> Dict[str, Any]:
    """Open one real HAPServerProtocol per non-None spec (slot k always gets peer PEERS[k]) on ONE
    driver / registry and deliver the chunks in `schedule` order (an index = that connection's
    next chunk)."""
    world = base.World(*world_args)
    try:
        loop_errors = world.loop_errors
        hung: List[str] = []
        conns: Dict[int, base.Conn] = {}
        rec: Dict[int, Any] = {}
        for k, sp in enumerate(specs):
            if sp is None:
                continue
            c = base.Conn(world, PEERS[k])
            _set_session(c, sp["verified"], sp.get("with_uuid"))
            conns[k] = c
            rec[k] = instrument(c, world) if record else ([], [], [])
        digest0 = _state_digest(world)
        pos = {k: 0 for k in conns}
        fed = {k: b"" for k in conns}
        escaped: Dict[int, List[Tuple[str, str]]] = {k: [] for k in conns}
        for k in schedule:
            if k not in conns:
                continue
            c, sp = conns[k], specs[k]
            if pos[k] >= len(sp["chunks"]):
                continue
            ch = sp["chunks"][pos[k]]
            pos[k] += 1
            if c.t.closed or escaped[k]:
                continue
            calls, _disp, cbs = rec[k]
            cb = {"cb": "data", "data": hx(ch)}
            cbs.append(cb)
            fed[k] += ch
            exc, hung_now = base.guarded(c.p.data_received, ch)
            if exc:
                cb["escaped"] = exc
                escaped[k].append(("data_received", exc))
            calls.append(["cb_end"])
            cb["writes"] = sum(1 for o in c.t.ops if o[0] == "write")
            cb["closing"] = c.t.closed
            if hung_now:
                hung.append(f"data_received of connection {k}")
                break
            world.drain()
        digest1 = _state_digest(world)
        per: Dict[int, Dict[str, Any]] = {}
        for k, c in conns.items():
            ref = reference_requests(fed[k])
            written = b"".join(o[1] for o in c.t.ops if o[0] == "write")
            resps, trailing = httpc.parse_responses(written, ref["methods"], eof=c.t.closed)
            per[k] = {"responses": resps, "trailing": trailing, "closed": c.t.closed, "escaped": escaped[k],
                      "registered": c.p in world.connections.values(), "ref": ref}
        for k, c in conns.items():
            calls, _disp, cbs = rec[k]
            cbs.append({"cb": "lost"})
            exc, hung_now = base.guarded(c.p.connection_lost, None)
            if hung_now:
                hung.append(f"connection_lost of connection {k}")
            if exc:
                cbs[-1]["escaped"] = exc
                escaped[k].append(("connection_lost", exc))
            calls.append(["cb_end"])
            cbs[-1]["writes"] = sum(1 for o in c.t.ops if o[0] == "write")
            cbs[-1]["closing"] = c.t.closed
            world.drain()
        for k, c in conns.items():
            calls, disp, cbs = rec[k]
            per[k]["registered_after_lost"] = c.p in world.connections.values()
            per[k]["final_ops"] = [[o[0]] + ([hx(o[1])] if o[0] == "write" else []) for o in c.t.ops]
            per[k]["transcript"] = {"h11": calls, "disp": disp, "callbacks": cbs}
        return {"per": per, "digest0": digest0, "digest1": digest1, "loop_errors": list(loop_errors),
                "hung": hung + ([world.hung] if world.hung else [])}
    finally:
        world.close()


def _merge_expected(base_d: Dict[str, Any], solos: List[Dict[str, Any]]) -> Optional[Dict[str, Any]]:
    """The state obtained by applying each connection's own effect to the initial state.
    None if two connections' own effects conflict (the generator avoids that)."""
    exp = json.loads(json.dumps(base_d))
    for section, b in base_d.items():
        keys = set(b) | {k for s_ in solos for k in s_[section]}
        for key in keys:
            b0 = b.get(key)
            changed = [s_[section].get(key) for s_ in solos if s_[section].get(key) != b0]
            if not changed:
                continue
            if isinstance(b0, list) or any(isinstance(x, list) for x in changed):
                cur = set(map(json.dumps, b0 or []))
                for x in changed:
                    xs = set(map(json.dumps, x or []))
                    cur = (cur | (xs - set(map(json.dumps, b0 or [])))) - (set(map(json.dumps, b0 or [])) - xs)
                if cur:
                    exp[section][key] = sorted(json.loads(x) for x in cur)
                else:
                    exp[section].pop(key, None)
            else:
                if any(x != changed[0] for x in changed):
                    return None
                if changed[0] is None:
                    exp[section].pop(key, None)
                else:
                    exp[section][key] = changed[0]
    return exp


def judge_multi(ctx: Ctx, wa, specs, schedule, out: Dict[str, Any], replay: Dict[str, Any]):
    """Each connection must get exactly what it gets when its stream is fed alone to a fresh
    identical world; the accessory must end in the state produced by each connection's own
    complete requests."""
    problems: List[Tuple[str, str]] = []
    solos: Dict[int, Dict[str, Any]] = {}
    for k, sp in enumerate(specs):
        if sp is None:
            continue
        alone = [sp if i == k else None for i in range(len(specs))]
        solos[k] = run_multi(wa, alone, [k] * len(sp["chunks"]), record=False)
    for k, o in out["per"].items():
        role = "verified" if specs[k]["verified"] else "unverified"
        for where, cls in o["escaped"]:
            problems.append((f"C19:exception-escapes-callback:{cls}", f"{cls} propagates out of {where} of connection {k} ({role})"))
        if o["trailing"]:
            problems.append(("C19:malformed-response", f"connection {k}: {o['trailing']}"))
        so = solos[k]["per"][k]
        got = [(r.status, r.body) for r in o["responses"]]
        want = [(r.status, r.body) for r in so["responses"]]
        if got != want or o["closed"] != so["closed"]:
            problems.append((
                "C19:connection-affected-by-another-connection",
                f"connection {k} ({role}) got statuses {[s_ for s_, _ in got]} closed={o['closed']} while other connections were "
                f"talking, but {[s_ for s_, _ in want]} closed={so['closed']} for the same bytes alone",
            ))
        if o["closed"] and o["registered"]:
            problems.append(("C19:closed-connection-still-registered", f"connection {k} closed but still registered"))
    for where in out.get("hung", []):
        problems.insert(0, ("C19:callback-does-not-return", f"{where} did not return"))
    for cls, msg in out["loop_errors"]:
        if cls not in ("KeyboardInterrupt", "SystemExit"):
            problems.append((f"C19:exception-escapes-callback:{cls}", f"the event loop reported {cls}: {msg[:160]}"))
    exp = _merge_expected(out["digest0"], [solos[k]["digest1"] for k in sorted(solos)])
    if exp is not None and exp != out["digest1"]:
        diff = [f"{sec}.{key}: {out['digest1'][sec].get(key)!r} (own requests give {exp[sec].get(key)!r})"
                for sec in exp for key in set(exp[sec]) | set(out["digest1"][sec]) if exp[sec].get(key) != out["digest1"][sec].get(key)]
        problems.append(("C19:accessory-state-from-foreign-bytes",
                         "accessory state differs from what each connection's own complete requests produce: " + "; ".join(diff[:4])))
    if problems and not any(f.signature == problems[0][0] for f in ctx.failures):
        ctx.fail(problems[0][0], "; ".join(d for _, d in problems[:4]) + f" [{replay.get('label')}]", replay)
    return problems


def _split(rng, raw: bytes, style: str) -> List[bytes]:
    """Cut one request into TCP segments."""
    hdr_end = raw.find(b"\r\n\r\n")
    cuts = set()
    if style in ("head|body", "head|body|body") and 0 < hdr_end + 4 < len(raw):
        cuts.add(hdr_end + 4)
    if style in ("body", "head|body|body") and hdr_end + 5 < len(raw):
        cuts.add(rng.randrange(hdr_end + 5, len(raw)))
    if style == "headers" and hdr_end > 2:
        cuts.add(rng.randrange(1, hdr_end))
    if style == "random" and len(raw) > 2:
        cuts |= {rng.randrange(1, len(raw)) for _ in range(rng.randrange(1, 4))}
    cs = sorted(cuts)
    return [c for c in (raw[a:b] for a, b in zip([0] + cs, cs + [len(raw)])) if c]


def _put(rng, body: bytes, chunked: bool, declared: Optional[int] = None) -> bytes:
    head = b"PUT /characteristics HTTP/1.1\r\nHost: hap.local\r\nContent-Type: application/hap+json\r\n"
    if chunked:
        return head + b"Transfer-Encoding: chunked\r\n\r\n" + _chunked(rng, body, False)
    return head + b"Content-Length: " + str(len(body) if declared is None else declared).encode() + b"\r\n\r\n" + body


def _brightness_iid(world: base.World) -> int:
    for acc in world.accessories():
        for sv in acc.services:
            if sv.display_name == "Lightbulb":
                return acc.iid_manager.get_iid(sv.get_characteristic("Brightness"))
    raise RuntimeError("no Lightbulb")


def gen_multi(rng, world: base.World) -> Tuple[List[Dict[str, Any]], List[int], str]:
    """2-3 connections; each verified one owns one characteristic and only writes / subscribes that
    one with its own values, so the connections' effects are independent by construction."""
    aid, on_iid = world.writable()
    bright_iid = _brightness_iid(world)
    owned = {0: ("Brightness", bright_iid, [11, 12, 13, 14]), 1: ("On", on_iid, [False, True, False, False])}
    serial = world.char_ids()[3]
    n = rng.choice([2, 2, 3])
    ver = [rng.random() < 0.6 and k < 2 for k in range(n)]  # slot 2 has no characteristic of its own: unverified
    if not any(ver) and rng.random() < 0.9:
        ver[rng.randrange(2)] = True
    specs = []
    for k in range(n):
        reqs: List[bytes] = []
        if ver[k]:
            _name, iid, vals = owned[k]
            for j in range(rng.choice([1, 1, 2, 3])):
                what = rng.choice(["write", "write", "subscribe", "write+ev", "read"])
                if what == "read":
                    reqs.append(b"GET /characteristics?id=%d.%d HTTP/1.1\r\nHost: hap.local\r\n\r\n" % serial)
                    continue
                item: Dict[str, Any] = {"aid": aid, "iid": iid}
                if what in ("write", "write+ev"):
                    item["value"] = vals[j]
                if what in ("subscribe", "write+ev"):
                    item["ev"] = True
                body = json.dumps({"characteristics": [item]}).encode()
                reqs.append(_put(rng, body, rng.random() < 0.3))
        else:
            for j in range(rng.choice([1, 1, 2, 3])):
                what = rng.choice(["hostile-write", "hostile-write", "truncated-write", "get", "other"])
                tgt_iid, hostile = rng.choice([(bright_iid, 99), (on_iid, True), (on_iid, False), (bright_iid, 1)])
                hb = json.dumps({"characteristics": [{"aid": aid, "iid": tgt_iid, "value": hostile, "ev": True}]}).encode()
                if what == "hostile-write":
                    reqs.append(_put(rng, hb, rng.random() < 0.3))
                elif what == "truncated-write":
                    reqs.append(_put(rng, hb[: rng.randrange(1, len(hb))] if rng.random() < 0.5 else hb + b",", False, declared=4096))
                    break  # nothing can follow an incomplete body
                elif what == "get":
                    reqs.append(b"GET /accessories HTTP/1.1\r\nHost: hap.local\r\n\r\n")
                else:
                    for _ in range(20):
                        raw, _m = gen_request(rng, world, False)
                        if b"/pair-" not in raw and len(raw) < 3000:
                            reqs.append(raw)
                            break
        chunks: List[bytes] = []
        for rq in reqs:
            chunks += _split(rng, rq, rng.choice(["head|body", "head|body", "body", "head|body|body", "headers", "random", "whole"]))
        specs.append({"verified": ver[k], "with_uuid": "admin" if ver[k] else False, "chunks": chunks})
    schedule = [k for k, sp in enumerate(specs) for _ in sp["chunks"]]
    rng.shuffle(schedule)
    label = "multi:" + "+".join("V" if v else "u" for v in ver)
    return specs, schedule, label


def boundary_multi(world: base.World) -> List[Tuple[List[Dict[str, Any]], List[int], str]]:
    """A verified controller whose PUT arrives in two segments, an unverified peer in between."""
    aid, on_iid = world.writable()
    body_a = json.dumps({"characteristics": [{"aid": aid, "iid": on_iid, "ev": True}]}).encode()
    cut = body_a.index(b"[") + 1
    head = lambda n: b"PUT /characteristics HTTP/1.1\r\nHost: x\r\nContent-Length: " + str(n).encode() + b"\r\n\r\n"  # noqa: E731
    b_write = json.dumps({"aid": aid, "iid": on_iid, "value": False}).encode()
    b_full = b'{"characteristics":[' + b_write + b"]}"
    b_own = json.dumps({"characteristics": [{"aid": aid, "iid": _brightness_iid(world), "value": 42}]}).encode()  # Brightness
    A = lambda chunks: {"verified": True, "with_uuid": "admin", "chunks": chunks}  # noqa: E731
    B = lambda chunks: {"verified": False, "with_uuid": False, "chunks": chunks}  # noqa: E731
    return [
        ([A([head(len(body_a)), body_a]), B([head(4096) + b'{"characteristics":[' + b_write + b'],"x":'])], [0, 1, 0],
         "multi: peer's partial body before the controller's body"),
        ([A([head(len(body_a)) + body_a[:cut], body_a[cut:]]), B([head(len(b_full)) + b_full])], [0, 1, 0],
         "multi: peer's complete request between two segments of the controller's body"),
        ([A([head(len(body_a)) + body_a[:cut], body_a[cut:]]), B([head(4096), b_write + b","])], [1, 0, 1, 0],
         "multi: peer's body bytes between two segments of the controller's body"),
        ([A([head(len(body_a)), body_a]), A([head(len(b_own)), b_own])], [0, 1, 0, 1],
         "multi: two controllers, heads then bodies"),
    ]


def run_multi_cases(ctx: Ctx, n_random: int, lines, metas, obss):
    st = ctx.stats
    rng = ctx.rng
    probe_world = base.World(True, "sync")
    try:
        todo = [((True, "sync"), sp, sch, label) for sp, sch, label in boundary_multi(probe_world)]
        for _ in range(n_random):
            sp, sch, label = gen_multi(rng, probe_world)
            todo.append(((True, "sync"), sp, sch, label))
    finally:
        probe_world.close()
    for wa, specs, schedule, label in todo:
        if base.hung_budget_exhausted():
            break
        out = run_multi(wa, specs, schedule)
        replay = {"kind": "multi", "world": list(wa), "schedule": schedule, "label": label,
                  "specs": [{"verified": sp["verified"], "with_uuid": sp["with_uuid"], "chunks": [hx(c) for c in sp["chunks"]]} for sp in specs]}
        problems = judge_multi(ctx, wa, specs, schedule, out, replay)
        st.case(["multi", replay["specs"], schedule], True)
        st.hit("op", label.split(" ")[0] if label.startswith("multi:") and " " not in label else "multi:boundary")
        st.hit("outcome", "multi:" + ("PROBLEM" if problems else "each-connection-as-alone"))
        if out["digest0"] != out["digest1"]:
            st.hit("outcome", "multi:state-changed-by-own-requests")
        for k, o in out["per"].items():
            o2 = dict(o, closed=True)
            lines.append(model_line(o2, specs[k]["verified"], specs[k]["with_uuid"]))
            metas.append({"label": f"{label} / connection {k}", "verified": specs[k]["verified"], "with_uuid": specs[k]["with_uuid"],
                          "chunks": replay["specs"][k]["chunks"][:8], "schedule": schedule, "world": list(wa)})
            obss.append(o2)


# --------------------------------------------------------------------------- pairing administration while others are mid-request

X_STATES = ["idle", "after-request", "mid-headers", "mid-body", "chunked-mid-body", "response-pending", "pending+more"]
ADMIN_OPS = ["remove-user", "remove-unknown", "add", "list"]


def _x_script(world: base.World, state: str, cut: Optional[int] = None) -> Tuple[List[bytes], List[bytes]]:
    """(bytes delivered BEFORE the admin's request, bytes delivered after it) for a session of
    controller B that is in the given h11 state when the admin's request arrives."""
    aid, on_iid = world.writable()
    serial = world.char_ids()[3]
    get = b"GET /characteristics?id=%d.%d HTTP/1.1\r\nHost: hap.local\r\n\r\n" % serial
    body = json.dumps({"characteristics": [{"aid": aid, "iid": on_iid, "ev": True}]}).encode()
    put = b"PUT /characteristics HTTP/1.1\r\nHost: hap.local\r\nContent-Length: %d\r\n\r\n" % len(body) + body
    hdr = put.index(b"\r\n\r\n") + 4
    if state == "idle":
        return [], [get]
    if state == "after-request":
        return [get], [get]
    if state == "mid-headers":
        c = cut if cut is not None else 20
        c = max(1, min(c, hdr - 1))
        return [put[:c]], [put[c:]]
    if state == "mid-body":
        c = hdr + (cut if cut is not None else 10) % max(1, len(body) - 1)
        return [put[:c]], [put[c:]]
    if state == "chunked-mid-body":
        ch = (b"PUT /characteristics HTTP/1.1\r\nHost: hap.local\r\nTransfer-Encoding: chunked\r\n\r\n"
              + b"%x\r\n" % 10 + body[:10] + b"\r\n")
        rest = b"%x\r\n" % (len(body) - 10) + body[10:] + b"\r\n0\r\n\r\n"
        return [ch], [rest]
    res = httpc.http_request(b"POST", b"/resource", base._snapshot_body(world, "same"))
    if state == "response-pending":
        return [res], []
    if state == "pending+more":
        return [res, put[:30]], [put[30:]]
    raise ValueError(state)


def run_admin(spec: Dict[str, Any], only: Optional[int] = None, x_pre_only: bool = False, record: bool = True) -> Dict[str, Any]:
    """Slot 0 = a verified admin (controller A) that sends ONE pairings request; slots 1.. = other
    connections (sessions of controller B, an unverified peer, a second session of A) whose `pre`
    bytes arrive before that request and whose `post` bytes after it. `only` = run one slot alone
    (the solo reference); `x_pre_only` = stop that slot after its `pre` bytes."""
    world = base.World(True, spec["shape"], virtual=True, gated=True)
    try:
        roles = spec["conns"]
        conns: Dict[int, base.Conn] = {}
        rec: Dict[int, Any] = {}
        for k, c in enumerate(roles):
            if only is not None and k != only:
                continue
            peer = PEERS[k] if k < len(PEERS) else ("10.2.0.%d" % k, 7000 + k)
            if c["role"] in ("admin", "admin2"):
                conn = base._verified_conn(world, peer, base.CANARY_CTRL_ID)
            elif c["role"] == "user":
                conn = base._verified_conn(world, peer, base.CANARY_USER_ID)
            else:
                conn = base.Conn(world, peer)
            conns[k] = conn
            rec[k] = instrument(conn, world) if record else ([], [], [])
        escaped: Dict[int, List[Tuple[str, str]]] = {k: [] for k in conns}
        hung: List[str] = []
        closed_at_op: Dict[int, bool] = {}

        def feed(k, ch):
            c = conns[k]
            if c.t.closed or escaped[k]:
                return
            calls, _d, cbs = rec[k]
            cb = {"cb": "data", "data": hx(ch)}
            cbs.append(cb)
            exc, h = base.guarded(c.p.data_received, ch)
            if exc:
                cb["escaped"] = exc
                escaped[k].append(("data_received", exc))
            if h:
                hung.append(f"data_received of connection {k}")
            calls.append(["cb_end"])
            cb["writes"] = sum(1 for o in c.t.ops if o[0] == "write")
            cb["closing"] = c.t.closed
            world.drain()

        for k in sorted(conns):
            if k != 0:
                for ch in roles[k]["pre"]:
                    feed(k, bytes.fromhex(ch))
        if any(roles[k].get("state", "").startswith(("response-pending", "pending")) for k in conns):
            for _ in range(200):
                if world.snapshot_calls:
                    break
                time.sleep(0.005)
                world.spin(2)
        closed_at_op = {k: conns[k].t.closed for k in conns}
        at_op = {}
        for k, c in conns.items():
            w_ = b"".join(o[1] for o in c.t.ops if o[0] == "write")
            at_op[k] = [(r.status, r.body) for r in httpc.parse_responses(w_, [b"POST"] * 20, eof=False)[0]] if b"EVENT/1.0" not in w_ else []
        if 0 in conns:
            feed(0, bytes.fromhex(spec["op_request"]))
        closed_after_op = {k: conns[k].t.closed for k in conns}
        for k in sorted(conns):
            if k != 0 and not (x_pre_only and k == only):
                for ch in roles[k]["post"]:
                    feed(k, bytes.fromhex(ch))
        world.open_gate()
        world.drain()
        world.advance(1.0)
        per: Dict[int, Dict[str, Any]] = {}
        for k, c in conns.items():
            written = b"".join(o[1] for o in c.t.ops if o[0] == "write")
            n_events = written.count(b"EVENT/1.0")
            resps, trailing = httpc.parse_responses(written, [b"POST"] * 20, eof=c.t.closed) if not n_events else ([], "")
            per[k] = {"responses": [(r.status, r.body) for r in resps], "trailing": trailing, "closed": c.t.closed,
                      "closed_by_op": closed_after_op[k] and not closed_at_op[k], "responses_at_op": at_op[k],
                      "registered": c.p in world.connections.values(), "escaped": escaped[k]}
        st = world.digest()
        pairings = {k: st[k] for k in ("paired_clients", "client_properties", "uuid_to_bytes")}
        for k, c in conns.items():
            calls, _d, cbs = rec[k]
            cbs.append({"cb": "lost"})
            exc, h = base.guarded(c.p.connection_lost, None)
            if exc:
                cbs[-1]["escaped"] = exc
                escaped[k].append(("connection_lost", exc))
            calls.append(["cb_end"])
            cbs[-1]["writes"] = sum(1 for o in c.t.ops if o[0] == "write")
            cbs[-1]["closing"] = c.t.closed
            world.drain()
        for k, c in conns.items():
            calls, disp, cbs = rec[k]
            per[k]["registered_after_lost"] = c.p in world.connections.values()
            per[k]["final_ops"] = [[o[0]] + ([hx(o[1])] if o[0] == "write" else []) for o in c.t.ops]
            per[k]["transcript"] = {"h11": calls, "disp": disp, "callbacks": cbs}
        return {"per": per, "pairings": json.loads(json.dumps(pairings)), "finish_pair": world.finish_pair_calls,
                "loop_errors": list(world.loop_errors), "hung": hung + ([world.hung] if world.hung else [])}
    finally:
        world.close()


def admin_problems(spec: Dict[str, Any], out: Dict[str, Any]) -> List[Tuple[str, str]]:
    """Each connection gets what it gets alone — with exactly one cross-connection effect allowed:
    once the admin's removal of controller B has been acknowledged, B's sessions are closed (and get
    nothing more). Pairings and advertisement refreshes are those of the admin's request alone."""
    problems: List[Tuple[str, str]] = []
    for where in out["hung"]:
        problems.append(("C19:callback-does-not-return", f"{where} did not return"))
    for cls, msg in out["loop_errors"]:
        if cls not in ("KeyboardInterrupt", "SystemExit"):
            problems.append((f"C19:exception-escapes-callback:{cls}", f"the event loop reported {cls}: {msg[:160]}"))
    solo_admin = run_admin(spec, only=0, record=False)
    import uuid as _uuid

    acked = bool(spec["op"].startswith("remove") and solo_admin["per"][0]["responses"][:1]
                 and solo_admin["per"][0]["responses"][0][0] == 200
                 and not httpc.is_pairing_auth_error(solo_admin["per"][0]["responses"][0][1])
                 and out["per"][0]["responses"][:1] == solo_admin["per"][0]["responses"][:1])
    still_paired = set(solo_admin["pairings"]["paired_clients"])
    ident = {"user": base.CANARY_USER_ID, "admin": base.CANARY_CTRL_ID, "admin2": base.CANARY_CTRL_ID}

    def removed(role) -> bool:
        """this connection's controller is no longer paired once the admin's (acknowledged) removal is done —
        directly, or through the last-admin rule"""
        return acked and role in ident and str(_uuid.UUID(ident[role].decode())) not in still_paired
    for k, o in out["per"].items():
        role = spec["conns"][k]["role"]
        for where, cls in o["escaped"]:
            problems.append((f"C19:exception-escapes-callback:{cls}", f"{cls} propagates out of {where} of connection {k} ({role})"))
        if o["trailing"]:
            problems.append(("C19:malformed-response", f"connection {k}: {o['trailing']}"))
        if k == 0:
            want = solo_admin["per"][0]
            expect_closed = want["closed"]
        elif removed(role):
            want = run_admin(spec, only=k, x_pre_only=True, record=False)["per"][k]
            # the one allowed effect: the removed controller's sessions are torn down; they keep what they had
            # been sent when the removal arrived and get nothing more
            want = dict(want, responses=want["responses_at_op"])
            expect_closed = True
        else:
            want = run_admin(spec, only=k, record=False)["per"][k]
            expect_closed = want["closed"]
        if o["responses"] != want["responses"] or o["closed"] != expect_closed:
            problems.append((
                "C19:connection-affected-by-another-connection",
                f"connection {k} ({role}, {spec['conns'][k].get('state', '-')}) got statuses {[s_ for s_, _ in o['responses']]} closed={o['closed']} "
                f"around the admin's pairings {spec['op']}, expected {[s_ for s_, _ in want['responses']]} closed={expect_closed}"
                + (" (its controller is no longer paired: the session must be closed)" if k != 0 and removed(role) else " (as for the same bytes alone)"),
            ))
        if o["closed"] and o["registered"]:
            problems.append(("C19:closed-connection-still-registered", f"connection {k} closed but still registered"))
        if o["registered_after_lost"]:
            problems.append(("C19:closed-connection-still-registered", f"connection {k} still registered after connection_lost"))
    if out["pairings"] != solo_admin["pairings"]:
        problems.append(("C19:accessory-state-changed", "the pairing tables differ from what the admin's request alone produces"))
    if out["finish_pair"] != solo_admin["finish_pair"]:
        problems.append(("C19:accessory-state-changed",
                         f"{out['finish_pair']} advertisement refreshes scheduled, the admin's request alone schedules {solo_admin['finish_pair']}"))
    return problems


def admin_specs(ctx: Ctx) -> List[Dict[str, Any]]:
    rng = ctx.rng
    deep = not ctx.quick
    specs = []
    op_body = {
        "remove-user": httpc.pairings_remove(base.CANARY_USER_ID),
        "remove-unknown": httpc.pairings_remove(b"0BADF00D-0000-4000-8000-000000000000"),
        "add": httpc.pairings_add(b"ADDED000-0000-4000-8000-000000000001", bytes(range(100, 132)), False),
        "list": httpc.pairings_list(),
        "remove-last-admin": httpc.pairings_remove(base.CANARY_CTRL_ID),
    }
    for shape in (["async", "sync", "bridge"] if deep else ["async"]):
        probe = base.World(True, shape)
        try:
            for op in ADMIN_OPS + ["remove-last-admin"]:
                for state in X_STATES:
                    variants = [(state, None)] + ([(state, rng.randrange(1, 60)) for _ in range(3)] if deep and state.startswith("mid") else [])
                    for st_, cut in variants:
                        pre, post = _x_script(probe, st_, cut)
                        x = {"role": "user", "state": st_, "pre": [hx(c) for c in pre], "post": [hx(c) for c in post]}
                        layouts = [[x]]
                        if op == "remove-user" or deep:
                            pre2, post2 = _x_script(probe, "idle")
                            x2 = {"role": "user", "state": "idle", "pre": [hx(c) for c in pre2], "post": [hx(c) for c in post2]}
                            layouts += [[x, x2], [x2, x]]
                        for lay in layouts:
                            others = list(lay) + [{"role": "unverified", "state": "bystander", "pre": [], "post": [hx(PROBE)]}]
                            if deep:
                                others.append({"role": "admin2", "state": "idle", "pre": [], "post": [hx(PROBE)]})
                            specs.append({
                                "kind": "admin", "shape": shape, "op": op,
                                "op_request": hx(httpc.http_request(b"POST", b"/pairings", op_body[op])),
                                "gated_wait": any(c.get("state", "").startswith(("response-pending", "pending")) for c in lay),
                                "conns": [{"role": "admin", "state": "idle", "pre": [], "post": []}] + others,
                                "label": f"admin pairings {op} while a session of the other controller is {st_}"
                                         + (f" (+{len(lay) - 1} more session)" if len(lay) > 1 else ""),
                            })
        finally:
            probe.close()
    return specs


def run_admin_cases(ctx: Ctx, lines, metas, obss):
    st = ctx.stats
    for spec in admin_specs(ctx):
        if base.hung_budget_exhausted():
            return
        out = run_admin(spec)
        probs = admin_problems(spec, out)
        st.case(["admin", spec["shape"], spec["op"], [c.get("state") for c in spec["conns"]]], True)
        st.hit("op", f"admin:{spec['op']}")
        st.hit("outcome", "admin:PROBLEM" if probs else "admin:only-the-removed-controller's-sessions-closed")
        if any(o["closed_by_op"] for k, o in out["per"].items() if k != 0):
            st.hit("outcome", "admin:session-torn-down-by-removal")
        if probs and not any(f.signature == probs[0][0] for f in ctx.failures):
            ctx.fail(probs[0][0], "; ".join(d for _, d in probs[:4]) + f" [{spec['label']}]", spec)
        for k, o in out["per"].items():
            if k != 0 and o["closed_by_op"]:
                continue  # closed from outside its own callbacks (the allowed teardown): not this connection's pump
            role = spec["conns"][k]["role"]
            verified = role != "unverified"
            with_uuid = "user" if role == "user" else ("admin" if verified else False)
            o2 = dict(o, closed=True)
            lines.append(model_line(o2, verified, with_uuid))
            metas.append({"label": f"{spec['label']} / connection {k} ({role})", "verified": verified, "with_uuid": with_uuid,
                          "world": [True, spec["shape"]]})
            obss.append(o2)


# --------------------------------------------------------------------------- a delayed response is pending

ENDINGS = ["peer-disconnect", "close()", "idle-sweep", "server-stop", "none"]
OUTCOMES = ["completes", "fails", "times-out"]


def run_pending(spec: Dict[str, Any]) -> Dict[str, Any]:
    """Inside a session: a valid POST /resource whose snapshot is still being taken, then the
    connection ends (or not) and the snapshot task completes / fails / times out, in either order.
    Every call is time-limited; whatever the loop reports for the callbacks it runs is collected."""
    world = base.World(True, spec["shape"], virtual=True, gated=True)
    try:
        conn = base._verified_conn(world, ("10.4.0.1", 4101))
        bystander = world.connect()
        escaped: List[Tuple[str, str]] = []
        hung: List[str] = []

        def call(name, fn, *a):
            exc, h = base.guarded(fn, *a)
            if exc:
                escaped.append((name, exc))
            if h:
                hung.append(name)
            world.spin()

        raw = httpc.http_request(b"POST", b"/resource", base._snapshot_body(world, "same"))
        call("data_received", conn.p.data_received, raw)
        for _ in range(200):
            if world.snapshot_calls:
                break
            time.sleep(0.005)
            world.spin(2)
        pending_before = not any(o[0] == "write" for o in conn.t.ops)

        def end():
            e = spec["ending"]
            if e == "peer-disconnect":
                call("connection_lost", conn.p.connection_lost, None)
            elif e == "close()":
                call("close", conn.p.close)
                call("connection_lost", conn.p.connection_lost, None)
            elif e == "idle-sweep":
                call("check_idle", conn.p.check_idle, time.time() + 91 * 3600)
                call("connection_lost", conn.p.connection_lost, None)
            elif e == "server-stop":
                srv = world.driver.http_server
                # what async_start arms (a listening socket, a periodic cleanup timer), without naming private
                # attributes: every slot the constructor left empty gets an object that can be closed / cancelled
                armed = type("Armed", (), {"close": lambda self: None, "cancel": lambda self: None,
                                           "wait_closed": lambda self: asyncio.sleep(0)})
                srv.loop = world.loop
                for attr, val in list(vars(srv).items()):
                    if val is None:
                        setattr(srv, attr, armed())
                call("HAPServer.async_stop", srv.async_stop)
                call("connection_lost", conn.p.connection_lost, None)
                call("connection_lost(bystander)", bystander.p.connection_lost, None)

        def outcome():
            o = spec["outcome"]
            if o == "fails":
                world.snapshot_fail = True
            if o == "times-out":
                world.advance(10.0)  # RESPONSE_TIMEOUT is 9 s
            else:
                world.open_gate()
            world.drain()

        for step in ((end, outcome) if spec["order"] == "end-first" else (outcome, end)):
            step()
            world.spin()
        world.open_gate()
        world.drain()
        world.advance(1.0)
        if spec["ending"] == "none":
            written = b"".join(o[1] for o in conn.t.ops if o[0] == "write")
            resps, trailing = httpc.parse_responses(written, [b"POST"], eof=False)
            call("connection_lost", conn.p.connection_lost, None)
        else:
            written = b"".join(o[1] for o in conn.t.ops if o[0] == "write")
            resps, trailing = httpc.parse_responses(written, [b"POST"], eof=True)
        world.drain()
        by_ok = True
        if spec["ending"] != "server-stop":
            r = bystander.send(PROBE, b"GET")
            by_ok = len(r["responses"]) == 1 and not r["escaped"] and not r["hung"]
        if world.hung:
            hung.append(world.hung)
        return {"escaped": escaped, "hung": hung, "loop_errors": list(world.loop_errors), "responses": resps, "trailing": trailing,
                "pending_before": pending_before, "bystander_ok": by_ok}
    finally:
        world.close()


def pending_problems(spec: Dict[str, Any], o: Dict[str, Any]) -> List[Tuple[str, str]]:
    problems: List[Tuple[str, str]] = []
    for where in o["hung"]:
        problems.append(("C19:callback-does-not-return", f"{where} did not return"))
    for where, cls in o["escaped"]:
        problems.append((f"C19:exception-escapes-callback:{cls}", f"{cls} propagates out of {where}"))
    for cls, msg in o["loop_errors"]:
        if cls not in ("KeyboardInterrupt", "SystemExit"):
            problems.append((f"C19:exception-escapes-callback:{cls}",
                             f"the event loop reported {cls} for a callback / task it ran for the connection: {msg[:160]}"))
    if o["trailing"]:
        problems.append(("C19:malformed-response", o["trailing"]))
    if len(o["responses"]) > 1:
        problems.append(("C19:more-responses-than-requests", f"{len(o['responses'])} responses for one request"))
    if spec["ending"] == "none" and len(o["responses"]) != 1:
        problems.append(("C19:request-unanswered", "the connection stayed open but the delayed response never came"))
    if not o["bystander_ok"]:
        problems.append(("C19:other-connection-affected", "a bystander connection stopped answering"))
    return problems


def run_pending_cases(ctx: Ctx):
    st = ctx.stats
    shapes = ["async"] if ctx.quick else ["async", "sync", "bridge"]
    for shape in shapes:
        for ending in ENDINGS:
            for outcome in OUTCOMES:
                for order in ("end-first", "outcome-first"):
                    if base.hung_budget_exhausted():
                        return
                    if ending == "none" and order == "outcome-first":
                        continue
                    spec = {"kind": "pending", "shape": shape, "ending": ending, "outcome": outcome, "order": order,
                            "label": f"pending snapshot, {ending}, task {outcome} ({order})"}
                    o = run_pending(spec)
                    probs = pending_problems(spec, o)
                    st.case(["pending", spec], True)
                    st.hit("op", f"pending:{ending}")
                    st.hit("outcome", "pending:" + ("PROBLEM" if probs else f"task-{outcome}:clean"))
                    if not o["pending_before"]:
                        st.hit("outcome", "pending:snapshot-was-NOT-in-flight")
                    if probs and not any(f.signature == probs[0][0] for f in ctx.failures):
                        ctx.fail(probs[0][0], "; ".join(d for _, d in probs[:3]) + f" [{spec['label']}]", spec)


# --------------------------------------------------------------------------- a real pair-verify, then the session

SESSION_KINDS = ["clean", "smuggled-same-segment", "smuggled-next-segment", "bad-frame", "split-frames", "rekey"]


def _feed(world, conn, cbs, calls, escaped, hung, ch: bytes, crypt_rec: bool):
    """One data_received, recorded as a callback; inside a session the result of hap_crypto.decrypt() is recorded."""
    cb: Dict[str, Any] = {"cb": "data", "data": hx(ch)}
    cbs.append(cb)
    hc = conn.p.hap_crypto
    if crypt_rec and hc is not None:
        from cryptography.exceptions import InvalidTag

        orig = type(hc).decrypt

        def decrypt():
            try:
                r = orig(hc)
            except InvalidTag:
                cb["dec"] = None
                raise
            cb["dec"] = hx(r)
            return r

        hc.decrypt = decrypt
    try:
        exc, hung_now = base.guarded(conn.p.data_received, ch)
    finally:
        if crypt_rec and hc is not None:
            hc.__dict__.pop("decrypt", None)
    if exc:
        cb["escaped"] = exc
        escaped.append(("data_received", exc))
    if hung_now:
        hung.append("data_received")
    calls.append(["cb_end"])
    cb["writes"] = sum(1 for o in conn.t.ops if o[0] == "write")
    cb["closing"] = conn.t.closed
    world.drain()


def run_session(spec: Dict[str, Any]) -> Dict[str, Any]:
    """A fresh connection completes a REAL pair-verify (reference controller, real crypto); then, depending on
    the kind: encrypted requests (whole / split across segments / one frame corrupted), plaintext pipelined
    behind the M3 request (same TCP segment, or the next one), or a second pair-verify inside the session."""
    from ref import frames

    world = base.World(True, spec["shape"])
    try:
        conn = world.connect()
        calls, disp, cbs = instrument(conn, world)
        fp0 = world.finish_pair_calls
        escaped: List[Tuple[str, str]] = []
        hung: List[str] = []
        kind = spec["kind"]
        vc = httpc.VerifyClient(base.CANARY_CTRL_ID, world.admin_key)
        _feed(world, conn, cbs, calls, escaped, hung, httpc.http_request(b"POST", b"/pair-verify", vc.m1()), True)
        w0 = b"".join(o[1] for o in conn.t.ops if o[0] == "write")
        r0, _ = httpc.parse_responses(w0, [b"POST"], eof=False)
        plain_reqs = [bytes.fromhex(x) for x in spec["requests"]]
        n_plain_ops = None
        if r0:
            vc.read_m2(r0[0].body)
            m3 = httpc.http_request(b"POST", b"/pair-verify", vc.m3())
            if kind == "smuggled-same-segment":
                _feed(world, conn, cbs, calls, escaped, hung, m3 + plain_reqs[0], True)
            else:
                _feed(world, conn, cbs, calls, escaped, hung, m3, True)
            n_plain_ops = len(conn.t.ops)
            c2a = frames.Real(frames.hkdf(vc.shared, frames.SALT, frames.C2A))
            ctr = 0
            if kind == "smuggled-next-segment" and not conn.t.closed:
                _feed(world, conn, cbs, calls, escaped, hung, plain_reqs[0], True)
            elif kind in ("clean", "bad-frame", "split-frames", "rekey") and not conn.t.closed:
                todo = list(plain_reqs)
                if kind == "rekey":
                    vc2 = httpc.VerifyClient(base.CANARY_CTRL_ID, world.admin_key)
                    todo = [httpc.http_request(b"POST", b"/pair-verify", vc2.m1())] + todo
                for i, rq in enumerate(todo):
                    if conn.t.closed or escaped:
                        break
                    parts = [rq[j:j + 1024] for j in range(0, len(rq), 1024)] or [b""]
                    fr = frames.seal_frames(c2a, parts, start=ctr)
                    ctr += len(parts)
                    wire = b"".join(fr)
                    if kind == "bad-frame" and i == spec.get("bad_at", 0):
                        wire = wire[:-1] + bytes([wire[-1] ^ 1])
                    if kind == "split-frames" and len(wire) > 4:
                        cuts = sorted({c % (len(wire) - 1) + 1 for c in spec.get("cuts", [1, 17])})
                        segs = [wire[a:b] for a, b in zip([0] + cuts, cuts + [len(wire)])]
                    else:
                        segs = [wire]
                    for sg in segs:
                        if conn.t.closed or escaped:
                            break
                        _feed(world, conn, cbs, calls, escaped, hung, sg, True)
        # what the peer saw: plaintext answers of the verify, then the session's answers (decrypted)
        ops = list(conn.t.ops)
        plain_written = b"".join(o[1] for o in ops[: n_plain_ops or len(ops)] if o[0] == "write")
        sess_written, dec_ops, undecodable = b"", [], False
        if n_plain_ops is not None and vc.shared is not None:
            a2c = frames.Real(frames.hkdf(vc.shared, frames.SALT, frames.A2C))
            k = 0
            for o in ops[n_plain_ops:]:
                if o[0] != "write":
                    dec_ops.append([o[0]])
                    continue
                got, err, used = frames.receive(a2c, o[1], start=k)
                if err is not None or used != len(o[1]):
                    undecodable = True
                    dec_ops.append(["write", hx(o[1])])
                    continue
                k += len(got)
                pt = b"".join(p_ for _, p_ in got)
                sess_written += pt
                dec_ops.append(["write", hx(pt)])
        encrypted_at_end = conn.p.hap_crypto is not None
        closed_before_lost = conn.t.closed
        cbs.append({"cb": "lost"})
        exc, hung_now = base.guarded(conn.p.connection_lost, None)
        if exc:
            cbs[-1]["escaped"] = exc
            escaped.append(("connection_lost", exc))
        if hung_now:
            hung.append("connection_lost")
        calls.append(["cb_end"])
        cbs[-1]["writes"] = sum(1 for o in conn.t.ops if o[0] == "write")
        cbs[-1]["closing"] = conn.t.closed
        world.drain()
        tail = [[o[0]] for o in conn.t.ops[len(ops):]]
        head = [[o[0]] + ([hx(o[1])] if o[0] == "write" else []) for o in ops[: n_plain_ops or len(ops)]]
        return {"escaped": escaped, "hung": hung + ([world.hung] if world.hung else []), "loop_errors": list(world.loop_errors),
                "plain_written": plain_written, "sess_written": sess_written, "undecodable": undecodable,
                "verified": bool(r0) and n_plain_ops is not None and encrypted_at_end, "closed": closed_before_lost,
                "registered_after_lost": conn.p in world.connections.values(),
                "final_ops": head + dec_ops + tail, "encrypted": encrypted_at_end,
                "finish_pair": world.finish_pair_calls - fp0,
                "transcript": {"h11": calls, "disp": disp, "callbacks": cbs}}
    finally:
        world.close()


def session_problems(spec: Dict[str, Any], o: Dict[str, Any]) -> List[Tuple[str, str]]:
    problems: List[Tuple[str, str]] = []
    for where in o["hung"]:
        problems.append(("C19:callback-does-not-return", f"{where} did not return"))
    for where, cls in o["escaped"]:
        problems.append((f"C19:exception-escapes-callback:{cls}", f"{cls} propagates out of {where}"))
    for cls, msg in o["loop_errors"]:
        if cls not in ("KeyboardInterrupt", "SystemExit"):
            problems.append((f"C19:exception-escapes-callback:{cls}", f"the event loop reported {cls}: {msg[:160]}"))
    if o["undecodable"]:
        problems.append(("C19:malformed-response", "bytes written inside the session are not a well-formed frame stream"))
    pr, ptrail = httpc.parse_responses(o["plain_written"], [b"POST"] * 4, eof=False)
    if ptrail:
        problems.append(("C19:malformed-response", f"plaintext answers: {ptrail}"))
    reqs = [bytes.fromhex(x) for x in spec["requests"]]
    if spec["kind"] in ("clean", "split-frames", "rekey", "bad-frame"):
        sent = b"".join(reqs if spec["kind"] != "bad-frame" else reqs[: spec.get("bad_at", 0)])
        ref = reference_requests(sent)
        sr, strail = httpc.parse_responses(o["sess_written"], ref["methods"] + [b"POST"], eof=o["closed"])
        n_extra = 1 if spec["kind"] == "rekey" else 0  # the M1 of the second verify is answered too
        if strail:
            problems.append(("C19:malformed-response", f"answers inside the session: {strail}"))
        if len(sr) > ref["complete"] + n_extra:
            problems.append(("C19:more-responses-than-requests", f"{len(sr)} responses for {ref['complete'] + n_extra} complete requests"))
        if not o["closed"] and len(sr) != ref["complete"] + n_extra:
            problems.append(("C19:request-unanswered", f"session left open with {len(sr)} responses for {ref['complete'] + n_extra} complete requests"))
        if spec["kind"] == "bad-frame" and not o["closed"]:
            problems.append(("C19:request-unanswered", "a frame that does not authenticate neither closed the connection nor was answered"))
    if o["registered_after_lost"]:
        problems.append(("C19:closed-connection-still-registered", "connection still in the server's registry after connection_lost"))
    return problems


def session_specs(ctx: Ctx) -> List[Dict[str, Any]]:
    rng = ctx.rng
    specs = []
    probe = base.World(True, "sync")
    try:
        aid, on_iid = probe.writable()
        get = b"GET /accessories HTTP/1.1\r\nHost: hap.local\r\n\r\n"
        put = _put(rng, json.dumps({"characteristics": [{"aid": aid, "iid": on_iid, "value": False}]}).encode(), False)
        for shape in (["sync"] if ctx.quick else ["sync", "async", "bridge"]):
            for kind in SESSION_KINDS:
                for v in range(ctx.n(3, 20)):
                    reqs = [get] if v == 0 else []
                    while len(reqs) < (1 if kind.startswith("smuggled") else rng.choice([1, 2, 3])):
                        raw, _m = gen_request(rng, probe, True)
                        if b"/pair-" in raw or len(raw) > 6000 or b"/resource" in raw or b"/pairings" in raw:
                            continue
                        reqs.append(rng.choice([raw, get, put]))
                    specs.append({"kind": kind, "shape": shape, "requests": [hx(r) for r in reqs], "bad_at": rng.randrange(len(reqs)),
                                  "cuts": [rng.randrange(1, 4000) for _ in range(rng.randrange(1, 4))],
                                  "label": f"session:{kind}"})
    finally:
        probe.close()
    return specs


def run_session_cases(ctx: Ctx, lines, metas, obss):
    st = ctx.stats
    for spec in session_specs(ctx):
        if base.hung_budget_exhausted():
            return
        spec = dict(spec, kind_="session")
        o = run_session(spec)
        probs = session_problems(spec, o)
        st.case(["session", spec["shape"], spec["kind"], spec["requests"], spec["bad_at"], spec["cuts"]], True)
        st.hit("op", f"session:{spec['kind']}")
        st.hit("outcome", "session:PROBLEM" if probs else ("session:closed" if o["closed"] else "session:open-and-answering"))
        if o["verified"]:
            st.hit("outcome", "session:pair-verify-completed-and-key-installed")
        if probs and not any(f.signature == probs[0][0] for f in ctx.failures):
            ctx.fail(probs[0][0], "; ".join(d for _, d in probs[:4]) + f" [{spec['label']}]", dict(spec, kind="session", session_kind=spec["kind"]))
        o2 = dict(o, closed=True)
        lines.append(model_line(o2, False, False))
        metas.append({"label": spec["label"], "verified": False, "with_uuid": False, "world": [True, spec["shape"]],
                      "requests": [x[:80] for x in spec["requests"]]})
        obss.append(o2)


# --------------------------------------------------------------------------- oracle


def problems_of(obs: Dict[str, Any], meta: Dict[str, Any], world_args, verified, with_uuid, check_order: bool):
    """The property on the observed behaviour: list of (signature, description), gravest first."""
    problems: List[Tuple[str, str]] = []
    ref, resps = obs["ref"], obs["responses"]
    for where in obs.get("hung", []):
        problems.append(("C19:callback-does-not-return",
                         f"{where} did not return within {base.CALL_LIMIT[0]:.0f} s: the request is never answered nor the connection "
                         "closed, and the event-loop thread serves nobody else meanwhile"))
    for where, cls in obs["escaped"]:
        problems.append((f"C19:exception-escapes-callback:{cls}", f"{cls} propagates out of {where}"))
    for cls, msg in obs["loop_errors"]:
        if cls not in ("KeyboardInterrupt", "SystemExit"):
            problems.append((f"C19:exception-escapes-callback:{cls}", f"the event loop reported {cls} for a callback / task it ran for the connection: {msg[:160]}"))
    if obs["trailing"]:
        problems.append(("C19:malformed-response", f"bytes written do not parse as complete responses: {obs['trailing']}"))
    if len(resps) > ref["complete"]:
        problems.append(("C19:more-responses-than-requests", f"{len(resps)} responses for {ref['complete']} complete requests"))
    if not obs["closed"] and not obs["escaped"] and not obs.get("hung") and len(resps) != ref["complete"]:
        problems.append(("C19:request-unanswered", f"connection left open with {len(resps)} responses for {ref['complete']} complete requests"))
    if obs["probe"] is not None and not obs["probe"]["closed"] and obs["probe"]["responses"] != 1:
        problems.append(("C19:stops-answering", f"open connection at a message boundary gave {obs['probe']['responses']} responses to a probe request"))
    if obs["closed"] and obs["registered"]:
        problems.append(("C19:closed-connection-still-registered", "transport closed but the connection is still in the server's registry"))
    if obs["registered_after_lost"]:
        problems.append(("C19:closed-connection-still-registered", "connection still in the server's registry after connection_lost"))
    if obs["bystander_touched"] or not obs["bystander_answers"]:
        problems.append(("C19:other-connection-affected", "a bystander connection was written to, closed, unregistered or stopped answering"))
    if not meta.get("effectful") and obs["digest_changed"]:
        problems.append(("C19:accessory-state-changed", f"stream without legitimate writes changed {obs['digest_changed']}"))
    if check_order and not problems and not obs["closed"] and len(resps) == len(meta.get("requests", [])) >= 2 \
            and all(_self_delimiting(r) for r in meta["requests"]):
        solo = solo_answers(world_args, meta["requests"], verified, with_uuid)
        if solo is not None:
            got = [(r.status, r.body) for r in resps]
            if got != solo:
                problems.append(("C19:responses-out-of-order", f"pipelined answers {[s for s, _ in got]} differ from the answers to the same requests sent alone {[s for s, _ in solo]}"))
    return problems


def _self_delimiting(req: bytes) -> bool:
    """The generated request is exactly one complete message (its framing headers match its bytes), so
    that the pipelined stream is cut where the generator cut it and solo answers are comparable."""
    r = reference_requests(req)
    return r["complete"] == 1 and r["error"] is None and (r["at_boundary"] or r["must_close"])


def minimise(world_args, verified, with_uuid, chunks, meta, signature):
    """Shrink a failing stream: one chunk instead of many, then as few of its requests as possible."""
    from common import delta_min

    def fails(chs, reqs) -> bool:
        w = base.World(*world_args)
        try:
            o = run_stream(w, chs, verified, with_uuid, record=False)
        finally:
            w.close()
        m = {"effectful": meta.get("effectful"), "requests": reqs}
        return any(sig == signature for sig, _ in problems_of(o, m, world_args, verified, with_uuid, signature.endswith("out-of-order")))

    stream = b"".join(chunks)
    reqs = list(meta.get("requests", []))
    best_chunks, best_reqs = chunks, reqs
    if signature == "C19:callback-does-not-return":
        saved, saved_limit = base.HUNG[0], base.CALL_LIMIT[0]
        base.CALL_LIMIT[0] = 2.0
        try:
            for rq in (reqs if b"".join(reqs) == stream and len(reqs) >= 2 else []):
                if fails([rq], [rq]):
                    return [rq], [rq]
        finally:
            base.HUNG[0], base.CALL_LIMIT[0] = saved, saved_limit
        return best_chunks, best_reqs
    if len(chunks) > 1 and fails([stream], reqs):
        best_chunks = [stream]
    if len(reqs) >= 2 and b"".join(reqs) == stream and best_chunks == [stream]:
        small = delta_min(reqs, lambda cand: fails([b"".join(cand)], cand), max_steps=24)
        if len(small) < len(reqs):
            best_chunks, best_reqs = [b"".join(small)], small
    return best_chunks, best_reqs


def judge(ctx: Ctx, obs: Dict[str, Any], meta: Dict[str, Any], replay: Dict[str, Any], world_args, verified, with_uuid,
          check_order: bool, shrink: bool = True):
    """One finding per stream (the gravest aspect names the signature), minimised before it is recorded."""
    problems = problems_of(obs, meta, world_args, verified, with_uuid, check_order)
    if problems and not any(f.signature == problems[0][0] for f in ctx.failures):
        sig = problems[0][0]
        desc = "; ".join(d for _, d in problems)
        if shrink:
            try:
                chunks = [bytes.fromhex(c) for c in replay["chunks"]]
                mc, mr = minimise(world_args, verified, with_uuid, chunks, meta, sig)
                if mc != chunks:
                    replay = dict(replay, chunks=[hx(c) for c in mc], requests=[hx(r) for r in mr],
                                  label=replay.get("label", "") + " (minimised)")
            except Exception as ex:  # noqa: BLE001  (shrinking is best effort)
                log(f"[C19] minimisation failed: {ex!r}")
        ctx.fail(sig, desc + f" [{replay.get('label', meta.get('kinds'))}]", replay)
    return problems


# --------------------------------------------------------------------------- model side


def model_line(obs: Dict[str, Any], verified: bool, with_uuid: bool) -> Dict[str, Any]:
    t = obs["transcript"]
    cbs = []
    for cb in t["callbacks"]:
        c = {"cb": cb["cb"]}
        for k in ("data", "ok", "err", "dec"):
            if k in cb:
                c[k] = cb[k]
        cbs.append(c)
    disp = [{"urlparse": d["urlparse"], "handler": d["handler"], "is_admin": d["is_admin"],
             "self_gone": bool(d.get("self_gone")), "body": d.get("body"), "target": d.get("target"),
             "h11_pos": d.get("h11_pos")} for d in t["disp"]]
    return {"layer": "pump", "op": "transcript", "verified": verified, "has_uuid": bool(with_uuid) and verified,
            "h11": t["h11"], "disp": disp, "callbacks": cbs}


def impl_view(obs: Dict[str, Any]) -> Dict[str, Any]:
    t = obs["transcript"]
    return {
        "per_callback": [{"escaped": cb.get("escaped"), "closing": cb["closing"], "writes": cb["writes"]} for cb in t["callbacks"]],
        "out": obs["final_ops"], "closing": obs["closed"] or True, "registered": obs["registered_after_lost"],
    }


def compare(ctx: Ctx, meta, m: Dict[str, Any], obs: Dict[str, Any]):
    if "fatal" in m:
        ctx.disagree("pump-transcript", meta, m, None)
        return False
    iv = impl_view(obs)
    mv = {"per_callback": m["per_callback"], "out": m["out"], "closing": True, "registered": m["registered"]}
    for k in ("encrypted", "finish_pair"):  # the flag steps of _process_response (session key installed, finish_pair jobs)
        if k in obs:
            iv[k], mv[k] = obs[k], m[k]
    ctx.stats.hit("outcome", "h11-contract-clauses-checked", m.get("contract_checked", 0))
    if m.get("framing_refusals"):
        ctx.stats.hit("outcome", "h11-refused-a-send-its-state-machine-permits (framing)", m["framing_refusals"])
    if m.get("contract_broken"):
        # the hypothesis of C19_callbacks_no_escape does not hold for this h11 on this transcript
        ctx.disagree("h11-contract", meta, "H11Contract holds on every recorded call", m["contract_broken"][:3])
        return False
    bad = None
    if m["desync"]:
        bad = f"control flow differs: {m['desync']}"
    elif m["h11_left"] or m["disp_left"]:
        bad = f"model made fewer calls: {m['h11_left']} h11 calls / {m['disp_left']} dispatch records unused"
    elif mv != iv:
        bad = "observables differ"
    elif m["overlapped"]:
        bad = "h11 delivered a message while a delayed response was outstanding (contract ghost)"
    if bad:
        ctx.disagree("pump-transcript", {**meta, "why": bad}, {k: mv[k] for k in mv} | {"desync": m["desync"]}, iv)
        return False
    return True


# --------------------------------------------------------------------------- run


def extract(ctx: Ctx):
    sys.path.insert(0, str(VERIF / "extract"))
    import importlib

    import routes as ex

    importlib.reload(ex)
    ex.main()


WORLDS = [(True, "sync"), (True, "async"), (False, "sync"), (True, "bridge")]


def cases(ctx: Ctx, n_random: int):
    """(world_args, verified, with_uuid, chunks, meta, label)"""
    rng = ctx.rng
    out = []
    probe_world = base.World(True, "sync")
    try:
        for verified in (False, True):
            for chunks, label in boundary_streams(probe_world):
                stream = b"".join(chunks)
                meta = {"kinds": ["boundary"], "label": label,
                        "effectful": (verified and (b"PUT /characteristics" in stream or b"POST /pairings" in stream)) or b"/pair-" in stream,
                        "requests": []}
                out.append(((True, "sync"), verified, True, chunks, meta))
                if label.startswith("/pair-setup"):  # pair-setup only parses its body while unpaired
                    out.append(((False, "sync"), verified, True, chunks, dict(meta, label=label + " (unpaired accessory)")))
        for i in range(n_random):
            wa = rng.choice(WORLDS)
            verified = rng.random() < 0.5
            with_uuid = rng.choice([False, "admin", "admin", "user"])
            chunks, meta = gen_stream(rng, probe_world, verified)
            out.append((wa, verified, with_uuid, chunks, meta))
    finally:
        probe_world.close()
    return out


def run(ctx: Ctx, model: bool = True, n: Optional[int] = None, n_multi: Optional[int] = None):
    st = ctx.stats
    st.rule = (
        "one case = one byte stream (1-5 requests from the structured generator: valid routes and bodies, junk bodies, "
        "hostile targets / header bytes / methods / versions / framings, garbage; optionally truncated; random "
        "chunking) fed to a fresh real HAPServerProtocol in a fresh world, unverified or as plaintext in a verified "
        "session. Non-trivial = the pump reached a dispatch, a protocol error or a close; distinct by (mode, bytes, chunking)."
    )
    n = ctx.n(1200, 28000) if n is None else n
    lines, metas, obss = [], [], []
    order_budget = ctx.n(60, 1500)
    for (wa, verified, with_uuid, chunks, meta) in cases(ctx, n):
        if base.hung_budget_exhausted():
            st.notes.append("stream generation stopped after two calls that did not return")
            break
        world = base.World(*wa)
        try:
            obs = run_stream(world, chunks, verified, with_uuid)
        finally:
            world.close()
        replay = {"kind": "stream", "world": list(wa), "verified": verified, "with_uuid": with_uuid,
                  "chunks": [hx(c) for c in chunks], "effectful": bool(meta.get("effectful")),
                  "requests": [hx(r) for r in meta.get("requests", [])], "label": meta.get("label") or "+".join(meta["kinds"])}
        check_order = order_budget > 0 and len(meta.get("requests", [])) >= 2 and not meta.get("effectful") \
            and not meta.get("truncated") and not meta.get("trailing_garbage")
        problems = judge(ctx, obs, meta, replay, wa, verified, with_uuid, check_order)
        if check_order and not problems and not obs["closed"] and len(obs["responses"]) == len(meta["requests"]):
            order_budget -= 1
            st.hit("outcome", "order-checked-against-solo-runs")
        t = obs["transcript"]
        nontrivial = bool(t["disp"]) or obs["closed"]
        st.case([verified, with_uuid, [hx(c) for c in chunks]], nontrivial)
        for k in meta["kinds"]:
            st.hit("op", ("verified:" if verified else "unverified:") + k)
        st.hit("outcome", f"responses={min(len(obs['responses']), 5)}")
        st.hit("outcome", "closed" if obs["closed"] else "open")
        if obs["escaped"]:
            st.hit("outcome", "escaped:" + obs["escaped"][0][1])
        if obs["ref"]["error"]:
            st.hit("outcome", "h11-protocol-error")
        for d in t["disp"]:
            hd = d.get("handler")
            st.hit("outcome", "dispatch:" + (f"{hd['resp']['status']}" if hd and not hd["exn"] else ("handler-raised" if hd else ("urlparse-raised" if d["urlparse"] and "err" in d["urlparse"] else ("no-route" if d["urlparse"] else "undecodable")))))
        if any(c[0] == "send" and c[2] is None for c in t["h11"] if isinstance(c, list) and len(c) == 3):
            st.hit("outcome", "h11-refused-send")
        if any(d.get("self_gone") and d.get("handler") and d["handler"]["resp"].get("pairing_removed") for d in t["disp"]):
            st.hit("outcome", "session-teardown-of-this-connection")
        if any(cb["cb"] == "ready" for cb in t["callbacks"]):
            st.hit("outcome", "delayed-response")
        lines.append(model_line(obs, verified, with_uuid))
        metas.append({"label": replay["label"], "verified": verified, "with_uuid": with_uuid, "chunks": replay["chunks"][:8],
                      "world": list(wa)})
        obss.append(obs)
    run_multi_cases(ctx, ctx.n(220, 4000) if n_multi is None else n_multi, lines, metas, obss)
    run_pending_cases(ctx)
    run_admin_cases(ctx, lines, metas, obss)
    run_session_cases(ctx, lines, metas, obss)
    if not model:
        return
    answers = run_model_parallel("C19", lines)
    shown = 0
    for meta, m, obs in zip(metas, answers, obss):
        st.traces_validated += 1
        ok = compare(ctx, meta, m, obs)
        if ok and shown < 3 and len(obs["transcript"]["disp"]) >= 1 and "probe" in obs:
            shown += 1
            st.sample({"case": meta, "h11_calls": len(obs["transcript"]["h11"]), "dispatches": len(obs["transcript"]["disp"]),
                       "model": {"answered": m["answered"], "eoms": m["eoms"], "out": [o[0] for o in m["out"]]},
                       "impl": {"responses_before_probe": [r.status for r in obs["responses"]], "probe": obs["probe"],
                                "closed_before_lost": obs["closed"], "transport_ops": [o[0] for o in obs["final_ops"]]}})


def search(ctx: Ctx):
    """Oracle-only search at the thorough budget (the proof or the tie broke)."""
    run(ctx, model=False, n=3000, n_multi=1500)


def replay(ctx: Ctx, r):
    if r.get("kind") == "admin":
        out = run_admin(r)
        probs = admin_problems(r, out)
        print("scenario:", r["label"], "shape:", r["shape"])
        for k, c in enumerate(r["conns"]):
            o = out["per"][k]
            print(f"  connection {k} ({c['role']}, {c.get('state')}): before the admin's request {[bytes.fromhex(x)[:60] for x in c['pre']]}; "
                  f"responses {[s_ for s_, _ in o['responses']]} closed={o['closed']} registered={o['registered']}")
        print("admin's request:", bytes.fromhex(r["op_request"])[:80])
        if probs:
            ctx.fail(probs[0][0], "; ".join(d for _, d in probs), r)
        for f in ctx.failures:
            print("FAILS:", f.signature, f.description)
        print("verdict:", "property violated on this input" if ctx.failures else "holds on this input")
        return 1 if ctx.failures else 0
    if r.get("kind") == "session":
        spec = dict(r, kind=r["session_kind"])
        o = run_session(spec)
        probs = session_problems(spec, o)
        print("scenario: real pair-verify, then", r["session_kind"], "shape:", r["shape"])
        for x in r["requests"]:
            print("  request:", bytes.fromhex(x)[:100])
        print("key installed:", o["encrypted"], "closed:", o["closed"], "escaped:", o["escaped"], "loop reports:", o["loop_errors"])
        print("answers inside the session:", o["sess_written"][:200])
        if probs:
            ctx.fail(probs[0][0], "; ".join(d for _, d in probs), r)
        for f in ctx.failures:
            print("FAILS:", f.signature, f.description)
        print("verdict:", "property violated on this input" if ctx.failures else "holds on this input")
        return 1 if ctx.failures else 0
    if r.get("kind") == "pending":
        o = run_pending(r)
        probs = pending_problems(r, o)
        print("scenario:", r["label"], "shape:", r["shape"])
        print("snapshot was in flight:", o["pending_before"], "responses:", o["responses"], "escaped:", o["escaped"],
              "hung:", o["hung"], "loop reports:", o["loop_errors"])
        if probs:
            ctx.fail(probs[0][0], "; ".join(d for _, d in probs), r)
        for f in ctx.failures:
            print("FAILS:", f.signature, f.description)
        print("verdict:", "property violated on this input" if ctx.failures else "holds on this input")
        return 1 if ctx.failures else 0
    if r.get("kind") == "multi":
        wa = tuple(r["world"])
        specs = [{"verified": sp["verified"], "with_uuid": sp["with_uuid"], "chunks": [bytes.fromhex(c) for c in sp["chunks"]]}
                 for sp in r["specs"]]
        out = run_multi(wa, specs, r["schedule"])
        judge_multi(ctx, wa, specs, r["schedule"], out, r)
        pos = [0] * len(specs)
        for k in r["schedule"]:
            if pos[k] < len(specs[k]["chunks"]):
                print(f"  connection {k} ({'verified' if specs[k]['verified'] else 'unverified'}) data_received", specs[k]["chunks"][pos[k]][:110])
                pos[k] += 1
        for k, o in out["per"].items():
            print(f"connection {k}: responses {[x.status for x in o['responses']]} closed={o['closed']} escaped={o['escaped']}")
        print("state changed:", {sec: {k: v for k, v in out["digest1"][sec].items() if out["digest0"][sec].get(k) != v} for sec in out["digest1"]})
        for f in ctx.failures:
            print("FAILS:", f.signature, f.description)
        print("verdict:", "property violated on this input" if ctx.failures else "holds on this input")
        return 1 if ctx.failures else 0
    wa = tuple(r["world"])
    chunks = [bytes.fromhex(c) for c in r["chunks"]]
    world = base.World(*wa)
    try:
        obs = run_stream(world, chunks, r["verified"], r["with_uuid"])
    finally:
        world.close()
    meta = {"kinds": [r.get("label", "replay")], "effectful": r.get("effectful", False),
            "requests": [bytes.fromhex(x) for x in r.get("requests", [])]}
    judge(ctx, obs, meta, r, wa, r["verified"], r["with_uuid"], check_order=True, shrink=False)
    print("mode:", "verified session (plaintext)" if r["verified"] else "unverified", "world:", wa)
    for c in chunks[:12]:
        print("  data_received", c[:120])
    print("complete requests (reference parse):", obs["ref"]["complete"], "protocol error:", obs["ref"]["error"])
    print("responses:", obs["responses"], "closed:", obs["closed"], "escaped:", obs["escaped"])
    for f in ctx.failures:
        print("FAILS:", f.signature, f.description)
    print("verdict:", "property violated on this input" if ctx.failures else "holds on this input")
    return 1 if ctx.failures else 0
