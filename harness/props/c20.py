"""C20 — Value updates from worker threads are never lost or left stale.

Real threads, deterministic schedules.  The loop thread (this thread; `driver.tid`) and one worker
thread run the real pyhap code under `sys.settrace`; only one of them runs at a time (a token is
passed at *yield points* = 'line' events, or 'opcode' events, inside pyhap code), so a schedule
is a pair of index sets: at which of its yield points each thread hands the token over.  From this
one mechanism come the exhaustive single-preemption sweep (the whole `set_value` lands at the
k-th line of the loop operation), its mirror image (the whole loop operation lands at the k-th
line of `set_value`), double preemptions and random fine-grained schedules.

While the two threads run, every access to a variable that both threads touch is logged in global
order (found by looking at the bytecode about to execute: LOAD_ATTR / STORE_ATTR of the value slot
and the two cache slots of the characteristic under test — their names are discovered from behaviour
through the public API, see discover_names; the `in self.topics`
test of `AccessoryDriver.publish`; creation / deletion of the topic key; hand-offs to and pops from
the loop's ready queue).  That log *is* a schedule of the Lean model (one model step per access):
the model is run with it and must produce the same accesses in the same order, the same result
for every loop operation, the same final reads and the same events per connection.

If the access log cannot be established for the code at hand (the same mandatory accesses are
missing from two consecutive runs: the code is structured differently from what the instrumentation
recognises), that is a broken tie, not a harness failure: the cases are still run and judged by the
oracle, the search runs, and the report is `no-failing-input-found` with the missing accesses named.

The oracle (harness/ref/race.py) never looks at the model: every GET /accessories, also one in
progress while an update lands, must carry a representation of the characteristic; in runs whose updates
each landed as a whole at one point of the loop's program (the property's quantifier) the values shown by
ALL reads, also those in progress, must be the outcome of one serial order of reads, controller writes and
updates that respects both program orders and real time (judge_serial_order); after everything completed (hand-offs
drained, every armed coalescing timer expired — fired the way the loop fires a due TimerHandle,
never by calling the flush routine directly), GET /accessories (twice) and GET /characteristics
must show the last accepted write, and every connection that was subscribed before the worker's
last value-changing update began and stayed subscribed must have it as its latest event.

Loop-side alphabet: to_HAP (with / without value), get_characteristics, subscribe / repeated
subscribe / unsubscribe and controller writes of the characteristic (all as real PUT /characteristics
requests through HAPServerProtocol.data_received -> handler -> driver, by the subscriber itself or by
another connection), running the handed-over callbacks, a direct flush, and timer expiry (also on
an emptied queue).  Controller writes vs worker updates: a controller write that overlaps a worker
update of the same characteristic, or finds that update's hand-off still undrained, is the shape of
C12's known finding (the older worker value can be delivered after the newer write).  Choice made
here: such runs are executed but neither judged nor compared with the model (counted in the outcome
histogram); the executor never switches threads inside a controller write, and the structured
streams place controller writes only where the worker is between updates and the queue is drained.
The model states the same thing as the hypothesis `Serial` of C20_event.

Two dimensions of the world the update runs against (round 6): the peer-address family of the connections
(`peer`: what an IPv4 / an IPv6 listener reports as peer name — 2-tuple or 4-tuple; nothing in the model
depends on it, so the same model line must fit), and loop operations that span several reads (`head` /
`body`: a PUT whose bytes arrive in two reads, cut after the blank line, inside the header block or inside the
body, with hand-off draining, timer expiries, flushes and reads in between; the model performs the whole
operation where the request completes and nothing at the first read).
"""
from __future__ import annotations

import asyncio
import dis
import heapq
import json
import logging
import os
import sys
import threading
from typing import Any, Dict, List, Optional, Tuple

from common import Ctx, delta_min, log, run_model_parallel
from ref import race as ref

PROP = "C20"
LEAN_MODULE = "Props.C20"
TRUSTED = [
    "Lean 4.33 kernel; axioms propext, Classical.choice, Quot.sound only (audited by #print axioms)",
    "hand-written two-thread model lean/HapModel/Race.lean of Characteristic.to_HAP / get_value / value setter / "
    "_clear_cache / set_value / notify / client_update_value, Accessory.publish, AccessoryDriver.publish / "
    "async_send_event / async_subscribe_client_topic / _notify / set_characteristics (one entry), "
    "HAPServerProtocol.queue_event / _send_events / discard_event / discard_stale_event and the coalescing timer "
    "(one characteristic, one topic, no getter_callback, not an always-null or immediate-notify type); a "
    "controller write is ONE atomic model step and the event theorems assume `Serial` (no controller write "
    "overlaps a worker update or its undrained hand-off: that shape is C12's known finding and is neither judged "
    "nor compared here); tied to "
    "the code on every run by comparing the global order of shared-variable accesses, every operation's result, "
    "the final reads and the delivered events under identical schedules",
    "sequential consistency of CPython under the GIL: a thread switch happens only between bytecodes and each "
    "modelled step contains one attribute load/store, dict or deque operation. The theorems quantify over all "
    "merges of these steps (which include all source-line interleavings); free-threaded (no-GIL) builds, and "
    "switches inside a single C-level operation, are outside the model. Bytecode-level preemption is exercised "
    "by the sweep (granularity 'opcode') but not proved separately",
    "thread ownership of the loop: the model's worker always hands its event over (the code's test is thread "
    "identity, `threading.current_thread() == self.tid`, which a worker thread never passes, whether or not it runs "
    "an asyncio loop of its own); use of the driver's loop or of a transport from another thread without "
    "call_soon_threadsafe is judged by the harness at the loop boundary it owns (asyncio's debug-mode rule, "
    "signature C20:loop-touched-from-worker-thread), not by the model; the loop-side operations run with the "
    "driver's loop marked as the running loop of their thread, the worker is a plain thread or a thread running "
    "its own asyncio loop",
    "asyncio: call_soon_threadsafe appends to a FIFO that only the loop thread pops; callbacks run to completion "
    "on the loop thread (the harness pops loop._ready by hand instead of running the selector); timers are observed "
    "at the loop boundary (handles returned by call_later / call_at, attributed to the connection found in the "
    "scheduling frames) and expire by running the still-scheduled, uncancelled handles as _run_once does",
    "the deterministic scheduler/tracer of this harness (sys.settrace line/opcode events, token passing), the "
    "generators, harness/ref/race.py (oracle, serial-order search and EVENT parser)",
    "completeness of the access log: besides the per-case comparison with the model's accesses, once per process "
    "the value / cache slots are wrapped in a data descriptor that sees every get / set on the characteristic under "
    "test however it is spelled; over the warm-up programs (every operation of the alphabet) the logged accesses "
    "must be exactly those that happened, else the tie counts as not established",
    "a request whose bytes arrive in several reads is, for the model, one operation at the read that completes it "
    "(h11 buffers the rest; HAPServerProtocol.request / request_body are connection-private); the peer-address "
    "family (2-tuple / 4-tuple peer names) is invisible to the model — both are tied by running such cases "
    "through the same model lines",
    "whether this code's flush scheduling is visible at the loop boundary is established once per process (subscribe, "
    "one worker update, drain: a timer must have been handed to call_later / call_at); only if it is not, a missed "
    "event without any timer is treated as a tie problem instead of a verdict",
    "Characteristic.override_properties called from the worker thread is exercised and judged by the oracle (value "
    "sentence, serial order of the value reads) but is not in the Lean model; that the representation served "
    "afterwards may keep superseded minValue/maxValue/minStep is counted as an observation, not judged (C20 speaks "
    "of the value; design/audit/race.md §3)",
]

# ------------------------------------------------------------------------------------------------
# characteristics under test

KINDS: Dict[str, Dict[str, Any]] = {
    # kind: service, characteristic, values whose validation is the identity, a rejected value
    "int": {"service": "Lightbulb", "chars": ["Brightness"], "char": "Brightness",
            "good": [0, 1, 7, 20, 21, 55, 100], "bad": ["x"], "scale": 1},
    "float": {"service": "TemperatureSensor", "chars": None, "char": "CurrentTemperature",
              "good": [0.0, 0.5, 20.0, 20.5, 21.0, 37.5, 100.0], "bad": ["x"], "scale": 10},
    "bool": {"service": "Switch", "chars": None, "char": "On",
             "good": [False, True], "bad": [], "scale": 1},
    "enum": {"service": "LockMechanism", "chars": None, "char": "LockCurrentState",
             "good": [0, 1, 2, 3], "bad": [9, "x"], "scale": 1},
}


def is_override(u: Any) -> bool:
    """A worker item {"override": {...}}: Characteristic.override_properties(properties=...) instead of set_value."""
    return isinstance(u, dict) and "override" in u


def is_valid(kind: str, v: Any) -> bool:
    """Predicted by construction (not by calling pyhap): is `v` accepted by set_value?"""
    if is_override(v):
        return True
    return v in KINDS[kind]["good"] and not isinstance(v, str)


def worker_values(kind: str, init: Any, worker: List[Any]) -> List[Any]:
    """The value each worker item leaves behind when the items run one after the other (by construction: a
    set_value of a good value stores it, a rejected one stores nothing, an override of minValue / maxValue
    clamps the current value into the new range)."""
    out, cur = [], init
    for u in worker:
        if is_override(u):
            pr = u["override"]
            if "maxValue" in pr:
                cur = min(cur, pr["maxValue"])
            if "minValue" in pr:
                cur = max(cur, pr["minValue"])
        elif is_valid(kind, u):
            cur = u
        out.append(cur)
    return out


def payload(kind: str, v: Any) -> Optional[int]:
    """Integer payload used on the model side (floats are multiples of 0.1 here)."""
    if v is None:
        return None
    return int(round(float(v) * KINDS[kind]["scale"]))


def fresh_object(kind: str, v: Any) -> Any:
    """A new Python object for every update where the type allows it (floats), so that
    'equal value, different object' is exercised."""
    if isinstance(v, float):
        return float(repr(v))
    return v


def peer_name(family: str, c: int):
    """What transport.get_extra_info("peername") reports for connection c: asyncio passes on the socket's
    getpeername(), i.e. (host, port) on an IPv4 listener and (host, port, flowinfo, scope_id) on an IPv6 one
    (AccessoryDriver(listen_address="::") — legal configuration; link-local peers carry a scope id)."""
    if family == "v6":
        return ("fe80::%x" % (0x100 + c), 50000 + c, 0, 2)
    if family == "v6-global":
        return ("2001:db8::%x" % (0x100 + c), 50000 + c, 0, 0)
    return ("10.0.0.%d" % c, 50000 + c)


class FakeTransport:
    def __init__(self, peer, foreign=None):
        self.peer = peer
        self.writes: List[bytes] = []
        self.loop_thread = threading.current_thread()
        self.foreign = foreign if foreign is not None else []  # uses of loop-owned objects from other threads

    def _thread_check(self, what):
        if threading.current_thread() is not self.loop_thread:
            self.foreign.append(f"{what} on the transport of {self.peer}")

    def get_extra_info(self, key, default=None):
        return self.peer if key == "peername" else default

    def set_write_buffer_limits(self, high=None, low=None):
        pass

    def write(self, data):
        self._thread_check("write")
        self.writes.append(bytes(data))

    def writelines(self, chunks):
        self._thread_check("writelines")
        for c in chunks:
            self.writes.append(bytes(c))

    def write_eof(self):
        pass

    def close(self):
        pass

    def is_closing(self):
        return False


logging.getLogger("pyhap").setLevel(logging.CRITICAL + 1)  # rejected updates log an error line each
_PYHAP_DIR = None


def _pyhap_dir() -> str:
    global _PYHAP_DIR
    if _PYHAP_DIR is None:
        import pyhap

        _PYHAP_DIR = os.path.dirname(os.path.abspath(pyhap.__file__)) + os.sep
    return _PYHAP_DIR


class Env:
    """The real objects: a driver with a manually stepped loop, one accessory, fake connections."""

    def __init__(self, kind: str, init: Any, conns: List[int], peer: str = "v4"):
        from pyhap.accessory import Accessory
        from pyhap.accessory_driver import AccessoryDriver
        from pyhap.hap_protocol import HAPServerProtocol

        spec = KINDS[kind]
        self.kind = kind
        self.loop = asyncio.new_event_loop()
        self.driver = AccessoryDriver(
            loop=self.loop, address="127.0.0.1", port=51826, persist_file="/tmp/verif-c20-unused.state"
        )
        self.driver.tid = threading.current_thread()  # this thread plays the event loop
        self.driver.aio_stop_event = asyncio.Event()
        acc = Accessory(self.driver, "Acc")
        svc = acc.add_preload_service(spec["service"], chars=spec["chars"])
        self.driver.add_accessory(acc)
        self.acc = acc
        self.char = svc.get_characteristic(spec["char"])
        if init != self.char.value or isinstance(init, float):
            self.char.set_value(fresh_object(kind, init))
        self.aid = acc.aid
        self.iid = acc.iid_manager.get_iid(self.char)
        self.topic = f"{self.aid}.{self.iid}"
        # position of the characteristic in the GET /accessories answer
        self.pos = None
        for si, s in enumerate(acc.services):
            for ci, c in enumerate(s.characteristics):
                if c is self.char:
                    self.pos = (si, ci)
        self.loop_thread = threading.current_thread()
        # asyncio's rule (enforced by the loop itself in debug mode, BaseEventLoop._check_thread): every loop
        # method except call_soon_threadsafe, and every transport method, must be called from the loop's thread
        self.foreign_calls: List[str] = []
        self.conns: Dict[int, Tuple[Any, FakeTransport]] = {}
        for c in conns:
            proto = HAPServerProtocol(self.loop, self.driver.http_server.connections, self.driver)
            tr = FakeTransport(peer_name(peer, c), self.foreign_calls)
            proto.connection_made(tr)
            proto.handler.is_encrypted = True  # a verified session (the cipher itself is C04/C05's subject)
            self.conns[c] = (proto, tr)
        # Timers are observed where the code hands them to the loop (the harness owns the loop), not in
        # the protocol object: whatever private representation the connection keeps, a coalescing timer
        # exists iff call_later / call_at returned a handle that is still scheduled and not cancelled.
        self.timers: Dict[int, List[Any]] = {c: [] for c in conns}
        self.unowned_timers: List[Any] = []
        self.flush_cb: Dict[int, Tuple[Any, tuple]] = {}  # what each connection gives its timer to call
        for meth in ("call_later", "call_at"):
            self._wrap_timer_api(meth)
        orig_soon = self.loop.call_soon

        def call_soon(*args, **kw):
            if threading.current_thread() is not self.loop_thread:
                self.foreign_calls.append("loop.call_soon")
            return orig_soon(*args, **kw)

        self.loop.call_soon = call_soon

    def _wrap_timer_api(self, meth: str):
        orig = getattr(self.loop, meth)

        def scheduling(*args, **kw):
            if threading.current_thread() is not self.loop_thread:
                self.foreign_calls.append(f"loop.{meth}")
            h = orig(*args, **kw)
            owner = self._owner_of_call(args[1] if len(args) > 1 else None)
            lst = self.timers[owner] if owner is not None else self.unowned_timers
            if not any(h is x for x in lst):  # call_later goes through call_at: one handle, seen twice
                lst.append(h)
            if owner is not None and len(args) > 1:
                self.flush_cb[owner] = (args[1], tuple(args[2:]))  # (a cancelled handle forgets its callback)
            return h

        setattr(self.loop, meth, scheduling)

    def _owner_of_call(self, callback) -> Optional[int]:
        """The connection on whose behalf a timer is being scheduled: the protocol object found in
        the calling frames (any local), else the object the callback is bound to."""
        protos = {id(p): c for c, (p, _) in self.conns.items()}
        f = sys._getframe(2)
        depth = 0
        while f is not None and depth < 12:
            for v in f.f_locals.values():
                c = protos.get(id(v))
                if c is not None:
                    return c
            f = f.f_back
            depth += 1
        return protos.get(id(getattr(callback, "__self__", None)))

    def due_timers(self, c: Optional[int]) -> List[Any]:
        hs = self.unowned_timers if c is None else self.timers.get(c, [])
        live = [h for h in hs if getattr(h, "_scheduled", False) and not h.cancelled()]
        return sorted(live, key=lambda h: h.when())

    def fire_timer(self, h):
        """What the loop does with a due TimerHandle (BaseEventLoop._run_once)."""
        try:
            self.loop._scheduled.remove(h)
            heapq.heapify(self.loop._scheduled)
        except ValueError:
            pass
        h._scheduled = False
        if not h.cancelled():
            h._run()

    def close(self):
        for hs in list(self.timers.values()) + [self.unowned_timers]:
            for h in hs:  # do not leave timers behind
                h.cancel()
        self.loop.close()


# ------------------------------------------------------------------------------------------------
# deterministic two-thread executor with access logging

# attribute name on the characteristic -> shared variable of the model; discovered from behaviour (see
# discover_names), so that a renaming of the private slots does not matter
SHARED_ATTRS: Dict[str, str] = {}
_NAMES_DONE = False
_NAMES_PROBLEM: Optional[str] = None


def _attr_names(o) -> List[str]:
    names: List[str] = []
    for k in type(o).__mro__:
        sl = getattr(k, "__slots__", ())
        names += [sl] if isinstance(sl, str) else list(sl)
    names += list(getattr(o, "__dict__", {}))
    return names


def discover_names():
    """Find, through the public API only, which attributes of a Characteristic hold the value and
    the two memoised representations: the one that `char.value = x` makes identical to x; the ones
    that to_HAP(include_value=False) / to_HAP(include_value=True) turn from None into a dict and
    that a later `char.value = ...` turns back into None."""
    global _NAMES_DONE, _NAMES_PROBLEM
    if _NAMES_DONE:
        return
    _NAMES_DONE = True
    saved, cur = sys.gettrace(), None
    sys.settrace(None)
    try:
        env = Env("int", 20, [])
        try:
            ch = env.char
            names = _attr_names(ch)
            missing = object()

            def snap():
                return {n: getattr(ch, n, missing) for n in names}

            marker = 21
            probe = object()
            keep = ch.value
            ch.value = probe
            val = [n for n in names if getattr(ch, n, missing) is probe]
            ch.value = keep
            s0 = snap()
            ch.to_HAP(include_value=False)
            s1 = snap()
            nv = [n for n in names if s0[n] is None and isinstance(s1[n], dict)]
            ch.to_HAP(include_value=True)
            s2 = snap()
            wv = [n for n in names if s1[n] is None and isinstance(s2[n], dict)]
            ch.value = marker
            s3 = snap()
            cleared = [n for n in nv + wv if s3[n] is None]
            if len(val) == 1 and len(nv) == 1 and len(wv) == 1 and sorted(cleared) == sorted(nv + wv):
                SHARED_ATTRS.clear()
                SHARED_ATTRS.update({val[0]: "value", wv[0]: "cacheV", nv[0]: "cache"})
            else:
                _NAMES_PROBLEM = (
                    f"could not identify the value / cache attributes of Characteristic from its behaviour "
                    f"(value: {val}, filled by to_HAP(False): {nv}, by to_HAP(True): {wv}, cleared by a value "
                    f"change: {cleared})"
                )
        finally:
            env.close()
    except Exception as ex:  # noqa: BLE001
        _NAMES_PROBLEM = f"probing the Characteristic attributes raised {ex!r}"
    finally:
        sys.settrace(saved)
    _TABLES.clear()
    del cur


def value_attr() -> Optional[str]:
    for k, v in SHARED_ATTRS.items():
        if v == "value":
            return k
    return None


_SPY_MUTE = False


class _SlotSpy:
    """Completeness audit of the access log.  The log is built from bytecode (`self.<slot>` loads / stores in
    methods whose `self` is the characteristic under test); an access written any other way — another
    receiver expression, getattr / setattr, a helper outside the class — would be invisible to it and hence
    missing from the model's alphabet without anybody noticing.  During the audit the three slots of the
    class are wrapped in this data descriptor, which sees EVERY get / set of them on the object under test,
    however it is spelled; the two views must coincide (see completeness_audit)."""

    def __init__(self, orig, var: str):
        self.orig = orig
        self.var = var

    def _note(self, obj, kind: str):
        ex = _CUR
        if ex is not None and not _SPY_MUTE and obj is ex.env.char:
            tid = "L" if threading.current_thread() is ex.env.loop_thread else "W"
            # the same two exemptions as Exec.access: the worker reading what only it writes; the inside of a
            # controller write (one atomic model step, labelled by its assignment)
            if tid == "W" and kind == "R":
                return
            if tid == "L" and ex.in_write and not (kind == "W" and self.var == "value"):
                return
            ex.spy.append(f"{tid}:{kind}:{self.var}")

    def __get__(self, obj, typ=None):
        if obj is None:
            return self
        self._note(obj, "R")
        return self.orig.__get__(obj, typ)

    def __set__(self, obj, value):
        self._note(obj, "W")
        self.orig.__set__(obj, value)

    def __delete__(self, obj):
        self._note(obj, "W")
        self.orig.__delete__(obj)


def completeness_audit() -> Optional[str]:
    """Run the warm-up programs (every operation of the alphabet, both granularities, both worker kinds)
    with the slots spied upon; None if the logged accesses (bytecode view) are exactly the accesses that
    happened (worker-side reads and the inside of a controller write are exempt in both views)."""
    from pyhap.characteristic import Characteristic

    if len(SHARED_ATTRS) != 3:
        return None
    saved = {}
    try:
        for name, var in SHARED_ATTRS.items():
            for k in Characteristic.__mro__:
                if name in k.__dict__:
                    saved[name] = (k, k.__dict__[name])
                    setattr(k, name, _SlotSpy(k.__dict__[name], var))
                    break
        if len(saved) != 3:
            return None  # not class-level slots / attributes: nothing to wrap (instrumentation unchanged)
        for c in _WARM_CASES:
            r = _run_case_once(c)
            spy = r["spy"]
            raw = [a for a in r["impl"]["trace"] if a.split(":")[2] in ("value", "cacheV", "cache")]
            if raw != spy:
                k = next((i for i, (a, b) in enumerate(zip(raw, spy)) if a != b), min(len(raw), len(spy)))
                return (
                    "the access log is incomplete: accesses to the value / cache slots of the characteristic that "
                    "really happen differ from those the bytecode instrumentation recognises (first difference at "
                    f"position {k}: happened {spy[k:k + 3]}, recognised {raw[k:k + 3]}; {len(spy)} vs {len(raw)} accesses "
                    f"in program {c['loop']})"
                )
    finally:
        for name, (k, orig) in saved.items():
            setattr(k, name, orig)
    return None


class SchedulerStuck(Exception):
    pass


_TABLES: Dict[Any, Dict[int, Tuple[str, str]]] = {}


class _Worker:
    """One long-lived real worker thread per process (starting a thread per case is slow here);
    each job is a callable run on that thread."""

    def __init__(self):
        import queue

        self.pid = os.getpid()
        self.jobs: "queue.Queue" = queue.Queue()
        self.done = threading.Event()
        self.thread = threading.Thread(target=self._main, name="c20-worker", daemon=True)
        self.thread.start()

    def _main(self):
        sys.settrace(_glob_w)  # stays on; it dispatches to the Exec that is current, if any
        while True:
            job = self.jobs.get()
            try:
                job()
            finally:
                self.done.set()

    def submit(self, job):
        self.done.clear()
        self.jobs.put(job)

    def join(self, timeout: float) -> bool:
        return self.done.wait(timeout)


_WORKER: Optional[_Worker] = None
_CUR: Optional["Exec"] = None  # the execution whose threads are being traced right now
_TRACING_PID = None


def _glob_l(frame, event, arg):
    ex = _CUR
    return None if ex is None else ex.glob("L", frame)


def _glob_w(frame, event, arg):
    ex = _CUR
    return None if ex is None else ex.glob("W", frame)


def tracing_on():
    """Install the loop-thread tracer once per process (switching sys.settrace on and off for every
    case makes CPython 3.12 re-instrument every code object each time)."""
    global _TRACING_PID
    if _TRACING_PID != os.getpid() or sys.gettrace() is not _glob_l:
        sys.settrace(_glob_l)
        _TRACING_PID = os.getpid()


def tracing_off():
    global _TRACING_PID
    if sys.gettrace() is _glob_l:
        sys.settrace(None)
    _TRACING_PID = None


def _worker() -> _Worker:
    global _WORKER
    if _WORKER is None or _WORKER.pid != os.getpid() or not _WORKER.thread.is_alive():
        _WORKER = _Worker()
    return _WORKER


class Exec:
    def __init__(self, env: Env, switch_l, switch_w, start: str, gran: str, wkind: str = "plain"):
        self.env = env
        self.wkind = wkind
        self.gran = gran
        self.switch = {"L": set(switch_l), "W": set(switch_w)}
        self.start = start
        self.cv = threading.Condition()
        self.turn = "L"
        self.runnable = {"L": False, "W": False}
        self.scheduled = False
        self.yields = {"L": 0, "W": 0}
        self.yield_info: Dict[str, List[Tuple[str, int, bool, int]]] = {"L": [], "W": []}
        self.log: List[str] = []
        self.tables = _TABLES  # per code object, shared by all executions in the process
        self.capture = False
        self.objects: List[Any] = [env.char.value]  # identity classes of the objects stored in _value
        self.write_ids: List[int] = []  # for the worker's successive writes of _value
        self.topic_key = env.topic in env.driver.topics
        self.pyhap_dir = _pyhap_dir()
        self.local = {"L": self.make_local("L"), "W": self.make_local("W")}
        self.l_write_ids: List[int] = []  # for the loop thread's (controller) writes of _value
        self.capture_tid = "W"
        self.in_write = False          # a controller write is in progress: no switch, one logged access
        self.deferred_switch = False
        self.w_in_update = False
        self.overlap = False           # a controller write overlapped a worker update / undrained hand-off
        self.update_preempted = False  # the worker handed the token over in the middle of an update
        self.partial: Dict[int, Tuple[str, Any, Dict[str, Any], bytes]] = {}  # requests received in part
        self.spy: List[str] = []       # every value / cache access that really happened (completeness audit)
        self.anomalies: List[str] = []
        self.timer_problem: Optional[str] = None
        self.op_errors: List[str] = []
        self.timeline: List[Dict[str, Any]] = []
        self.worker_error: Optional[BaseException] = None
        self.worker_outcomes: List[str] = []
        self.results: List[Any] = []
        orig = env.loop.call_soon_threadsafe

        def handoff(cb, *args, **kw):
            self.log.append(("W" if threading.current_thread() is not env.driver.tid else "L") + ":W:queue")
            return orig(cb, *args, **kw)

        env.loop.call_soon_threadsafe = handoff

    # -- bytecode tables -------------------------------------------------------------------------
    def table(self, code) -> Dict[int, Tuple[str, str]]:
        t = self.tables.get(code)
        if t is None:
            t = {}
            ins = list(dis.get_instructions(code))
            for i, x in enumerate(ins):
                prev = ins[i - 1] if i else None
                if x.opname in ("LOAD_ATTR", "STORE_ATTR") and x.argval in SHARED_ATTRS:
                    if prev is not None and prev.opname == "LOAD_FAST" and prev.argval == "self":
                        t[x.offset] = ("R" if x.opname == "LOAD_ATTR" else "W", SHARED_ATTRS[x.argval])
                if (
                    x.opname == "CONTAINS_OP"
                    and prev is not None
                    and prev.opname == "LOAD_ATTR"
                    and prev.argval == "topics"
                    and code.co_name == "publish"
                ):
                    t[x.offset] = ("R", "topicKey")
            self.tables[code] = t
        return t

    # -- tracing ---------------------------------------------------------------------------------
    def make_local(self, tid: str):
        def local(frame, event, arg):
            if event == "line":
                self.sync(tid)
                if self.gran == "line" or not frame.f_trace_opcodes:
                    self.yield_point(tid, frame)
            elif event == "opcode":
                self.sync(tid)
                tab = self.table(frame.f_code)
                if self.gran == "opcode" and tab:
                    self.yield_point(tid, frame)
                acc = tab.get(frame.f_lasti)
                if acc is not None:
                    self.access(tid, frame, acc)
            elif event == "return":
                self.sync(tid)
            return local

        return local

    def glob(self, tid: str, frame):
        if not frame.f_code.co_filename.startswith(self.pyhap_dir):
            return None
        if self.table(frame.f_code):
            who = frame.f_locals.get("self")
            if who is self.env.char or who is self.env.driver:
                frame.f_trace_opcodes = True
                return self.local[tid]
        # outside the scheduled section only the access log matters: no line events needed
        return self.local[tid] if self.scheduled else None

    def sync(self, tid: str):
        """Register effects of the instruction that just completed (no yield can lie in between)."""
        if self.capture:
            self.capture = False
            # diagnostic read of the object just stored (identity class)
            global _SPY_MUTE
            _SPY_MUTE = True
            try:
                v = getattr(self.env.char, value_attr() or "_value", None)
            finally:
                _SPY_MUTE = False
            ids = self.write_ids if self.capture_tid == "W" else self.l_write_ids
            for i, o in enumerate(self.objects):
                if o is v:
                    ids.append(i)
                    break
            else:
                self.objects.append(v)
                ids.append(len(self.objects) - 1)
        if tid == "L":
            k = self.env.topic in self.env.driver.topics
            if k != self.topic_key:
                self.topic_key = k
                self.log.append("L:W:topicKey")

    def access(self, tid: str, frame, acc: Tuple[str, str]):
        kind, var = acc
        if var == "topicKey":
            if tid == "W":
                self.log.append("W:R:topicKey")
            return
        if frame.f_locals.get("self") is not self.env.char:
            return
        if tid == "W" and kind == "R":
            return  # the worker reading what only the worker writes (or what it cleared) is no conflict
        if tid == "L" and self.in_write and not (kind == "W" and var == "value"):
            return  # a controller write is one atomic model step, labelled by its assignment
        self.log.append(f"{tid}:{kind}:{var}")
        if kind == "W" and var == "value":
            self.capture = True
            self.capture_tid = tid

    # -- token passing ---------------------------------------------------------------------------
    def yield_point(self, tid: str, frame):
        if not self.scheduled:
            return
        k = self.yields[tid]
        self.yields[tid] = k + 1
        if frame is None:
            self.yield_info[tid].append(("<between>", 0, False, len(self.log)))
        else:
            self.yield_info[tid].append(
                (frame.f_code.co_name, frame.f_lineno, frame.f_locals.get("self") is self.env.char, len(self.log))
            )
        if k in self.switch[tid]:
            if tid == "L" and self.in_write:
                self.deferred_switch = True  # taken right after the controller write
                return
            self.handover(tid)

    def handover(self, tid: str):
        other = "W" if tid == "L" else "L"
        with self.cv:
            if self.runnable[other]:
                if tid == "W" and self.w_in_update:
                    self.update_preempted = True
                self.turn = other
                self.cv.notify_all()
                self.wait_turn_locked(tid)

    def wait_turn_locked(self, tid: str):
        while self.turn != tid:
            if not self.cv.wait(timeout=30):
                raise SchedulerStuck(f"thread {tid} waited 30 s for its turn")

    def worker_main(self, updates: List[Any]):
        if self.wkind == "own-loop":
            # the worker thread runs an asyncio loop of its own (a sync run() doing asyncio.run(...), the usual
            # way to use async client libraries) and calls set_value from a coroutine on it
            wl = asyncio.new_event_loop()

            async def body():
                self._worker_body(updates)

            try:
                wl.run_until_complete(body())
            finally:
                wl.close()
        else:
            self._worker_body(updates)

    def _worker_body(self, updates: List[Any]):
        try:
            with self.cv:
                self.wait_turn_locked("W")
            for j, u in enumerate(updates):
                self.yield_point("W", None)  # between two updates
                self.timeline.append({"t": "update", "j": j, "phase": "start"})
                self.w_in_update = True
                try:
                    if is_override(u):
                        self.env.char.override_properties(properties=dict(u["override"]))
                    else:
                        self.env.char.set_value(u)
                    self.worker_outcomes.append("ok")
                except ValueError:
                    self.worker_outcomes.append("ValueError")
                except (SchedulerStuck, TracingIncomplete):
                    raise
                except Exception as ex:  # noqa: BLE001  (raised by the code under test, e.g. a container mutated
                    # by the other thread while this one iterates it)
                    self.worker_outcomes.append(f"raised {type(ex).__name__}: {ex}")
                finally:
                    self.sync("W")
                    self.w_in_update = False
                    self.timeline.append({"t": "update", "j": j, "phase": "end"})
        except BaseException as ex:  # noqa: BLE001
            self.worker_error = ex
        finally:
            self.sync("W")
            with self.cv:
                self.runnable["W"] = False
                self.turn = "L"
                self.cv.notify_all()

    # -- loop operations -------------------------------------------------------------------------
    def do_op(self, op: List[Any]):
        env = self.env
        name = op[0]
        if name == "toHAP":
            rep = env.driver.get_accessories()
            ent = rep["accessories"][0]["services"][env.pos[0]]["characteristics"][env.pos[1]]
            if ent is None:
                self.results.append("none")
            else:
                self.results.append({"rep": payload(env.kind, ent.get("value"))})
        elif name == "toHAPnv":
            rep = env.driver.get_accessories(include_value=False)
            ent = rep["accessories"][0]["services"][env.pos[0]]["characteristics"][env.pos[1]]
            if ent is None:
                self.results.append("none")
            else:
                self.results.append("repNV" if "value" not in ent else {"rep": payload(env.kind, ent["value"])})
        elif name == "getValue":
            rep = env.driver.get_characteristics([env.topic])
            ent = rep["characteristics"][0]
            self.results.append({"value": payload(env.kind, ent.get("value"))})
        elif name == "sub":
            self.put(op[1], {"ev": True})
        elif name == "unsub":
            self.put(op[1], {"ev": False})
        elif name == "lost":
            self.partial.pop(op[1], None)
            env.conns[op[1]][0].connection_lost(None)
        elif name == "head":
            self.put_head(op[1], op[2], op[3], op[4])
        elif name == "body":
            part = self.partial.pop(op[1], None)
            if part is not None:
                what, arg, fields, rest = part
                if what == "write":
                    if self.w_in_update or env.loop._ready:
                        self.overlap = True
                    self.in_write = True
                    try:
                        self.put(op[1], fields, rest)
                    finally:
                        self.sync("L")
                        self.in_write = False
                else:
                    self.put(op[1], fields, rest)
        elif name == "write":
            if self.w_in_update or env.loop._ready:
                self.overlap = True
            self.in_write = True
            try:
                self.put(op[1], {"value": op[2]})
            finally:
                self.sync("L")
                self.in_write = False
        elif name == "fire":
            # the 0.5 s window of this connection has elapsed: every timer it scheduled and did not
            # cancel is due and is run the way the loop runs a due TimerHandle
            for h in env.due_timers(op[1]):
                env.fire_timer(h)
            if env.unowned_timers:
                # a timer that could not be attributed to a connection: never let that turn into an
                # oracle verdict — let it expire too, and report the tie as not established
                self.timer_problem = (
                    "a timer was handed to the loop that could not be attributed to a connection "
                    "(no protocol object in the scheduling frames, callback not bound to one)"
                )
                for h in env.due_timers(None):
                    env.fire_timer(h)
        elif name == "drain":
            ready = env.loop._ready
            while True:
                if not ready:
                    self.log.append("L:R:queue")
                    break
                h = ready.popleft()
                self.log.append("L:W:queue")
                h._run()
        elif name == "flush":
            # the connection's flush routine called directly (what an immediate event does): it is the
            # callback the connection gives its coalescing timer, whatever it is called
            cb = env.flush_cb.get(op[1])
            if cb is not None:
                cb[0](*cb[1])
            else:
                # nothing was ever queued on this connection: the flush has nothing to do
                fl = getattr(env.conns[op[1]][0], "_send_events", None)
                if fl is not None:
                    fl()
        else:
            raise ValueError(f"unknown op {op}")
        self.sync("L")

    def request_bytes(self, fields: Dict[str, Any]) -> Tuple[bytes, bytes]:
        env = self.env
        body = json.dumps({"characteristics": [dict({"aid": env.aid, "iid": env.iid}, **fields)]}).encode()
        head = (
            b"PUT /characteristics HTTP/1.1\r\nHost: hap\r\nContent-Type: application/hap+json\r\n"
            b"Content-Length: %d\r\n\r\n" % len(body)
        )
        return head, body

    def put(self, c: int, fields: Dict[str, Any], rest: Optional[bytes] = None):
        """A real PUT /characteristics on connection c (plaintext framing, verified session); `rest`: the
        request began in an earlier read (see `head`), these are its remaining bytes."""
        proto, tr = self.env.conns[c]
        if rest is None:
            head, body = self.request_bytes(fields)
            rest = head + body
        n = len(tr.writes)
        proto.data_received(rest)
        # (an EVENT may legitimately precede the answer in the transport log)
        resp = [w for w in tr.writes[n:] if w.startswith(b"HTTP/1.1 ")]
        if not resp or not resp[0].startswith(b"HTTP/1.1 204"):
            self.anomalies.append(f"PUT {fields} on connection {c} answered {b''.join(tr.writes[n:])[:40]!r}")

    def put_head(self, c: int, what: str, arg: Any, cut: str):
        """The first read of a request that reaches the accessory in two reads (a request may be split at any
        byte: separate frames / segments; unavoidable for bodies over 1024 bytes).  `cut`: after the blank line
        ("head"), inside the header block ("mid-head") or inside the body ("mid-body")."""
        fields = {"sub": {"ev": True}, "unsub": {"ev": False}}.get(what)
        if fields is None:
            fields = {"value": arg}
        head, body = self.request_bytes(fields)
        k = {"head": len(head), "mid-head": len(head) // 2, "mid-body": len(head) + max(1, len(body) // 2)}[cut]
        data = head + body
        self.partial[c] = (what, arg, fields, data[k:])
        self.env.conns[c][0].data_received(data[:k])

    def timed_op(self, i: int, op: List[Any]):
        ev = {"t": op[0], "i": i}
        if len(op) > 1:
            ev["c"] = op[1]
        if op[0] == "write":
            ev["value"] = op[2]
        if op[0] == "body":
            # the request is complete (and gets answered) now: for the oracle this IS the subscription /
            # unsubscription / controller write
            part = self.partial.get(op[1])
            if part is not None:
                ev["t"] = part[0]
                if part[0] == "write":
                    ev["value"] = part[1]
        self.timeline.append(dict(ev, phase="start"))
        n_res = len(self.results)
        try:
            self.do_op(op)
        except (SchedulerStuck, TracingIncomplete):
            raise
        except Exception as ex:  # noqa: BLE001  (the loop would log it and go on)
            self.in_write = False
            self.op_errors.append(f"{op}: {type(ex).__name__}: {ex}")
        if len(self.results) == n_res + 1 and isinstance(self.results[-1], dict):
            # what this read showed for the characteristic (payload); value-free / empty answers show nothing
            ev = dict(ev, shown=next(iter(self.results[-1].values())))
        self.timeline.append(dict(ev, phase="end"))
        if self.deferred_switch and not self.in_write:
            self.deferred_switch = False
            self.handover("L")

    def run(self, prologue, loop_ops, updates, epilogue):
        """Prologue (solo), the scheduled section (both threads), epilogue (solo)."""
        global _CUR
        keep = sys.gettrace() is _glob_l
        tracing_on()
        _CUR = self
        # the loop-side operations are callbacks of the driver's loop: in that thread the loop is "running"
        prev_running = asyncio.events._get_running_loop()
        asyncio.events._set_running_loop(self.env.loop)
        try:
            for i, op in enumerate(prologue):
                self.timed_op(i, op)
            self.n_prologue_log = len(self.log)
            wt = _worker()
            with self.cv:
                self.turn = self.start
                self.runnable = {"L": True, "W": True}
                self.scheduled = True
            wt.submit(lambda: self.worker_main(updates))
            try:
                with self.cv:
                    self.wait_turn_locked("L")
                for i, op in enumerate(loop_ops):
                    self.timed_op(len(prologue) + i, op)
            finally:
                with self.cv:
                    self.runnable["L"] = False
                    self.turn = "W"
                    self.cv.notify_all()
                if not wt.join(60):
                    raise SchedulerStuck("worker thread did not finish")
                self.scheduled = False
            if self.worker_error is not None:
                raise self.worker_error
            self.n_scheduled_log = len(self.log)
            for i, op in enumerate(epilogue):
                self.timed_op(len(prologue) + len(loop_ops) + i, op)
        finally:
            asyncio.events._set_running_loop(prev_running)
            _CUR = None
            if not keep:
                tracing_off()


# ------------------------------------------------------------------------------------------------
# one case = real run + oracle + model line

def epilogue_for(conns: List[int]) -> List[List[Any]]:
    ep: List[List[Any]] = [["drain"]]
    ep += [["fire", c] for c in conns]  # let every armed coalescing timer expire
    ep += [["toHAP"], ["toHAP"], ["getValue"]]
    return ep


class TracingIncomplete(Exception):
    """The access log of one and the same case differs between consecutive runs (a harness problem:
    CPython's opcode-event quirk did not settle).  Infrastructure failure, never a verdict."""


def _log_missing(ex: "Exec", case: Dict[str, Any], epi, valid) -> List[str]:
    """Accesses that must be in the log whatever the schedule, and are not.

    Two causes: (a) CPython 3.12 delivers 'opcode' trace events for a code object only after it has
    been re-instrumented, which on the first traced execution in a process can lag behind — a re-run
    cures it; (b) the code is structured differently from what the instrumentation recognises — then
    the access-level tie cannot be established and the case counts as a broken tie (the oracle does
    not need the log)."""
    ops = case["prologue"] + case["loop"] + epi
    n = lambda name: sum(1 for o in ops if o[0] == name)  # noqa: E731
    lg = ex.log
    nv = sum(1 for v in valid if v)
    want = [
        ("W:W:value", nv, "the worker's store of the value (one per accepted update)"),
        ("W:W:cacheV", nv, "the worker's clear of the with-value cache (one per accepted update)"),
        ("L:R:cacheV", n("toHAP"), "the loop's test of the with-value cache (one per to_HAP)"),
        ("L:R:cache", n("toHAPnv"), "the loop's test of the value-free cache (one per to_HAP(include_value=False))"),
        ("L:R:value", n("getValue"), "the loop's read of the value (one per get_characteristics)"),
        ("L:W:value", n("write"), "the store of the value by a controller write"),
    ]
    return [f"{lab}: {what} — {lg.count(lab)} logged, at least {k} expected" for lab, k, what in want
            if lg.count(lab) < k]


_WARM = False
_TIMERS_SEEN = False  # the warm-up programs showed coalescing timers at the loop boundary (call_later / call_at)
_TIE_PROBLEM: Optional[str] = None  # set once per process when the access log cannot be established at all
_WARM_CASES = [
    {"char": k, "init": KINDS[k]["good"][0], "conns": [1, 2],
     "prologue": [["sub", 1], ["toHAPnv"]],
     "loop": [["toHAP"], ["toHAP"], ["toHAPnv"], ["getValue"], ["sub", 2], ["unsub", 2], ["unsub", 1], ["sub", 1],
              ["drain"], ["flush", 1], ["drain"], ["write", 2, KINDS[k]["good"][0]], ["fire", 1], ["sub", 1],
              ["write", 1, KINDS[k]["good"][1]], ["fire", 2]],
     "worker": [KINDS[k]["good"][1]], "start": "L", "switchL": [60], "switchW": [5], "gran": g}
    for k in ("int", "float", "bool", "enum") for g in ("line", "opcode")
]
_WARM_CASES += [dict(_WARM_CASES[0], wkind="own-loop"), dict(_WARM_CASES[1], wkind="own-loop")]


def warm_up():
    """Discover the attribute names, make sure every code object involved is instrumented for opcode
    events in this process, and find out whether the access log can be established at all."""
    global _WARM, _TIE_PROBLEM, _TIMERS_SEEN
    if _WARM:
        return
    _WARM = True
    discover_names()
    if _NAMES_PROBLEM:
        _TIE_PROBLEM = _NAMES_PROBLEM
        return
    for c in _WARM_CASES:
        for _ in range(2):
            _run_case_once(c)
    # is this code's flush scheduling visible at the loop boundary?  (subscribe; one whole worker update; drain)
    plain = base_case("int", KINDS["int"]["good"][3], [1], [["sub", 1]], [["drain"]], [KINDS["int"]["good"][4]], start="W")
    _TIMERS_SEEN = bool(_run_case_once(plain).get("had_timers"))
    probes = [_run_case_once(c) for c in (_WARM_CASES[0], _WARM_CASES[0], _WARM_CASES[1])]
    if probes[0]["missing"] and probes[0]["impl"]["trace"] == probes[1]["impl"]["trace"] and probes[2]["missing"]:
        _TIE_PROBLEM = "; ".join(probes[0]["missing"])
    if _TIE_PROBLEM is None:
        _TIE_PROBLEM = completeness_audit()


def run_case(case: Dict[str, Any]) -> Dict[str, Any]:
    """Run one recorded case on the real code.  Returns observations, oracle verdicts and the
    model line (or `tie_problem` when the access log cannot be established for this case); raises
    only for infrastructure problems."""
    warm_up()
    prev = None
    for attempt in range(4):
        r = _run_case_once(case)
        if _TIE_PROBLEM:
            r["tie_problem"] = _TIE_PROBLEM
            return r
        if r.get("timer_problem"):
            r["tie_problem"] = r["timer_problem"]
            return r
        if not r["missing"]:
            return r
        if prev is not None and prev == r["impl"]["trace"]:
            # the same incomplete log twice in a row: not the transient quirk, the code is different
            r["tie_problem"] = "; ".join(r["missing"])
            return r
        prev = r["impl"]["trace"]
    raise TracingIncomplete(f"the access log of one case keeps changing between runs: {r['missing']}")


def _run_case_once(case: Dict[str, Any]) -> Dict[str, Any]:
    kind = case["char"]
    conns = case["conns"]
    env = Env(kind, case["init"], conns, case.get("peer", "v4"))
    try:
        ex = Exec(env, case.get("switchL", []), case.get("switchW", []), case.get("start", "L"),
                  case.get("gran", "line"), case.get("wkind", "plain"))
        updates = [u if is_override(u) else fresh_object(kind, u) for u in case["worker"]]
        epi = epilogue_for(conns)
        ex.run(case["prologue"], case["loop"], updates, epi)
        valid = [is_valid(kind, u) for u in case["worker"]]
        events = {c: ref.parse_events(tr.writes, env.aid, env.iid) for c, (_, tr) in env.conns.items()}
        has_override = any(is_override(u) for u in case["worker"])
        stale_meta: Dict[str, Any] = {}
        if has_override and not ex.op_errors:
            # OBSERVATION, not judged (C20 speaks of the value): does the representation served after completion
            # carry the properties the characteristic has now?
            ent = env.driver.get_accessories()["accessories"][0]["services"][env.pos[0]]["characteristics"][env.pos[1]]
            now = env.char.properties
            stale_meta = {k: {"served": (ent or {}).get(k), "properties": now[k]}
                          for k in ("minValue", "maxValue", "minStep") if k in now and (ent or {}).get(k) != now[k]}
    finally:
        env.close()
    missing: List[str] = []
    if ex.worker_outcomes == [("ok" if ok else "ValueError") for ok in valid]:
        missing = _log_missing(ex, case, epi, valid)

    if ex.op_errors:
        # an operation of the loop raised out of the code under test: report that (the reads it should have
        # returned are missing, nothing else can be judged or compared)
        verdicts = [(
            "C20:loop-operation-raised",
            f"a loop-side operation raised while a worker-thread update was in flight: {ex.op_errors[:3]}",
        )] + ref.judge_thread_ownership(env.foreign_calls)
        return {
            "line": None, "impl": {"trace": ex.log, "results": ex.results, "delivered": []}, "verdicts": verdicts,
            "interleaved": True, "yields": dict(ex.yields), "yield_info": ex.yield_info, "sched_part": ex.log,
            "scale": KINDS[kind]["scale"], "n_ep": len(epi), "overlap": True, "missing": [], "timer_problem": None,
            "spy": ex.spy,
        }

    # ---- oracle (property on the real behaviour) -------------------------------------------------
    scale = KINDS[kind]["scale"]
    n_ep = len(epi)
    ep_results = ex.results[-3:]
    database_reads = [None if r == "none" else r["rep"] for r in ep_results[:2]]
    direct_reads = [ep_results[2]["value"]]
    ev_payload = {c: [payload(kind, v) for v in evs] for c, evs in events.items()}
    timeline = []
    wvals = worker_values(kind, case["init"], case["worker"])
    for ev in ex.timeline:
        ev = dict(ev)
        if ev["t"] == "update":
            ev["valid"] = valid[ev["j"]]
            ev["value"] = payload(kind, wvals[ev["j"]]) if ev["valid"] else None
        elif ev["t"] == "write":
            ev["value"] = payload(kind, ev["value"])
        timeline.append(ev)
    outcome_ok = [("ok" if ok else "ValueError") for ok in valid]
    if ex.overlap:
        # a controller write of this characteristic overlapped a worker update or its undrained hand-off:
        # the known finding of C12 (older worker value delivered after the newer write) lives here; left to C12
        verdicts = []
    else:
        inflight = [
            (None if r == "none" else "rep")
            for r in ex.results[: len(ex.results) - 3]
            if r == "none" or r == "repNV" or (isinstance(r, dict) and "rep" in r)
        ]
        verdicts = ref.judge_timeline(
            payload(kind, case["init"]), timeline, database_reads, direct_reads, ev_payload, inflight
        )
        if not ex.update_preempted and not verdicts and ex.worker_outcomes == outcome_ok:
            # the property's quantifier: every update ran as a whole at one point of the loop's program
            verdicts = list(verdicts) + ref.judge_serial_order(payload(kind, case["init"]), timeline)
        if ex.worker_outcomes != outcome_ok:
            verdicts.append(
                (
                    "C20:update-outcome",
                    f"set_value outcomes {ex.worker_outcomes} differ from the expected {outcome_ok} for "
                    f"{case['worker']!r}",
                )
            )

    verdicts = list(verdicts) + ref.judge_thread_ownership(env.foreign_calls)

    # A flush mechanism the harness cannot observe must never become an oracle verdict about events.
    timer_problem = ex.timer_problem
    missed = "C20:subscriber-missed-final-value"
    had_timers = any(env.timers.values()) or bool(env.unowned_timers)
    if timer_problem is None and any(v[0] == missed for v in verdicts) and not had_timers and not _TIMERS_SEEN:
        # (only when this code's flush scheduling is invisible to the harness altogether — established once per
        # process on the warm-up programs.  If timers are seen there, a run without any timer means that nothing
        # was ever queued for the connection, e.g. the event was dropped on its way: that is a verdict.)
        timer_problem = (
            "events were queued but no timer was ever handed to the loop through call_later / call_at in this "
            "run: the harness cannot observe how this code schedules its flush"
        )
    if timer_problem is not None:
        verdicts = [v for v in verdicts if v[0] != missed]

    # ---- model line ------------------------------------------------------------------------------
    wid = iter(ex.write_ids)
    wups = []
    for u, ok in zip(case["worker"], valid):
        if is_override(u):
            wups.append([0, 0, False])  # (cases with an override are not sent to the model: oracle only)
        elif ok:
            wups.append([next(wid, 0), payload(kind, u), True])
        else:
            wups.append([0, 0, False])
    lid = iter(ex.l_write_ids)
    lops = []
    heads: Dict[int, Tuple[str, Any]] = {}
    for op in case["prologue"] + case["loop"] + epi:
        if op[0] == "head":
            # the first read of a split request changes nothing the model speaks about (the parser buffers
            # it); the model performs the whole operation where the request completes
            heads[op[1]] = (op[2], op[3])
            continue
        if op[0] == "body":
            part = heads.pop(op[1], None)
            if part is None:
                continue
            op = [part[0], op[1]] + ([part[1]] if part[0] == "write" else [])
        if op[0] == "lost":
            heads.pop(op[1], None)
        if op[0] == "write":
            lops.append(["write", op[1], next(lid, 0), payload(kind, op[2])])
        else:
            lops.append(op)
    line = {
        "layer": "race", "fix": True,
        "value": [0, payload(kind, case["init"])], "cacheV": None, "cache": False,
        "subs": [], "conns": conns,
        "lops": lops,
        "wups": wups,
        "sched": "".join(a[0] for a in ex.log),
    }
    impl_obs = {
        "trace": ex.log,
        "results": ex.results,
        "delivered": [ev_payload[c] for c in conns],
    }
    if ex.anomalies:
        impl_obs["anomalies"] = ex.anomalies
    sched_part = ex.log[ex.n_prologue_log:ex.n_scheduled_log]
    tids = [a[0] for a in sched_part]
    interleaved = "W" in tids and "L" in tids and tids != sorted(tids) and tids != sorted(tids, reverse=True)
    return {
        "line": line, "impl": impl_obs, "verdicts": verdicts, "interleaved": interleaved,
        "yields": dict(ex.yields), "yield_info": ex.yield_info, "sched_part": sched_part, "scale": scale,
        "n_ep": n_ep, "overlap": ex.overlap, "missing": missing, "timer_problem": timer_problem,
        "had_timers": had_timers,
        "atomic": not ex.update_preempted, "spy": ex.spy, "oracle_only": has_override, "stale_meta": stale_meta,
    }


def model_obs(m: Dict[str, Any]) -> Dict[str, Any]:
    if "fatal" in m:
        return m
    trace = list(m["trace"]) + list(m["extra"])
    return {"trace": trace, "results": m["results"], "delivered": m["delivered"]}


# ------------------------------------------------------------------------------------------------
# generators

def base_case(kind: str, init: Any, conns, prologue, loop, worker, **kw) -> Dict[str, Any]:
    c = {"kind": "sched", "char": kind, "init": init, "conns": list(conns), "prologue": prologue,
         "loop": loop, "worker": worker, "start": "L", "switchL": [], "switchW": [], "gran": "line"}
    c.update(kw)
    return c


def scenarios(kind: str) -> List[Tuple[str, Dict[str, Any]]]:
    """Loop operation × cache / subscription state, one changing update."""
    g = KINDS[kind]["good"]
    a, b = g[-2], g[-1]
    if kind == "bool":
        a, b = False, True
    S = []
    sub1 = [["sub", 1]]
    S.append(("toHAP-cold", base_case(kind, a, [1], sub1, [["toHAP"]], [b])))
    S.append(("toHAP-warm", base_case(kind, a, [1], sub1 + [["toHAP"]], [["toHAP"]], [b])))
    S.append(("toHAP-cold-nosub", base_case(kind, a, [], [], [["toHAP"]], [b])))
    S.append(("toHAPnv-cold", base_case(kind, a, [1], sub1, [["toHAPnv"]], [b])))
    S.append(("toHAPnv-warm", base_case(kind, a, [1], sub1 + [["toHAPnv"]], [["toHAPnv"]], [b])))
    S.append(("getValue", base_case(kind, a, [1], sub1, [["getValue"]], [b])))
    S.append(("sub-first", base_case(kind, a, [1], [], [["sub", 1]], [b])))
    S.append(("sub-second", base_case(kind, a, [1, 2], sub1, [["sub", 2]], [b])))
    S.append(("unsub-last", base_case(kind, a, [1], sub1, [["unsub", 1]], [b])))
    S.append(("unsub-other", base_case(kind, a, [1, 2], sub1 + [["sub", 2]], [["unsub", 2]], [b])))
    S.append(("lost-other", base_case(kind, a, [1, 2], sub1 + [["sub", 2]], [["lost", 2]], [b])))
    S.append(("lost-last", base_case(kind, a, [1], sub1, [["lost", 1]], [b])))
    S.append(("drain-flush", base_case(kind, a, [1], sub1, [["drain"], ["flush", 1]], [b])))
    S.append(("read-read", base_case(kind, a, [1], sub1, [["toHAP"], ["toHAP"]], [b])))
    return S


def phased_scenarios(kind: str) -> List[Tuple[str, Dict[str, Any]]]:
    """Worker update u1 completes; the loop drains it (entry queued, 0.5 s timer armed) and then a
    controller write / unsubscription / repeated subscription / timer expiry happens; a second
    worker update u2 lands at every point of that program (or never)."""
    g = KINDS[kind]["good"]
    a, u1, u2, x = g[-2], g[-1], g[0], g[2 % len(g)]
    both = [["sub", 1], ["sub", 2]]
    P = {
        "write-self": [["drain"], ["write", 1, x], ["fire", 1], ["getValue"]],
        "write-other": [["drain"], ["write", 2, x], ["fire", 1], ["fire", 2], ["toHAP"]],
        "write-self-same": [["drain"], ["write", 1, u1], ["fire", 1]],
        "unsub-resub": [["drain"], ["unsub", 1], ["sub", 1], ["fire", 1], ["toHAP"]],
        "resub": [["drain"], ["sub", 1], ["fire", 1], ["toHAP"]],
        "fire-twice": [["drain"], ["fire", 1], ["fire", 1]],
        "flush-then-fire": [["drain"], ["flush", 1], ["fire", 1]],
        "unsub-other": [["drain"], ["unsub", 2], ["fire", 2], ["fire", 1]],
        "lost-other": [["drain"], ["lost", 2], ["fire", 1], ["toHAP"]],
    }
    return [(n, base_case(kind, a, [1, 2], both, prog, [u1, u2], start="W")) for n, prog in P.items()]


def split_scenarios(kind: str) -> List[Tuple[str, Dict[str, Any]]]:
    """Connections 1 and 2 are subscribed.  A request of connection 1 or 2 (repeated subscription, controller
    write, unsubscription of the other connection) arrives in two reads; in between the loop runs the
    hand-offs and lets timers expire.  One worker update, at every point."""
    g = KINDS[kind]["good"]
    a, u1, x = g[-2], g[-1], g[2 % len(g)]
    both = [["sub", 1], ["sub", 2]]
    S = []
    for cut in ("head", "mid-body", "mid-head"):
        S.append((f"resub-{cut}", [["head", 1, "sub", None, cut], ["drain"], ["fire", 1], ["body", 1], ["fire", 1],
                                   ["fire", 2], ["toHAP"]]))
    S.append(("resub-flush", [["head", 1, "sub", None, "head"], ["drain"], ["flush", 1], ["body", 1], ["fire", 1]]))
    S.append(("unsub-other", [["head", 2, "unsub", None, "head"], ["drain"], ["fire", 1], ["fire", 2], ["body", 2],
                              ["fire", 1]]))
    S.append(("write-self", [["head", 1, "write", x, "mid-body"], ["drain"], ["fire", 1], ["body", 1], ["fire", 1],
                             ["fire", 2], ["getValue"]]))
    S.append(("two-open", [["head", 1, "sub", None, "head"], ["head", 2, "sub", None, "mid-body"], ["drain"],
                           ["fire", 2], ["body", 2], ["fire", 1], ["body", 1], ["fire", 1], ["fire", 2]]))
    return [(n, base_case(kind, a, [1, 2], both, prog, [u1])) for n, prog in S]


def solo_counts(case: Dict[str, Any]) -> Tuple[int, int, Dict[str, Any]]:
    """Yield points of each thread when the loop program runs first, then the worker."""
    c = dict(case, switchL=[], switchW=[], start="L")
    r = run_case(c)
    return r["yields"]["L"], r["yields"]["W"], r


def gen_cases(ctx: Ctx) -> List[Tuple[str, Dict[str, Any]]]:
    rng = ctx.rng
    cases: List[Tuple[str, Dict[str, Any]]] = []
    kinds_sweep = ["int", "float"] if ctx.quick else ["int", "float", "bool", "enum"]

    # the witness of C20_legacy_window_counterexample, as the first case: to_HAP preempted after the value read
    for kind in kinds_sweep:
        for name, sc in scenarios(kind):
            nl, nw, solo = solo_counts(sc)
            # (A) exhaustive single preemption of the loop operation by the whole update
            for k in sweep_points(solo["yield_info"]["L"]):
                cases.append((f"single/{name}", dict(sc, switchL=[k])))
            # (B) mirror image: the whole loop operation lands inside set_value
            skip_reverse = ctx.quick and kind != "int"
            for k in ([] if skip_reverse else sweep_points(solo["yield_info"]["W"])):
                cases.append((f"reverse/{name}", dict(sc, start="W", switchW=[k])))
            # (C) double preemption: two updates at two points
            if name in ("toHAP-cold", "toHAP-warm", "read-read", "sub-first", "drain-flush"):
                g = KINDS[kind]["good"]
                two = dict(sc, worker=[sc["worker"][0], g[0] if g[0] != sc["worker"][0] else g[1]])
                nl2, nw2, solo2 = solo_counts(two)
                first_len = _first_update_yields(solo2)
                rel = sweep_points(solo2["yield_info"]["L"])
                pairs = [(i, j) for ii, i in enumerate(rel) for j in rel[ii:]]
                if ctx.quick:
                    rng.shuffle(pairs)
                    pairs = pairs[:40]
                for i, j in pairs:
                    cases.append((f"double/{name}", dict(two, switchL=sorted({i, j}) if i != j else [i],
                                                         switchW=[first_len] if i != j else [])))
    # (P) phased programs: update, then queue maintenance on the loop, second update at every point
    for kind in kinds_sweep:
        for name, sc in phased_scenarios(kind):
            solo = run_case(sc)
            b2 = _first_update_yields(solo)
            sc2 = dict(sc, switchW=[b2])
            solo2 = run_case(sc2)
            for k in sweep_points(solo2["yield_info"]["L"]):
                cases.append((f"phased/{name}", dict(sc2, switchL=[k])))
            # ... and with the first update only
            cases.append((f"phased1/{name}", dict(sc, worker=sc["worker"][:1])))
    # (6) peer-address family: the same sweeps with connections whose peer name is what an IPv6 listener
    #     reports, (host, port, flowinfo, scope_id) — AccessoryDriver(listen_address="::") is legal configuration
    for fam in ("v6", "v6-global"):
        for name, sc in scenarios("int"):
            if name not in ("toHAP-cold", "sub-first", "sub-second", "unsub-other", "lost-other", "drain-flush"):
                continue
            if fam == "v6-global" and name not in ("toHAP-cold", "sub-second"):
                continue
            sc = dict(sc, peer=fam)
            nl, nw, solo = solo_counts(sc)
            pts = sweep_points(solo["yield_info"]["L"])
            for k in (pts[::2] if ctx.quick else pts):
                cases.append((f"single-{fam}/{name}", dict(sc, switchL=[k])))
        for name, sc in phased_scenarios("int"):
            if name in ("write-other", "unsub-resub", "fire-twice") and fam == "v6":
                cases.append((f"phased1-{fam}/{name}", dict(sc, worker=sc["worker"][:1], peer=fam)))
    # (S) loop operations that span SEVERAL reads: a PUT whose head and body arrive in separate reads (split
    #     after the blank line / inside the header block / inside the body); between the two reads the loop
    #     drains hand-offs and the connection's timer expires; the worker's update lands at every point
    for kind in (["int"] if ctx.quick else kinds_sweep):
        for name, sc in split_scenarios(kind):
            nl, nw, solo = solo_counts(sc)
            for k in sweep_points(solo["yield_info"]["L"]):
                cases.append((f"split/{name}", dict(sc, switchL=[k])))
    # (V) the worker calls override_properties (a narrower range: value kept / value clamped) instead of
    #     set_value, at every point of a read — oracle only (value sentence + serial order of the reads)
    for init in (20, 80):
        for name, prol, prog in (("toHAP-cold", [], [["toHAP"]]), ("toHAP-warm", [["toHAP"]], [["toHAP"]]),
                                 ("toHAPnv-cold", [], [["toHAPnv"], ["toHAP"]]), ("getValue", [], [["getValue"]])):
            sc = base_case("int", init, [], prol, prog, [{"override": {"maxValue": 50}}])
            nl, nw, solo = solo_counts(sc)
            for k in sweep_points(solo["yield_info"]["L"]):
                cases.append((f"override/{name}", dict(sc, switchL=[k])))
            sc2 = dict(sc, worker=[{"override": {"maxValue": 50}}, 21])
            for k in sweep_points(solo["yield_info"]["L"])[::3]:
                cases.append((f"override-then-set/{name}", dict(sc2, switchL=[k])))
    # (O) the worker thread runs an asyncio loop of its own while it updates (asyncio.run inside a sync run())
    for kind in (["int"] if ctx.quick else kinds_sweep):
        for name, sc in scenarios(kind):
            if name not in ("toHAP-cold", "toHAP-warm", "sub-first", "unsub-other", "lost-other", "drain-flush"):
                continue
            sc = dict(sc, wkind="own-loop")
            nl, nw, solo = solo_counts(sc)
            for k in sweep_points(solo["yield_info"]["L"]):
                cases.append((f"ownloop/{name}", dict(sc, switchL=[k])))
            for k in sweep_points(solo["yield_info"]["W"]):
                cases.append((f"ownloop-reverse/{name}", dict(sc, start="W", switchW=[k])))
    # (D) bytecode-granularity single preemption of to_HAP / set_value
    for kind in (["int"] if ctx.quick else kinds_sweep):
        for name, sc in scenarios(kind):
            if name not in ("toHAP-cold", "toHAP-warm", "toHAPnv-warm", "sub-first"):
                continue
            sc = dict(sc, gran="opcode")
            nl, nw, solo = solo_counts(sc)
            for k in sweep_points(solo["yield_info"]["L"]):
                cases.append((f"single-opcode/{name}", dict(sc, switchL=[k])))
            for k in sweep_points(solo["yield_info"]["W"]):
                cases.append((f"reverse-opcode/{name}", dict(sc, start="W", switchW=[k])))
    # (E) random programs under random fine-grained schedules
    for _ in range(ctx.n(500, 20000)):
        cases.append(("random", random_case(rng)))
    return cases


# functions of the characteristic that touch a shared variable (the rest of set_value / to_valid_value /
# valid_value_or_raise only computes on locals)
_CHAR_FUNCS = {"to_HAP", "get_value", "value", "_clear_cache", "notify", "set_value"}
_DRIVER_FUNCS = {
    "publish",
    "get_characteristics", "async_subscribe_client_topic", "async_send_event", "push_event", "queue_event",
    "_send_events", "_event_queue_with_active_subscriptions",
    "set_characteristics", "_notify", "client_update_value", "discard_stale_event", "discard_event",
    "connection_lost", "close",
}


def _first_update_yields(solo: Dict[str, Any]) -> int:
    """Index of the worker's yield point between its first and its second update."""
    info = solo["yield_info"]["W"]
    btw = [i for i, inf in enumerate(info) if inf[0] == "<between>"]
    return btw[1] if len(btw) > 1 else len(info)


def sweep_points(info: List[Tuple[str, int, bool, int]]) -> List[int]:
    """Preemption points to try for an exhaustive sweep: every yield point inside code that works on
    the characteristic under test or in the driver / protocol functions, plus one representative
    of every other group of consecutive yield points between which the running thread makes no
    shared access (landing anywhere inside such a group gives the same interleaving), plus the
    point after the thread's last line."""
    pts, seen = [], set()
    for i, inf in enumerate(info):
        relevant = (inf[2] and inf[0] in _CHAR_FUNCS) or inf[0] in _DRIVER_FUNCS
        if relevant or inf[3] not in seen:
            pts.append(i)
        seen.add(inf[3])
    pts.append(len(info))
    return pts


def random_case(rng) -> Dict[str, Any]:
    kind = rng.choice(["int", "int", "float", "float", "bool", "enum"])
    spec = KINDS[kind]
    conns = [1, 2, 3][: rng.choice([1, 2, 2, 3])]
    init = rng.choice(spec["good"])
    prologue: List[List[Any]] = []
    for c in conns:
        if rng.random() < 0.7:
            prologue.append(["sub", c])
    if rng.random() < 0.5:
        prologue.append(["toHAP"])
    if rng.random() < 0.3:
        prologue.append(["toHAPnv"])
    ops: List[List[Any]] = []
    for _ in range(rng.choice([1, 2, 3, 4, 6])):
        r = rng.random()
        if r < 0.4:
            ops.append(["toHAP"])
        elif r < 0.5:
            ops.append(["toHAPnv"])
        elif r < 0.6:
            ops.append(["getValue"])
        elif r < 0.7:
            ops.append(["sub", rng.choice(conns)])
        elif r < 0.78:
            ops.append(["unsub", rng.choice(conns)])
        elif r < 0.86:
            ops.append(["drain"])
        elif r < 0.9:
            ops.append(["flush", rng.choice(conns)])
        elif r < 0.94:
            ops.append(["fire", rng.choice(conns)])
        elif r < 0.96:
            ops.append(["lost", rng.choice(conns)])
        else:
            ops += [["drain"], ["write", rng.choice(conns), rng.choice(spec["good"])]]
    split_ops: List[List[Any]] = []
    for op in ops:  # some requests reach the accessory in two reads, with other loop work in between
        if op[0] in ("sub", "unsub", "write") and rng.random() < 0.25:
            split_ops.append(["head", op[1], op[0], op[2] if op[0] == "write" else None,
                              rng.choice(["head", "mid-body", "mid-head"])])
            for _ in range(rng.choice([0, 1, 2])):
                split_ops.append(rng.choice([["drain"], ["fire", op[1]], ["flush", op[1]], ["toHAP"]]))
            if op[0] == "write":
                split_ops.append(["drain"])
            split_ops.append(["body", op[1]])
        else:
            split_ops.append(op)
    ops = split_ops
    gone: set = set()
    kept: List[List[Any]] = []
    for op in ops:  # a connection that went away makes no further requests
        if len(op) > 1 and op[1] in gone and op[0] in ("sub", "unsub", "write", "flush", "lost", "head", "body"):
            continue
        if op[0] == "lost":
            gone.add(op[1])
        kept.append(op)
    ops = kept
    worker: List[Any] = []
    cur = init
    for _ in range(rng.choice([1, 1, 2, 2, 3])):
        r = rng.random()
        if r < 0.15 and spec["bad"]:
            worker.append(rng.choice(spec["bad"]))
        elif r < 0.3:
            worker.append(cur)  # same payload (for floats: a different object)
        else:
            cur = rng.choice(spec["good"])
            worker.append(cur)
    gran = "opcode" if rng.random() < 0.35 else "line"
    p = rng.choice([0.01, 0.03, 0.1, 0.3])
    horizon = 1500 if gran == "opcode" else 500
    return base_case(
        kind, init, conns, prologue, ops, worker,
        start=rng.choice(["L", "W"]), gran=gran, wkind=rng.choice(["plain", "plain", "plain", "own-loop"]),
        peer=rng.choice(["v4", "v4", "v6", "v6-global"]),
        switchL=[i for i in range(horizon) if rng.random() < p],
        switchW=[i for i in range(horizon // 2) if rng.random() < min(0.5, 2 * p)],
    )


# ------------------------------------------------------------------------------------------------
# run / search / replay

def _short_case(case: Dict[str, Any]) -> Dict[str, Any]:
    c = dict(case)
    for k in ("switchL", "switchW"):
        if len(c.get(k, [])) > 12:
            c[k] = c[k][:12] + [f"...{len(case[k])} points"]
    return c


def _minimise(case: Dict[str, Any], sig: str) -> Dict[str, Any]:
    """Shrink the switch sets of a failing case (the programs of sweep cases are already minimal)."""
    def fails(c):
        try:
            return any(s == sig for s, _ in run_case(c)["verdicts"])
        except Exception:  # noqa: BLE001
            return False

    cur = dict(case)
    # only switch points that were actually reached matter
    for key in ("switchL", "switchW"):
        pts = list(cur[key])
        if len(pts) > 1:
            kept = delta_min(pts, lambda cand, key=key: fails(dict(cur, **{key: cand})), max_steps=60)
            if fails(dict(cur, **{key: kept})):
                cur[key] = kept
        if len(cur[key]) == 1 and fails(dict(cur, **{key: []})):
            cur[key] = []
    return cur


def _run_slim(case: Dict[str, Any]) -> Dict[str, Any]:
    tracing_on()  # stays on for the whole batch in this process
    r = run_case(case)
    for k in ("yield_info", "spy"):
        r.pop(k, None)
    return r


def run_cases(cases: List[Dict[str, Any]]) -> List[Dict[str, Any]]:
    """Real-code runs, spread over a few processes (each run has its own two threads)."""
    if len(cases) < 40:
        try:
            return [_run_slim(c) for c in cases]
        finally:
            tracing_off()
    import multiprocessing as mp
    from concurrent.futures import ProcessPoolExecutor

    import pyhap.accessory_driver  # noqa: F401  (import before forking)

    workers = max(2, min(16, os.cpu_count() or 4))
    with ProcessPoolExecutor(workers, mp_context=mp.get_context("fork")) as ex:
        return list(ex.map(_run_slim, cases, chunksize=max(1, min(50, len(cases) // (workers * 4)))))


def _evaluate(ctx: Ctx, cases: List[Tuple[str, Dict[str, Any]]], correspond: bool = True):
    st = ctx.stats
    lines, impls, metas = [], [], []
    results = run_cases([c for _, c in cases])
    for (stream, case), r in zip(cases, results):
        for sig, desc in r["verdicts"]:
            if not any(f.signature == sig for f in ctx.failures):
                small = _minimise(case, sig)
                try:  # human-readable position of the preemption points (informative; the indices replay)
                    info = run_case(small)["yield_info"]
                    small = dict(small, where=[
                        f"thread {t} hands over before {info[t][k][0]}:{info[t][k][1]}"
                        for t in ("L", "W") for k in small["switch" + t] if k < len(info[t])
                    ])
                except Exception:  # noqa: BLE001
                    pass
                ctx.fail(sig, desc + f" [stream {stream}; char {case['char']}; loop program {case['loop']}; "
                         f"worker {case['worker']}"
                         + (" (its thread runs an asyncio loop of its own)" if case.get("wkind") == "own-loop" else "")
                         + f"; preemption points L{small['switchL']} W{small['switchW']} "
                         f"({small['gran']} granularity)]", small)
        sp = r["sched_part"]
        st.case([case["char"], case["prologue"], case["loop"], [str(u) for u in case["worker"]], sp],
                r["interleaved"])
        st.hit("op", stream.split("/")[0])
        for op in case["loop"]:
            st.hit("op", "loop:" + op[0])
        st.hit("outcome", "interleaved" if r["interleaved"] else "serial")
        if r.get("atomic") and not r.get("overlap"):
            st.hit("outcome", "updates-landed-whole: reads in progress judged against all serial orders")
        if "none" in r["impl"]["results"][: len(r["impl"]["results"]) - 3]:
            st.hit("outcome", "read-in-progress-returned-None")
        if "L:W:cacheV" in sp and sp.count("L:R:value") >= 2 and sp[-1:] != ["L:R:value"]:
            pass
        if r["verdicts"]:
            st.hit("outcome", "oracle:" + r["verdicts"][0][0])
        if r.get("tie_problem"):
            st.hit("outcome", "access-level tie not established (oracle only)")
            if not any(d.stream == "access-level-tie" for d in ctx.disagreements):
                ctx.disagree(
                    "access-level-tie", case,
                    "access-level tie could not be established: " + r["tie_problem"],
                    {"accesses_logged": r["impl"]["trace"]},
                )
            continue
        if r.get("oracle_only"):
            st.hit("outcome", "override_properties from the worker thread (value sentence judged by the oracle; not in the model)")
            if r.get("stale_meta"):
                st.hit("outcome", "observation (not judged): representation served after completion keeps superseded "
                                  "minValue/maxValue/minStep")
            continue
        if r.get("overlap"):
            # outside the model's Serial assumption and outside C20's oracle (C12's known finding)
            st.hit("outcome", "controller-write-overlaps-worker-update(left to C12, not judged)")
            continue
        lines.append(r["line"])
        impls.append(r["impl"])
        metas.append((stream, case))
    if not correspond:
        return
    models = run_model_parallel("C20", lines)
    drops = 0
    for (stream, case), ln, m, i in zip(metas, lines, models, impls):
        st.traces_validated += 1
        mo = model_obs(m)
        if mo != i or m.get("stuck") or not m.get("done", True):
            ctx.disagree(stream, case, _brief(mo, i), _brief(i, mo))
    for i, (ln, m, im) in enumerate(zip(lines, models, impls)):
        if i in (0, len(lines) // 3, (2 * len(lines)) // 3, len(lines) - 1):
            st.sample({"case": _short_case(metas[i][1]), "stream": metas[i][0],
                       "accesses_in_order": im["trace"], "impl_results": im["results"],
                       "model_results": m.get("results"), "events": im["delivered"],
                       "private_diagnostics": {"model_final_cacheV": m.get("cacheV")}})
    del drops


def _brief(a, b):
    """The parts of observation `a` that differ from `b`."""
    if not isinstance(a, dict) or not isinstance(b, dict):
        return a
    return {k: v for k, v in a.items() if b.get(k) != v}


def run(ctx: Ctx):
    st = ctx.stats
    st.rule = (
        "case = (characteristic kind, prologue, loop program, worker updates, schedule). Streams: exhaustive single "
        "preemption of every loop operation scenario by a whole set_value at every line (single/), the mirror image "
        "(reverse/), double preemption with two updates (double/), the same at bytecode granularity "
        "(single-opcode/, reverse-opcode/), phased programs (phased/: a first update is drained into the "
        "connection's queue with its timer armed, then controller write by the subscriber / by another connection, "
        "unsubscribe+resubscribe, repeated subscribe, timer expiry on a full or emptied queue, direct flush; a "
        "second update lands at every point of that program; phased1/: no second update), the single / reverse "
        "sweeps with a worker whose thread runs an asyncio loop of its own (ownloop/, ownloop-reverse/), a worker "
        "that calls override_properties (override/, override-then-set/: oracle only), the single / phased1 sweeps "
        "on connections with IPv6 peer names (single-v6/, single-v6-global/, phased1-v6/), requests that arrive in "
        "two reads with loop work in between (split/), random "
        "programs under "
        "random schedules (random). A case is non-trivial "
        "if the shared-variable accesses of the two threads actually interleave (neither thread's accesses all "
        "precede the other's); distinct by the global access order."
    )
    ctx.assumptions += [
        "preemption granularity: source lines (and bytecodes in the *-opcode streams) of pyhap code; a thread switch "
        "inside one C-level operation and free-threaded builds are not covered",
        "one characteristic without getter_callback, not always-null, not immediate-notify",
        "controller writes of the same characteristic are serialised against worker updates (no overlap with an "
        "update or its undrained hand-off); overlapping runs are left to C12 (known finding) and only counted",
    ]
    tracing_on()
    try:
        cases = gen_cases(ctx)
        _evaluate(ctx, cases)
    finally:
        tracing_off()
    st.exhaustive = False
    st.notes.append(
        "a read in progress that returns no representation (to_HAP preempted between the test of a warm cache and "
        "a second load of the slot) is judged by the oracle (C20:read-returned-no-representation) and excluded by "
        "the model with the single-read early return (C20_read_never_none)"
    )


def search(ctx: Ctx):
    """Deeper failing-input search on the real code (oracle only)."""
    saved = ctx.tier
    ctx.tier = "thorough"
    tracing_on()
    try:
        cases = gen_cases(ctx)
        ctx.tier = saved
        _evaluate(ctx, cases, correspond=False)
    finally:
        ctx.tier = saved
        tracing_off()


def replay(ctx: Ctx, r):
    if "char" not in r:
        return _replay_tie(r)
    res = run_case(r)
    _print_run(r, res)
    for sig, desc in res["verdicts"]:
        print("FAILS:", sig, desc)
    if res.get("stale_meta"):
        print("OBSERVATION (not judged by C20, which speaks of the value): after everything completed, GET /accessories "
              "serves a representation whose properties differ from the characteristic's properties:", res["stale_meta"])
    print("verdict:", "property violated on this input" if res["verdicts"] else "holds on this input")
    return 1 if res["verdicts"] else 0


def _print_run(r, res):
    print("char", r["char"], "init", r["init"], "prologue", r["prologue"], "loop", r["loop"], "worker", r["worker"])
    if r.get("peer", "v4") != "v4":
        print("peer names as reported by an IPv6 listener:", [peer_name(r["peer"], c) for c in r.get("conns", [])])
    print("schedule: start", r.get("start", "L"), "switchL", r.get("switchL"), "switchW", r.get("switchW"),
          "granularity", r.get("gran", "line"), "| worker thread:",
          "runs its own asyncio loop" if r.get("wkind") == "own-loop" else "plain")
    for t in ("L", "W"):
        for k in r.get("switch" + t, []):
            info = res["yield_info"][t]
            if k < len(info):
                print(f"  thread {t} hands over before {info[k][0]}:{info[k][1]}")
    print("shared accesses in order (scheduled section):", " ".join(res["sched_part"]))
    print("operation results (last three = GET /accessories, GET /accessories, GET /characteristics after completion):",
          res["impl"]["results"])
    print("events per connection:", res["impl"]["delivered"])


def _replay_tie(payload) -> int:
    """Replay of a `no-failing-input-found` file: re-run the recorded disagreeing cases on the real
    code and on the model and show whether they still differ (no property verdict is attached)."""
    from common import run_model

    ds = [d for d in payload.get("correspondence_disagreements", []) if isinstance(d.get("case"), dict)]
    if payload.get("broken_proof_obligations"):
        print("broken proof obligations:", payload["broken_proof_obligations"])
    still = 0
    for d in ds[:3]:
        case = d["case"]
        res = run_case(case)
        _print_run(case, res)
        if res.get("tie_problem"):
            print("access-level tie could not be established:", res["tie_problem"])
            for sig, desc in res["verdicts"]:
                print("FAILS:", sig, desc)
            still += 1
            continue
        m = run_model("C20", [res["line"]])[0]
        mo = model_obs(m)
        differs = mo != res["impl"] or m.get("stuck") or not m.get("done", True)
        print("model :", _brief(mo, res["impl"]) if differs else "(same accesses, results and events)")
        print("impl  :", _brief(res["impl"], mo) if differs else "(same)")
        for sig, desc in res["verdicts"]:
            print("FAILS:", sig, desc)
            still += 1
        still += 1 if differs else 0
    print("verdict:", "model and implementation still differ on the recorded case(s)" if still
          else "model and implementation agree on the recorded case(s)")
    return 1 if still else 0
