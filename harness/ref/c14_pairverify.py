"""Reference HomeKit controller side of pair-verify (written from the HAP pair-verify description:
X25519 + HKDF-SHA512 + ChaCha20-Poly1305 + Ed25519; shares no code with pyhap). Used by C14 to
check that previously paired controllers verify identically after a restart.

`post(body) -> (status, body)` sends one POST /pair-verify on ONE connection.
"""
from __future__ import annotations

from typing import Callable, Tuple

from cryptography.exceptions import InvalidSignature, InvalidTag
from cryptography.hazmat.primitives import hashes, serialization
from cryptography.hazmat.primitives.asymmetric import ed25519, x25519
from cryptography.hazmat.primitives.ciphers.aead import ChaCha20Poly1305
from cryptography.hazmat.primitives.kdf.hkdf import HKDF

from . import tlv8

T_USER, T_PUB, T_ENC, T_SEQ, T_ERR, T_PROOF = 1, 3, 5, 6, 7, 10
RAW = (serialization.Encoding.Raw, serialization.PublicFormat.Raw)


def _hkdf(key: bytes) -> bytes:
    return HKDF(algorithm=hashes.SHA512(), length=32, salt=b"Pair-Verify-Encrypt-Salt", info=b"Pair-Verify-Encrypt-Info").derive(key)


def _nonce(label: bytes) -> bytes:
    return b"\x00" * 4 + label


def controller_key(seed: bytes) -> Tuple[ed25519.Ed25519PrivateKey, bytes]:
    sk = ed25519.Ed25519PrivateKey.from_private_bytes(seed)
    return sk, sk.public_key().public_bytes(*RAW)


def pair_verify(post: Callable[[bytes], Tuple[int, bytes]], id_bytes: bytes, seed: bytes,
                accessory_ltpk: bytes, accessory_id: bytes) -> str:
    """Run M1..M4 honestly. Returns "verified" or a reason why not."""
    return pair_verify_ex(post, id_bytes, seed, accessory_ltpk, accessory_id)


def pair_verify_ex(post: Callable[[bytes], Tuple[int, bytes]], id_bytes, seed: bytes,
                   accessory_ltpk: bytes, accessory_id: bytes, proof: str = "sign", outer_ok: bool = True) -> str:
    """Run M1..M4, possibly dishonestly. `id_bytes` is the identifier CLAIMED in M3 (None: item
    left out); `seed` the Ed25519 private key the proof is really made with; `proof`: "sign"
    (signature over the right material), "garbage" (64 arbitrary bytes), "wrong-material" (a real
    signature over other bytes), "missing" (no proof item); `outer_ok=False` seals the M3 sub-TLV
    with a key other than the exchange key. Returns "verified" or a reason why not."""
    sk, _ = controller_key(seed)
    eph = x25519.X25519PrivateKey.generate()
    eph_pub = eph.public_key().public_bytes(*RAW)
    code, body = post(tlv8.encode([(T_SEQ, b"\x01"), (T_PUB, eph_pub)]))
    if code != 200:
        return f"M2 HTTP {code}"
    m2 = tlv8.merge_dict(tlv8.decode_list(body))
    if T_ERR in m2:
        return f"M2 error {m2[T_ERR].hex()}"
    if m2.get(T_SEQ) != b"\x02" or T_PUB not in m2 or T_ENC not in m2:
        return "M2 malformed"
    acc_pub = m2[T_PUB]
    session = _hkdf(eph.exchange(x25519.X25519PublicKey.from_public_bytes(acc_pub)))
    try:
        inner = tlv8.merge_dict(tlv8.decode_list(ChaCha20Poly1305(session).decrypt(_nonce(b"PV-Msg02"), m2[T_ENC], b"")))
    except InvalidTag:
        return "M2 does not decrypt"
    if inner.get(T_USER) != accessory_id:
        return "accessory identifier differs"
    try:
        ed25519.Ed25519PublicKey.from_public_bytes(accessory_ltpk).verify(inner.get(T_PROOF, b""), acc_pub + accessory_id + eph_pub)
    except InvalidSignature:
        return "accessory signature does not verify under its saved long-term key"
    idb = id_bytes if id_bytes is not None else b""
    items = [] if id_bytes is None else [(T_USER, id_bytes)]
    if proof == "sign":
        items.append((T_PROOF, sk.sign(eph_pub + idb + acc_pub)))
    elif proof == "garbage":
        items.append((T_PROOF, bytes((i * 37 + 11) & 0xFF for i in range(64))))
    elif proof == "wrong-material":
        items.append((T_PROOF, sk.sign(acc_pub + idb + eph_pub)))
    key = session if outer_ok else _hkdf(b"\x42" * 32)
    enc = ChaCha20Poly1305(key).encrypt(_nonce(b"PV-Msg03"), tlv8.encode(items), b"")
    code, body = post(tlv8.encode([(T_SEQ, b"\x03"), (T_ENC, enc)]))
    if code != 200:
        return f"M4 HTTP {code}"
    m4 = tlv8.merge_dict(tlv8.decode_list(body))
    if T_ERR in m4:
        return f"M4 error {m4[T_ERR].hex()}"
    return "verified" if m4.get(T_SEQ) == b"\x04" else "M4 malformed"
