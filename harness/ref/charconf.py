"""Independent statement of C09: when does a value satisfy the constraints a characteristic declares?

Written from the property text and the HAP specification (R2, section 6.3.3 "Characteristic
properties"); shares no code with pyhap and is never derived from the Lean model.

A property set is the public `Characteristic.properties` dict:
  Format, minValue, maxValue, minStep, ValidValues {name: int}, maxLen.
"""
from __future__ import annotations

import math
from typing import Any, Dict, Optional

INTEGER_FORMATS = {"int", "uint8", "uint16", "uint32", "uint64"}
NUMERIC_FORMATS = INTEGER_FORMATS | {"float"}
SPEC_DEFAULT_MAX_LEN = 64  # HAP: maxLen defaults to 64 when not declared
SPEC_ABSOLUTE_MAX_LEN = 256


def _is_number(x: Any) -> bool:
    return isinstance(x, (int, float))


def _finite_number(x: Any) -> bool:
    return _is_number(x) and not isinstance(x, bool) and (isinstance(x, int) or math.isfinite(x))


def _integral(x: Any) -> bool:
    return isinstance(x, int) or (isinstance(x, float) and math.isfinite(x) and x == int(x))


def valid_values(props: Dict[str, Any]):
    vv = props.get("ValidValues")
    return list(vv.values()) if vv else []


def in_bounds(props: Dict[str, Any], v: Any) -> bool:
    lo, hi = props.get("minValue"), props.get("maxValue")
    if lo is not None and not lo <= v:
        return False
    if hi is not None and not v <= hi:
        return False
    return True


def admits_conforming(props: Dict[str, Any]) -> bool:
    """Does some value satisfy the declared constraints?  This is what gates the oracle: whenever a
    conforming value exists the stored / reported / emitted values are judged.  (A declared maxLen
    above 256 does not empty the set of conforming values, so such a set IS judged: it can only be
    there because a refused override left it behind.)"""
    fmt = props["Format"]
    ml = props.get("maxLen")
    if fmt == "string" and ml is not None and not (isinstance(ml, int) and ml >= 0):
        return False
    vv = valid_values(props)
    if fmt not in NUMERIC_FORMATS:
        return not vv
    lo, hi = props.get("minValue"), props.get("maxValue")
    for b in (lo, hi):
        if b is not None and not _finite_number(b):
            return False
    if lo is not None and hi is not None and not lo <= hi:
        return False
    if fmt in INTEGER_FORMATS:
        for b in (lo, hi):
            if b is not None and not _integral(b):
                return False
    for x in vv:
        if not (isinstance(x, int) and not isinstance(x, bool)):
            return False
        if not in_bounds(props, x):
            return False
    return True


def consistent(props: Dict[str, Any]) -> bool:
    """A property set a characteristic can be given (DESIGN C09, 'Reading'): it admits conforming
    values, its maxLen is acceptable (0..256) and its minStep (numeric formats) is a number.  Used by the generators and compared with the
    model's `consistent`."""
    ml = props.get("maxLen")
    if ml is not None and not (isinstance(ml, int) and 0 <= ml <= SPEC_ABSOLUTE_MAX_LEN):
        return False
    if props["Format"] in NUMERIC_FORMATS and props.get("minStep") is not None and not _is_number(props["minStep"]):
        return False  # a step that is not a number is no step at all
    return admits_conforming(props)


def nonconformity(props: Dict[str, Any], always_null: bool, allow_invalid: bool, v: Any) -> Optional[str]:
    """None if `v` satisfies the declared constraints, else a short stable reason."""
    if always_null and v is None:
        return None  # null is the specified value of this characteristic type
    fmt = props["Format"]
    if fmt == "string":
        if not isinstance(v, str):
            return "not-a-string"
        if len(v) > props.get("maxLen", SPEC_DEFAULT_MAX_LEN):
            return "too-long"
        return None
    if fmt == "bool":
        return None if isinstance(v, bool) else "not-a-boolean"
    if fmt in NUMERIC_FORMATS:
        if fmt in INTEGER_FORMATS:
            if not (isinstance(v, int) and not isinstance(v, bool)):
                return "not-an-integer"
        elif not _is_number(v):
            # (a bool is numerically 0/1: `set_value(True)` on a float characteristic is an
            #  observation outside the property, DESIGN section 9)
            return "not-a-number"
        if not in_bounds(props, v):
            return "out-of-range"
        vv = valid_values(props)
        if vv and not allow_invalid and not any(v == x for x in vv):
            return "not-a-valid-value"
        return None
    return None  # tlv8 / data / array / dictionary: no constraint in the property
