"""Test rig shared by the C11 and C17 harness modules: a real `AccessoryDriver` with a real
top-level `Bridge` / `Accessory` built from the shipped service definitions, driven in-process.

Objects (services, characteristics) are numbered in creation order (a service, then its
characteristics in list order); the Lean model allocates its identities the same way, so a
number names the same object on both sides.
"""
from __future__ import annotations

import asyncio
import json
import logging
from typing import Any, Dict, List, Optional

ALWAYS_NULL_TYPES = {"00000073-0000-1000-8000-0026BB765291"}


def from_pyhap(ex: BaseException) -> bool:
    """True if the exception was raised by / passed through the implementation under check (a
    frame inside the pyhap package): then it is an observation about pyhap, not a harness bug."""
    import os

    tb = ex.__traceback__
    while tb is not None:
        fn = tb.tb_frame.f_code.co_filename.replace(os.sep, "/")
        if "/pyhap/" in fn:
            return True
        tb = tb.tb_next
    return False


#: objects reached by Characteristic.get_value / client_update_value, in call order: ("r"|"w", object)
TRACE: List[tuple] = []
#: recording is switched on only while a harness module inspects identities
TRACE_ON = [False]


def install_recorders():
    """Class-level recording wrappers around `Characteristic.get_value` and
    `Characteristic.client_update_value` (identity of the object a read / a write reaches, without
    installing callbacks that would change how the characteristic behaves). Idempotent per class."""
    from pyhap.characteristic import Characteristic

    if getattr(Characteristic, "_verif_recorders", False):
        return
    real_get, real_update = Characteristic.get_value, Characteristic.client_update_value

    def get_value(self):
        if TRACE_ON[0]:
            TRACE.append(("r", self))
        return real_get(self)

    def client_update_value(self, value, sender_client_addr=None):
        if TRACE_ON[0]:
            TRACE.append(("w", self))
        return real_update(self, value, sender_client_addr)

    Characteristic.get_value = get_value
    Characteristic.client_update_value = client_update_value
    Characteristic._verif_recorders = True


def bump_value(c) -> bool:
    """Change the characteristic's value through the public `set_value` (which notifies when the
    value changed and the characteristic belongs to an accessory). True if the value changed."""
    props = c.properties
    fmt = props.get("Format")
    old = c.value
    vv = props.get("ValidValues")
    if vv:
        cands = list(vv.values())
    elif fmt == "bool":
        cands = [True, False]
    elif fmt in ("int", "float", "uint8", "uint16", "uint32", "uint64"):
        lo, hi = props.get("minValue", 0), props.get("maxValue", 100)
        cands = [lo, hi, 1, 2, 21.5 if fmt == "float" else 21, 50]
    elif fmt == "string":
        cands = ["x", "y"]
    else:
        cands = ["AQEA", "AgEB"]
    for v in cands:
        try:
            c.set_value(v)
        except Exception:  # noqa: BLE001 - not a valid value for this characteristic: try the next
            continue
        if c.value != old:
            return True
    return False


def early_changes(acc, picks) -> List[Any]:
    """`set_value` on the picked characteristics (indices into all of the accessory's
    characteristics) -- used before the accessory is handed to the bridge / driver."""
    chars = [c for s in acc.services for c in s.characteristics]
    done = []
    for k in picks:
        if chars and bump_value(chars[k % len(chars)]):
            done.append(chars[k % len(chars)])
    return done


#: the "device" behind each live characteristic: id(char) -> [current raw reading]
DEVICE: Dict[int, list] = {}


def live_class():
    """An application subclass of the public `Characteristic` that overrides the public accessor
    `get_value()`: the value lives in the device and is read on demand (no getter callback, nothing
    goes through a setter).  Same object layout as `Characteristic`, so a characteristic the loader
    built can be given this class before the driver ever sees it."""
    from pyhap.characteristic import Characteristic

    cls = getattr(Characteristic, "_verif_live_class", None)
    if cls is None:

        class LiveCharacteristic(Characteristic):
            __slots__ = ()

            def get_value(self):
                if TRACE_ON[0]:
                    TRACE.append(("r", self))
                return self.to_valid_value(DEVICE[id(self)][0])

        cls = LiveCharacteristic
        Characteristic._verif_live_class = cls
    return cls


def overrides_get_value(char) -> bool:
    """True if the characteristic's class (an application subclass) overrides `get_value`."""
    from pyhap.characteristic import Characteristic

    for k in type(char).__mro__:
        if k is Characteristic:
            return False
        if "get_value" in vars(k):
            return True
    return False


def custom_manager(spec: Optional[dict]):
    """An application `IIDManager` subclass overriding the documented extension point
    `get_iid_for_obj` (the pattern of tests/test_accessory.py::test_acc_with_custom_iid_manager): objects
    the application knows by `unique_id` keep the iid recorded for them, everything else is numbered
    automatically by the base class; the application starts the counter where it wants.
    spec = {"start": counter at construction, "recorded": {unique_id: iid}}; None = the stock manager."""
    if spec is None:
        return None
    from pyhap.iid_manager import IIDManager

    class RecordedIIDManager(IIDManager):
        def __init__(self, recorded, start):
            super().__init__()
            self.recorded = dict(recorded)
            self.counter = start

        def get_iid_for_obj(self, obj):
            iid = self.recorded.get(getattr(obj, "unique_id", None))
            if iid is not None:
                return iid
            return super().get_iid_for_obj(obj)

    return RecordedIIDManager(spec["recorded"], spec["start"])


class GetterBoom(Exception):
    pass


class SetterBoom(Exception):
    pass


class ScriptedGetter:
    """A side-effect-free getter callback: returns the scripted value or raises."""

    def __init__(self, mode: str, value: Any = None):
        self.mode = mode
        self.value = value
        self.calls = 0

    def __call__(self):
        self.calls += 1
        if self.mode == "raise":
            raise GetterBoom("scripted getter failure")
        return self.value


class Rig:
    def __init__(self, bridge: bool, main_specs: List[dict], main_aid: Optional[int] = 1, main_early=None,
                 main_manager: Optional[dict] = None):
        import pyhap.accessory_driver as ad
        from pyhap.accessory import Accessory, Bridge
        from pyhap.loader import Loader

        logging.disable(logging.CRITICAL)
        self.Accessory = Accessory
        self.Bridge = Bridge

        class RigAccessory(Accessory):
            """Bridged accessory whose `available` can be switched by a history."""

            rig_available = True

            @property
            def available(self):
                return self.rig_available

        self.RigAccessory = RigAccessory
        install_recorders()
        from vloop import VLoop

        self.loop = VLoop()  # virtual time: the 0.5 s event coalescing window is crossed with advance()
        self.conns: Dict[tuple, tuple] = {}  # peer -> (HAPServerProtocol, FakeTransport): real connections
        # one loader per driver, as an application has it -- and a fresh one per rig, so that nothing
        # one history does to loader-level state can leak into the next history
        self.loader = Loader()
        self.driver = ad.AccessoryDriver(
            loop=self.loop,
            address="127.0.0.1",
            persist_file="/nonexistent-dir/verif-accessory.state",
            mac="AA:BB:CC:DD:EE:FF",
            pincode=b"031-45-154",
            loader=self.loader,
        )
        self.driver.persist = lambda: None  # no file system traffic
        self.driver.aio_stop_event = asyncio.Event()
        self.is_bridge = bridge
        self.objs: List[Any] = []  # number -> object
        self.ids: Dict[int, int] = {}  # id(object) -> number
        self.loader_names: Dict[int, Optional[str]] = {}  # id(char) -> loader display name
        mgr = custom_manager(main_manager)
        self.top = (Bridge(self.driver, "Top", iid_manager=mgr) if bridge
                    else Accessory(self.driver, "Top", aid=main_aid, iid_manager=mgr))
        for spec in main_specs:
            self.add_service(self.top, spec, number=False)
        self.number_accessory(self.top)
        # value changes made while the accessory is being set up, before the driver knows it
        self.early_objs = early_changes(self.top, main_early or [])
        self.driver.add_accessory(self.top)
        self.events: List[dict] = []  # every acc_data handed to driver.publish
        self.pushed: List[tuple] = []  # (data, client) handed to http_server.push_event
        real_publish = self.driver.publish

        def publish(data, sender_client_addr=None, immediate=False):
            self.events.append(dict(data))
            return real_publish(data, sender_client_addr, immediate)

        self.driver.publish = publish
        def push_event(data, client, immediate=False):
            proto = self.driver.http_server.connections.get(client)
            if proto is not None:
                # a real connection: the payload goes into the protocol's own queue, by reference, as
                # HAPServer.push_event does; what the peer receives is read from its transport
                proto.queue_event(data, immediate)
                return True
            self.pushed.append((dict(data), client))
            return True

        self.driver.http_server.push_event = push_event

    def connect(self, peer: tuple):
        """A real HAPServerProtocol on a fake transport (plaintext: events are written as they are)."""
        import pyhap.hap_protocol as hp
        from vloop import FakeTransport

        proto = hp.HAPServerProtocol(self.loop, self.driver.http_server.connections, self.driver)
        tr = FakeTransport(peer)
        proto.connection_made(tr)
        self.conns[peer] = (proto, tr)
        return proto, tr

    def disconnect(self, peer: tuple):
        proto, tr = self.conns.pop(peer)
        try:
            proto.close()
        except Exception:  # noqa: BLE001
            pass
        self.driver.connection_lost(peer)

    def delivered(self, peer: tuple) -> List[dict]:
        """Decode and consume the EVENT messages written to a real connection so far: the list of
        characteristic entries the peer received, in order."""
        proto, tr = self.conns[peer]
        data = tr.data()
        del tr.writes[:]
        out: List[dict] = []
        while data:
            head, sep, rest = data.partition(b"\r\n\r\n")
            if not sep:
                out.append({"undecodable": data[:40].hex()})
                break
            n = 0
            for line in head.split(b"\r\n")[1:]:
                k, _, v = line.partition(b":")
                if k.strip().lower() == b"content-length":
                    n = int(v.strip())
            body, data = rest[:n], rest[n:]
            if head.startswith(b"EVENT/"):
                try:
                    out += json.loads(body).get("characteristics", [])
                except ValueError:
                    out.append({"undecodable": body[:40].hex()})
        return out

    def close(self):
        try:
            self.loop.settle()
        except Exception:  # noqa: BLE001
            pass
        try:
            self.loop.close()
        except Exception:  # noqa: BLE001
            pass

    # ------------------------------------------------------------------ construction

    def number_service(self, svc):
        for o in [svc, *svc.characteristics]:
            if id(o) not in self.ids:
                self.ids[id(o)] = len(self.objs)
                self.objs.append(o)
        for c in svc.characteristics:
            self.loader_names.setdefault(id(c), c.display_name)

    def number_accessory(self, acc):
        for s in acc.services:
            self.number_service(s)

    def add_service(self, acc, spec: dict, number: bool = True):
        """`acc.add_preload_service(name, chars=optional names)` with a fresh service."""
        if "raw" in spec:
            svc = self.raw_service(spec)
            acc.add_service(svc)
        else:
            opt = list(spec.get("opt") or [])
            svc = acc.add_preload_service(spec["svc"], chars=opt if opt else None, unique_id=spec.get("uid"))
        if number:
            self.number_service(svc)
        return svc

    def raw_service(self, spec: dict):
        """A service assembled by hand: `Service(uuid)`, then one `add_characteristic(*chars)` call per
        entry of spec["calls"] with fresh characteristics from the loader.  With spec["sameObject"] a
        repeated name passes the object created for its first occurrence again, otherwise every
        occurrence is a fresh object of that type."""
        from uuid import UUID

        from pyhap.service import Service

        svc = Service(UUID(spec["raw"]), "Custom")
        first = {}
        for call in spec.get("calls") or [spec["charNames"]]:
            objs = []
            for name in call:
                if spec.get("sameObject") and name in first:
                    objs.append(first[name])
                else:
                    c = self.driver.loader.get_char(name)
                    first.setdefault(name, c)
                    objs.append(c)
            svc.add_characteristic(*objs)
        return svc

    def new_accessory(self, aid: Optional[int], specs: List[dict], cat_bridge: bool = False, manager: Optional[dict] = None):
        """A fresh accessory (not yet bridged, objects not yet numbered)."""
        if cat_bridge:
            acc = self.Bridge(self.driver, "Inner bridge")
        else:
            acc = self.RigAccessory(self.driver, "Acc", aid=aid, iid_manager=custom_manager(manager))
        for spec in specs:
            self.add_service(acc, spec, number=False)
        return acc

    def accessory(self, aid: int):
        if aid == 1:
            return self.top
        if self.is_bridge:
            return self.top.accessories.get(aid)
        return None

    def accessories(self):
        """(key, accessory) for the top-level accessory and every bridged one."""
        res = [(1, self.top)]
        if self.is_bridge:
            res += list(self.top.accessories.items())
        return res

    def num(self, obj) -> Optional[int]:
        return self.ids.get(id(obj)) if obj is not None else None

    # ------------------------------------------------------------------ HTTP through the real handler

    def handler(self, addr=("10.0.0.9", 5000)):
        from pyhap.hap_handler import HAPServerHandler

        h = HAPServerHandler(self.driver, addr)
        h.is_encrypted = True  # a verified session
        return h

    def http(self, method: str, target: str, body: Optional[bytes] = None, addr=("10.0.0.9", 5000)):
        import h11

        req = h11.Request(method=method, target=target, headers=[("Host", "verif")])
        resp = self.handler(addr).dispatch(req, body)
        doc = None
        if resp.body:
            try:
                doc = json.loads(resp.body)
            except ValueError:
                doc = None
        return resp.status_code, doc


def spec_pool(loader) -> List[dict]:
    """Every shipped service name with its optional characteristic names."""
    return [
        {"svc": name, "optional": list(d.get("OptionalCharacteristics", []))}
        for name, d in loader.serv_types.items()
    ]


def random_raw_spec(rng, pool, loader) -> dict:
    """A hand-assembled service whose add_characteristic calls repeat a type (within one call and/or
    in a later call)."""
    names = rng.sample(list(loader.char_types), rng.choice([2, 3, 4]))
    calls = [list(names)]
    x = rng.random()
    dup = rng.choice(names)
    if x < 0.45:
        calls[0].insert(rng.randrange(1, len(calls[0]) + 1), dup)  # twice in one call
    elif x < 0.7:
        calls.append([dup, rng.choice(list(loader.char_types))])  # again in a later call
    elif x < 0.9:
        calls[0].append(dup)
        calls.append([rng.choice(names)])
    flat = [n for call in calls for n in call]
    return {"raw": loader.serv_types[rng.choice(pool)["svc"]]["UUID"], "charNames": flat, "calls": calls,
            "sameObject": rng.random() < 0.4}


def random_spec(rng, pool) -> dict:
    row = rng.choice(pool)
    opt = [c for c in row["optional"] if rng.random() < 0.25][:3]
    return {"svc": row["svc"], "opt": opt}
