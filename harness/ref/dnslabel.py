"""Independent validators for the two DNS labels an accessory advertises (C18).

Written from RFC 1035 §2.3.1/§2.3.4 (label = 1..63 octets; host names: letters, digits, hyphen,
no leading/trailing hyphen — RFC 952/1123 "LDH") and RFC 6763 §4.1.1 (a DNS-SD instance name is
a single label of 1..63 octets of Net-Unicode/UTF-8).  The reading of C18 (DESIGN.md) adds: an
instance label has no leading or trailing space.  Shares no code with pyhap.
"""
from __future__ import annotations

from typing import Optional

_LDH = set("abcdefghijklmnopqrstuvwxyzABCDEFGHIJKLMNOPQRSTUVWXYZ0123456789-")


def instance_label_problem(label: str) -> Optional[str]:
    """None if `label` is a valid DNS-SD instance label, else a short stable reason."""
    try:
        raw = label.encode("utf-8")
    except UnicodeEncodeError:
        return "not-utf8"
    if len(raw) < 1:
        return "empty"
    if len(raw) > 63:
        return "too-long"
    if label[0] == " ":
        return "leading-space"
    if label[-1] == " ":
        return "trailing-space"
    return None


def host_label_problem(label: str) -> Optional[str]:
    """None if `label` is a valid LDH host label, else a short stable reason."""
    if len(label) < 1:
        return "empty"
    if len(label) > 63:
        return "too-long"
    if any(c not in _LDH for c in label):
        return "non-ldh-character"
    if label[0] == "-":
        return "leading-dash"
    if label[-1] == "-":
        return "trailing-dash"
    return None


def first_label(fqdn: str, suffix: str) -> Optional[str]:
    """The part of `fqdn` in front of `suffix` (`"._hap._tcp.local."` / `".local."`)."""
    if not fqdn.endswith(suffix):
        return None
    return fqdn[: -len(suffix)]
