"""Application-supplied state encoders (the documented `AccessoryDriver(encoder=...)` argument) used as a
configuration dimension of the C06 / C14 whole-life and round-trip histories.

Each one is an `AccessoryEncoder` subclass whose `persist` / `load_into` are exact inverses of each other and
delegate the DOCUMENT to the stock encoder of the tree under check; only the file layout around it differs, so
the state file is not one bare JSON value of the stock shape.  `wrap` / `unwrap` are the envelope alone (used by
the harness to author start files in that layout and to look at the document inside a written file).
"""
from __future__ import annotations

import base64
import hashlib
import io
import json

KINDS = ["stock", "checksum", "base64", "wrapped"]


def make(kind: str):
    """A fresh encoder object of the given kind (None = let the driver use its default)."""
    if kind == "stock":
        return None
    from pyhap.encoder import AccessoryEncoder

    env = ENVELOPES[kind]

    class _Custom(AccessoryEncoder):
        def persist(self, fp, state):  # pylint: disable=arguments-differ
            body = io.StringIO()
            AccessoryEncoder.persist(body, state)
            fp.write(env.wrap(body.getvalue()))

        def load_into(self, fp, state):  # pylint: disable=arguments-differ
            AccessoryEncoder.load_into(io.StringIO(env.unwrap(fp.read())), state)

    _Custom.__name__ = f"Custom{kind.capitalize()}Encoder"
    return _Custom()


class _Stock:
    @staticmethod
    def wrap(text: str) -> str:
        return text

    @staticmethod
    def unwrap(text: str) -> str:
        return text


class _Checksum:
    """first line: sha256 of the document; then the document"""

    @staticmethod
    def wrap(text: str) -> str:
        return "sha256=" + hashlib.sha256(text.encode("utf8")).hexdigest() + "\n" + text

    @staticmethod
    def unwrap(text: str) -> str:
        head, _, body = text.partition("\n")
        if head.strip() != "sha256=" + hashlib.sha256(body.encode("utf8")).hexdigest():
            raise ValueError("state file failed its integrity check")
        return body


class _Base64:
    """the document, base64 encoded (e.g. below an obfuscation / encryption layer)"""

    @staticmethod
    def wrap(text: str) -> str:
        return base64.b64encode(text.encode("utf8")).decode("ascii")

    @staticmethod
    def unwrap(text: str) -> str:
        return base64.b64decode(text.encode("ascii"), validate=True).decode("utf8")


class _Wrapped:
    """a versioned JSON envelope: valid JSON, but the stock members are one level down"""

    @staticmethod
    def wrap(text: str) -> str:
        return json.dumps({"format": 2, "state": json.loads(text)})

    @staticmethod
    def unwrap(text: str) -> str:
        outer = json.loads(text)
        if not isinstance(outer, dict) or outer.get("format") != 2:
            raise ValueError("not a format-2 state file")
        return json.dumps(outer["state"])


ENVELOPES = {"stock": _Stock, "checksum": _Checksum, "base64": _Base64, "wrapped": _Wrapped}
