"""Independent reference for the HAP session transport ("HAP TLS"), written from the HAP spec:

* keys: HKDF-SHA512(shared secret, salt "Control-Salt", info "Control-Write-Encryption-Key"
  (controller -> accessory) / "Control-Read-Encryption-Key" (accessory -> controller)), 32 bytes;
* a frame = LE16 payload length (also the AAD) || ChaCha20-Poly1305(key, nonce, payload) with
  nonce = 4 zero bytes || LE64 frame counter (counter starts at 0, +1 per frame, per direction);
* payload length 1..1024.

Shares no code with pyhap. The cipher is pluggable (`real(key)` or `Mock(key)`), the mock being a
transparent tag function that the Lean model implements identically (HapModel/Frame.lean).
"""
from __future__ import annotations

from typing import Callable, List, Optional, Tuple

from cryptography.exceptions import InvalidTag
from cryptography.hazmat.primitives import hashes
from cryptography.hazmat.primitives.ciphers.aead import ChaCha20Poly1305
from cryptography.hazmat.primitives.kdf.hkdf import HKDF

SALT = b"Control-Salt"
C2A = b"Control-Write-Encryption-Key"
A2C = b"Control-Read-Encryption-Key"


def hkdf(key: bytes, salt: bytes, info: bytes) -> bytes:
    return HKDF(algorithm=hashes.SHA512(), length=32, salt=salt, info=info).derive(key)


def nonce(counter: int) -> bytes:
    return b"\x00\x00\x00\x00" + counter.to_bytes(8, "little")


class Real:
    def __init__(self, key: bytes):
        self.c = ChaCha20Poly1305(key)

    def seal(self, counter: int, aad: bytes, pt: bytes) -> bytes:
        return self.c.encrypt(nonce(counter), pt, aad)

    def open(self, counter: int, aad: bytes, ct: bytes) -> Optional[bytes]:
        try:
            return self.c.decrypt(nonce(counter), ct, aad)
        except InvalidTag:
            return None


def mock_tag(kid: int, counter: int, aad: bytes, pt: bytes) -> bytes:
    data = aad + pt
    out = bytearray()
    for j in range(16):
        s = sum(b * (i + j + 1) for i, b in enumerate(data))
        out.append((s + kid * 31 + counter * 17 + j * 7 + len(data)) % 256)
    return bytes(out)


class Mock:
    """seal(k, n, aad, pt) = pt || tag16(k, n, aad, pt); key id = first key byte."""

    def __init__(self, key: bytes):
        self.kid = key[0]

    def seal(self, counter, aad, pt):
        return pt + mock_tag(self.kid, counter, aad, pt)

    def open(self, counter, aad, ct):
        if len(ct) < 16:
            return None
        pt, tag = ct[:-16], ct[-16:]
        return pt if tag == mock_tag(self.kid, counter, aad, pt) else None


def seal_frames(cipher, payloads: List[bytes], start: int = 0) -> List[bytes]:
    out = []
    for i, p in enumerate(payloads):
        ln = len(p).to_bytes(2, "little")
        out.append(ln + cipher.seal(start + i, ln, p))
    return out


def receive(cipher, stream: bytes, start: int = 0) -> Tuple[List[Tuple[int, bytes]], Optional[int], int]:
    """Reference receiver over a whole byte stream.

    Returns (frames, fail_end, consumed): `frames` = [(end_offset, payload)] of the frames that
    open in sequence under counters start, start+1, ...; `fail_end` = end offset of the first
    complete frame that does NOT open (None if there is none); `consumed` = offset where the
    next (incomplete) frame starts.
    """
    pos, i, frames = 0, start, []
    while True:
        if len(stream) - pos < 2:
            return frames, None, pos
        ln = int.from_bytes(stream[pos : pos + 2], "little")
        end = pos + 2 + ln + 16
        if end > len(stream):
            return frames, None, pos
        pt = cipher.open(i, stream[pos : pos + 2], stream[pos + 2 : end])
        if pt is None:
            return frames, end, pos
        frames.append((end, pt))
        pos, i = end, i + 1


def split_messages(plain: bytes):
    """Split a decrypted accessory->controller byte stream into complete HTTP/1.1 responses and
    EVENT/1.0 messages. Returns (messages, leftover); a message is (kind, status, headers, body, total size)."""
    msgs, pos = [], 0
    while pos < len(plain):
        head_end = plain.find(b"\r\n\r\n", pos)
        if head_end < 0:
            break
        head = plain[pos:head_end].split(b"\r\n")
        first = head[0].split(b" ", 2)
        if len(first) < 2 or first[0] not in (b"HTTP/1.1", b"EVENT/1.0") or not first[1].isdigit():
            return msgs, plain[pos:]
        headers = {}
        ok = True
        for h in head[1:]:
            if b":" not in h:
                ok = False
                break
            k, v = h.split(b":", 1)
            headers[k.strip().lower()] = v.strip()
        if not ok:
            return msgs, plain[pos:]
        status = int(first[1])
        if b"content-length" in headers:
            if not headers[b"content-length"].isdigit():
                return msgs, plain[pos:]
            n = int(headers[b"content-length"])
        elif b"transfer-encoding" in headers:
            return msgs, plain[pos:]  # the accessory never chunks (Content-Length is forced)
        else:
            n = 0
        body_start = head_end + 4
        if body_start + n > len(plain):
            break
        msgs.append(("event" if first[0] == b"EVENT/1.0" else "response", status, headers, plain[body_start : body_start + n], body_start + n - pos))
        pos = body_start + n
    return msgs, plain[pos:]
