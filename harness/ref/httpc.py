"""Minimal reference HAP *controller* pieces for the HTTP-layer checks (C03, C19).

Written from the HAP specification (pair-verify, section 5.7 of R2) and RFC 7230; shares no code
with pyhap and does not import it.  Uses `cryptography` primitives and (for parsing what the
server wrote) an h11 *client* connection.
"""
from __future__ import annotations

from typing import Dict, List, Optional, Tuple

import h11
from cryptography.hazmat.primitives import hashes, serialization
from cryptography.hazmat.primitives.asymmetric import ed25519, x25519
from cryptography.hazmat.primitives.ciphers.aead import ChaCha20Poly1305
from cryptography.hazmat.primitives.kdf.hkdf import HKDF

from . import tlv8

# TLV types (HAP R2 table 5-6) and error codes (table 5-5)
T_METHOD, T_IDENTIFIER, T_SALT, T_PUBLIC_KEY, T_PROOF, T_ENCRYPTED, T_STATE, T_ERROR = 0, 1, 2, 3, 4, 5, 6, 7
T_SIGNATURE, T_PERMISSIONS, T_SEPARATOR = 10, 11, 255
E_AUTHENTICATION = 2


def http_request(method: bytes, target: bytes, body: bytes = b"", headers: Optional[List[Tuple[bytes, bytes]]] = None,
                 version: bytes = b"1.1") -> bytes:
    """Serialise one request (no validation at all: hostile input is the point)."""
    hs = [(b"Host", b"hap.local")] + list(headers or [])
    if body or method in (b"POST", b"PUT"):
        hs.append((b"Content-Length", str(len(body)).encode()))
    return (
        method + b" " + target + b" HTTP/" + version + b"\r\n"
        + b"".join(k + b": " + v + b"\r\n" for k, v in hs)
        + b"\r\n" + body
    )


class ParsedResponse:
    def __init__(self, status: int, headers: List[Tuple[bytes, bytes]], body: bytes):
        self.status, self.headers, self.body = status, headers, body

    def header(self, name: bytes) -> Optional[bytes]:
        for k, v in self.headers:
            if k.lower() == name.lower():
                return v
        return None

    def __repr__(self):
        return f"<{self.status} {self.headers} {self.body[:60]!r}>"


def parse_responses(written: bytes, methods: List[bytes], eof: bool) -> Tuple[List[ParsedResponse], str]:
    """Parse the byte stream a server wrote as a sequence of HTTP/1.1 responses with an h11 client.

    `methods[i]` is the method of the i-th request that could have been answered (matters for HEAD
    framing). Returns (responses, trailing) where trailing is "" if the stream is a clean sequence of
    complete responses, else a description (incomplete response, protocol error, extra bytes).
    """
    res: List[ParsedResponse] = []
    data = written
    i = 0
    while True:
        if not data:
            return res, ""
        c = h11.Connection(h11.CLIENT)
        m = methods[i] if i < len(methods) else b"GET"
        try:
            c.send(h11.Request(method=m, target=b"/", headers=[(b"Host", b"x")]))
            c.send(h11.EndOfMessage())
        except h11.LocalProtocolError:
            c = h11.Connection(h11.CLIENT)
            c.send(h11.Request(method=b"GET", target=b"/", headers=[(b"Host", b"x")]))
            c.send(h11.EndOfMessage())
        c.receive_data(data)
        status, headers, body, done = None, [], b"", False
        fed_eof = False
        try:
            while True:
                ev = c.next_event()
                if ev is h11.NEED_DATA:
                    if eof and not fed_eof:
                        c.receive_data(b"")
                        fed_eof = True
                        continue
                    break
                if ev is h11.PAUSED:
                    break
                if isinstance(ev, h11.Response):
                    status, headers = ev.status_code, [(bytes(k), bytes(v)) for k, v in ev.headers]
                elif isinstance(ev, h11.InformationalResponse):
                    continue
                elif isinstance(ev, h11.Data):
                    body += bytes(ev.data)
                elif isinstance(ev, h11.EndOfMessage):
                    done = True
                    break
                elif isinstance(ev, h11.ConnectionClosed):
                    break
        except h11.RemoteProtocolError as ex:
            return res, f"malformed response bytes: {ex}"
        if not done:
            return res, "incomplete response" if status is not None else "bytes that are not a response"
        res.append(ParsedResponse(status, headers, body))
        i += 1
        data = bytes(c.trailing_data[0])
        if fed_eof:
            return res, ""


def is_pairing_auth_error(body: bytes) -> bool:
    """A pairing TLV whose kTLVType_Error is kTLVError_Authentication."""
    try:
        d = tlv8.merge_dict(tlv8.decode_list(body))
    except ValueError:
        return False
    return d.get(T_ERROR) == bytes([E_AUTHENTICATION])


# ------------------------------------------------------------------ pair-verify (controller side)


def _hkdf(key: bytes, salt: bytes, info: bytes) -> bytes:
    return HKDF(algorithm=hashes.SHA512(), length=32, salt=salt, info=info).derive(key)


def _nonce(label: bytes) -> bytes:
    return b"\x00" * (12 - len(label)) + label


def _raw_pub(pub) -> bytes:
    return pub.public_bytes(encoding=serialization.Encoding.Raw, format=serialization.PublicFormat.Raw)


class VerifyClient:
    """Controller side of pair-verify. `ltsk` signs M3; `identifier` is the pairing id sent."""

    def __init__(self, identifier: bytes, ltsk: ed25519.Ed25519PrivateKey):
        self.identifier = identifier
        self.ltsk = ltsk
        self.eph = x25519.X25519PrivateKey.generate()
        self.eph_pub = _raw_pub(self.eph.public_key())
        self.shared: Optional[bytes] = None
        self.session_key: Optional[bytes] = None
        self.acc_pub: Optional[bytes] = None

    def m1(self) -> bytes:
        return tlv8.encode([(T_STATE, b"\x01"), (T_PUBLIC_KEY, self.eph_pub)])

    def read_m2(self, body: bytes) -> Dict[int, bytes]:
        d = tlv8.merge_dict(tlv8.decode_list(body))
        if T_ERROR in d or d.get(T_STATE) != b"\x02":
            raise ValueError(f"M2 refused: {d}")
        self.acc_pub = d[T_PUBLIC_KEY]
        self.shared = self.eph.exchange(x25519.X25519PublicKey.from_public_bytes(self.acc_pub))
        self.session_key = _hkdf(self.shared, b"Pair-Verify-Encrypt-Salt", b"Pair-Verify-Encrypt-Info")
        inner = ChaCha20Poly1305(self.session_key).decrypt(_nonce(b"PV-Msg02"), d[T_ENCRYPTED], b"")
        return tlv8.merge_dict(tlv8.decode_list(inner))

    def m3(self, *, identifier: Optional[bytes] = None, signer: Optional[ed25519.Ed25519PrivateKey] = None,
           corrupt: bool = False) -> bytes:
        ident = self.identifier if identifier is None else identifier
        sig = (signer or self.ltsk).sign(self.eph_pub + ident + self.acc_pub)
        inner = tlv8.encode([(T_IDENTIFIER, ident), (T_SIGNATURE, sig)])
        enc = ChaCha20Poly1305(self.session_key).encrypt(_nonce(b"PV-Msg03"), inner, b"")
        if corrupt:
            enc = enc[:-1] + bytes([enc[-1] ^ 1])
        return tlv8.encode([(T_STATE, b"\x03"), (T_ENCRYPTED, enc)])


def setup_m1() -> bytes:
    return tlv8.encode([(T_STATE, b"\x01"), (T_METHOD, b"\x00")])


def setup_m3_wrong(a_pub: bytes) -> bytes:
    """An M3 with a syntactically fine public key and a proof that cannot be right."""
    return tlv8.encode([(T_STATE, b"\x03"), (T_PUBLIC_KEY, a_pub), (T_PROOF, b"\x5a" * 64)])


def pairings_add(identifier: bytes, ltpk: bytes, admin: bool) -> bytes:
    return tlv8.encode([(T_STATE, b"\x01"), (T_METHOD, b"\x03"), (T_IDENTIFIER, identifier),
                        (T_PUBLIC_KEY, ltpk), (T_PERMISSIONS, b"\x01" if admin else b"\x00")])


def pairings_remove(identifier: bytes) -> bytes:
    return tlv8.encode([(T_STATE, b"\x01"), (T_METHOD, b"\x04"), (T_IDENTIFIER, identifier)])


def pairings_list() -> bytes:
    return tlv8.encode([(T_STATE, b"\x01"), (T_METHOD, b"\x05")])
