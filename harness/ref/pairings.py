"""Reference view of pairing administration, written from the statement of C06 and the HAP
pairing TLVs (shares no code with pyhap and does not call the Lean model).

* `RefPairings` is the *abstract* list of pairings that the property talks about: it is advanced
  only by what the accessory ANSWERED (a success answer to add / remove, or a finished pair-setup),
  never by looking at pyhap's maps.
* `decode_pairing_list` turns a list-pairings answer into [(id bytes, key, admin?)] with the
  independent TLV8 *list* decoder (tags repeat across separators).
"""
from __future__ import annotations

from typing import Dict, List, Optional, Tuple

from . import tlv8

T_REQ, T_USER, T_PUB, T_SEQ, T_ERR, T_PERM, T_SEP = 0, 1, 3, 6, 7, 11, 255
ADD, REMOVE, LIST = 3, 4, 5


def request_body(items: List[Tuple[int, bytes]]) -> bytes:
    return tlv8.encode(items)


def answer_is_error(code: int, body: bytes) -> bool:
    """HTTP status >= 400, or a pairing TLV carrying an error item (or an undecodable body)."""
    if code >= 400:
        return True
    try:
        items = tlv8.decode_list(body)
    except ValueError:
        return True
    return any(t == T_ERR for t, _ in items)


def decode_pairing_list(body: bytes) -> List[Tuple[bytes, bytes, bool]]:
    """[(identifier bytes, public key, admin flag)] of a list-pairings answer; ValueError if the
    answer does not have the shape state, then (identifier, key, permissions) groups separated
    by separator items."""
    items = tlv8.decode_list(body)
    if not items or items[0] != (T_SEQ, b"\x02"):
        raise ValueError("answer does not start with state M2")
    rest = items[1:]
    groups: List[List[Tuple[int, bytes]]] = [[]]
    for t, v in rest:
        if t == T_SEP:
            if v != b"":
                raise ValueError("separator with a value")
            groups.append([])
        else:
            groups[-1].append((t, v))
    if groups == [[]]:
        return []
    out = []
    for g in groups:
        if [t for t, _ in g] != [T_USER, T_PUB, T_PERM]:
            raise ValueError(f"entry with item types {[t for t, _ in g]}")
        if g[2][1] not in (b"\x00", b"\x01"):
            raise ValueError("permissions item is not 00 / 01")
        out.append((g[0][1], g[1][1], g[2][1] == b"\x01"))
    return out


class RefPairings:
    """The pairings an observer of the answers believes exist: uuid -> (id bytes, key, perm)."""

    def __init__(self):
        self.entries: Dict[int, Tuple[bytes, bytes, int]] = {}

    def copy(self) -> "RefPairings":
        r = RefPairings()
        r.entries = dict(self.entries)
        return r

    def is_admin(self, u: Optional[int]) -> bool:
        return u is not None and u in self.entries and bool(self.entries[u][2] & 1)

    def registered(self, u: int, idb: bytes, key: bytes, perm: int):
        self.entries[u] = (idb, key, perm)

    def removed(self, u: int):
        if u in self.entries:
            del self.entries[u]
            if not any(p & 1 for _, _, p in self.entries.values()):
                self.entries.clear()  # removing the last admin leaves no pairing at all

    def listing(self) -> List[Tuple[bytes, bytes, bool]]:
        return [(idb, key, bool(p & 1)) for idb, key, p in self.entries.values()]

    def listing_matches(self, got: List[Tuple[bytes, bytes, bool]], parse) -> bool:
        """`got` (decoded list answer) is exactly the current pairings: one entry per pairing with its
        key and admin flag, and the identifier bytes it was registered with. For a pairing whose
        presented bytes this observer never saw (imported from a state file that does not record them)
        any spelling naming that controller is accepted. `parse(bytes) -> uuid int | None`."""
        seen = {}
        for idb, key, admin in got:
            u = parse(idb)
            if u is None or u in seen or u not in self.entries:
                return False
            seen[u] = (idb, key, admin)
        if set(seen) != set(self.entries):
            return False
        for u, (idb, key, admin) in seen.items():
            ridb, rkey, rperm = self.entries[u]
            if key != rkey or admin != bool(rperm & 1) or (ridb is not None and idb != ridb):
                return False
        return True

    def pairing_set(self):
        """{(uuid, key, admin?)} -- 'the set of pairings'"""
        return {(u, key, bool(p & 1)) for u, (_, key, p) in self.entries.items()}
