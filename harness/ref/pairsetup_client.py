"""Independent HomeKit pair-setup controller (M1, M3, M5 requests; M2, M4, M6 checks).

Written from the HAP pair-setup description: SRP via ref/srp_client.py, HKDF-SHA-512,
ChaCha20-Poly1305 and Ed25519 from `cryptography`, TLV8 via ref/tlv8.py.  No pyhap imports.
"""
from __future__ import annotations

from dataclasses import dataclass, field
from typing import Dict, List, Optional, Tuple

from cryptography.exceptions import InvalidSignature, InvalidTag
from cryptography.hazmat.primitives import hashes, serialization
from cryptography.hazmat.primitives.asymmetric import ed25519
from cryptography.hazmat.primitives.ciphers.aead import ChaCha20Poly1305
from cryptography.hazmat.primitives.kdf.hkdf import HKDF

from . import srp_client as srp
from . import tlv8

# TLV types
T_METHOD, T_IDENTIFIER, T_SALT, T_PUBLIC_KEY, T_PROOF, T_ENCRYPTED, T_STATE, T_ERROR = 0, 1, 2, 3, 4, 5, 6, 7
T_SIGNATURE, T_PERMISSIONS = 10, 11
ERR_AUTHENTICATION, ERR_UNAVAILABLE = 2, 6


def hkdf(key: bytes, salt: bytes, info: bytes) -> bytes:
    return HKDF(algorithm=hashes.SHA512(), length=32, salt=salt, info=info).derive(key)


def nonce(label: bytes) -> bytes:
    return b"\x00" * (12 - len(label)) + label


def seal(key: bytes, label: bytes, plaintext: bytes) -> bytes:
    return ChaCha20Poly1305(key).encrypt(nonce(label), plaintext, b"")


def unseal(key: bytes, label: bytes, data: bytes) -> Optional[bytes]:
    try:
        return ChaCha20Poly1305(key).decrypt(nonce(label), data, b"")
    except (InvalidTag, ValueError):
        return None


def m1_body() -> bytes:
    return tlv8.encode([(T_STATE, b"\x01"), (T_METHOD, b"\x00")])


def m3_body(A: bytes, proof: bytes) -> bytes:
    return tlv8.encode([(T_STATE, b"\x03"), (T_PUBLIC_KEY, A), (T_PROOF, proof)])


def m5_key(K: bytes) -> bytes:
    return hkdf(K, b"Pair-Setup-Encrypt-Salt", b"Pair-Setup-Encrypt-Info")


def m5_subtlv(K: bytes, ident: bytes, ltsk: ed25519.Ed25519PrivateKey) -> Tuple[bytes, bytes]:
    """(sub-TLV plaintext, controller LTPK) for a controller identifier and long-term key."""
    ltpk = ltsk.public_key().public_bytes(serialization.Encoding.Raw, serialization.PublicFormat.Raw)
    ix = hkdf(K, b"Pair-Setup-Controller-Sign-Salt", b"Pair-Setup-Controller-Sign-Info")
    sig = ltsk.sign(ix + ident + ltpk)
    return tlv8.encode([(T_IDENTIFIER, ident), (T_PUBLIC_KEY, ltpk), (T_SIGNATURE, sig)]), ltpk


def m5_body(K: bytes, sub: bytes, key: Optional[bytes] = None) -> bytes:
    return tlv8.encode([(T_STATE, b"\x05"), (T_ENCRYPTED, seal(key or m5_key(K), b"PS-Msg05", sub))])


def parse(body: bytes) -> Optional[Dict[int, bytes]]:
    try:
        return tlv8.merge_dict(tlv8.decode_list(body))
    except ValueError:
        return None


@dataclass
class M6Result:
    ok: bool
    why: str = ""
    accessory_id: bytes = b""
    accessory_ltpk: bytes = b""


def check_m6(body: bytes, K: bytes, advertised_id: Optional[bytes] = None) -> M6Result:
    """What the controller does with M6: decrypt, parse, verify the accessory signature.  With
    `advertised_id` (the `id` of the accessory's Bonjour TXT record, which is how the controller found
    it) the identifier in M6 must be that identifier byte for byte and the signature is verified over
    HKDF(K) | advertised id | accessory LTPK."""
    t = parse(body)
    if t is None or t.get(T_STATE) != b"\x06":
        return M6Result(False, "M6 missing or malformed")
    if T_ERROR in t:
        return M6Result(False, f"M6 carries error {t[T_ERROR].hex()}")
    if T_ENCRYPTED not in t:
        return M6Result(False, "M6 without encrypted data")
    pt = unseal(m5_key(K), b"PS-Msg06", t[T_ENCRYPTED])
    if pt is None:
        return M6Result(False, "M6 does not decrypt with the session key")
    sub = parse(pt)
    if sub is None or not all(x in sub for x in (T_IDENTIFIER, T_PUBLIC_KEY, T_SIGNATURE)):
        return M6Result(False, "M6 sub-TLV incomplete")
    acc_id, acc_ltpk, sig = sub[T_IDENTIFIER], sub[T_PUBLIC_KEY], sub[T_SIGNATURE]
    ix = hkdf(K, b"Pair-Setup-Accessory-Sign-Salt", b"Pair-Setup-Accessory-Sign-Info")
    if advertised_id is not None and acc_id != advertised_id:
        return M6Result(False, f"M6 identifier {acc_id!r} is not the advertised identifier {advertised_id!r}", acc_id, acc_ltpk)
    try:
        ed25519.Ed25519PublicKey.from_public_bytes(acc_ltpk).verify(
            sig, ix + (acc_id if advertised_id is None else advertised_id) + acc_ltpk)
    except (InvalidSignature, ValueError):
        return M6Result(False, "accessory signature invalid", acc_id, acc_ltpk)
    return M6Result(True, "", acc_id, acc_ltpk)
