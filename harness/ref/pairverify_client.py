"""Independent reference HomeKit controller for pair-verify and the session transport.

Written from the HAP specification (pair-verify M1..M4, session framing); uses only the
`cryptography` primitives and harness/ref/tlv8.py.  Shares no code with pyhap and never imports it.

 * pair-verify:  M1 = {state 1, controller ephemeral X25519 public};
                 M2 = {state 2, accessory ephemeral public, AEAD("PV-Msg02", {id, signature})};
                 M3 = {state 3, AEAD("PV-Msg03", {controller id, Ed25519 signature over
                       controller ephemeral public || controller id || accessory ephemeral public})};
                 pre-session key = HKDF-SHA512(X25519 shared, "Pair-Verify-Encrypt-Salt",
                       "Pair-Verify-Encrypt-Info").
 * session:      frames  LE16(len) || ChaCha20-Poly1305(key, nonce = 0000 || LE64(counter),
                       plaintext (<= 1024 bytes), aad = LE16(len)); accessory->controller key
                       HKDF(shared, "Control-Salt", "Control-Read-Encryption-Key"),
                       controller->accessory key "... Control-Write-Encryption-Key".
"""
from __future__ import annotations

import struct
from typing import Dict, List, Optional, Tuple

from cryptography.exceptions import InvalidSignature, InvalidTag
from cryptography.hazmat.primitives import hashes
from cryptography.hazmat.primitives.asymmetric import ed25519, x25519
from cryptography.hazmat.primitives.ciphers.aead import ChaCha20Poly1305
from cryptography.hazmat.primitives.kdf.hkdf import HKDF
from cryptography.hazmat.primitives.serialization import Encoding, PublicFormat

from . import tlv8

T_ID, T_PUBKEY, T_ENC, T_STATE, T_ERROR, T_PROOF = 1, 3, 5, 6, 7, 10
T_METHOD, T_PERMS, T_SEP = 0, 11, 255

NONCE_M2 = b"\x00\x00\x00\x00PV-Msg02"
NONCE_M3 = b"\x00\x00\x00\x00PV-Msg03"


def hkdf(key: bytes, salt: bytes, info: bytes) -> bytes:
    return HKDF(algorithm=hashes.SHA512(), length=32, salt=salt, info=info).derive(key)


def pre_session_key(shared: bytes) -> bytes:
    return hkdf(shared, b"Pair-Verify-Encrypt-Salt", b"Pair-Verify-Encrypt-Info")


def raw_pub(k) -> bytes:
    return k.public_key().public_bytes(Encoding.Raw, PublicFormat.Raw)


def raw_pub_bytes(pk) -> bytes:
    return pk.public_bytes(Encoding.Raw, PublicFormat.Raw)


def aead_seal(key: bytes, nonce: bytes, pt: bytes, aad: bytes = b"") -> bytes:
    return ChaCha20Poly1305(key).encrypt(nonce, pt, aad)


def aead_open(key: bytes, nonce: bytes, ct: bytes, aad: bytes = b"") -> Optional[bytes]:
    """None = authentication failure (also for inputs shorter than a tag)."""
    try:
        return ChaCha20Poly1305(key).decrypt(nonce, ct, aad)
    except (InvalidTag, ValueError):
        return None


def x25519_shared(priv: x25519.X25519PrivateKey, peer_pub: bytes) -> Optional[bytes]:
    """None when the peer value is not a usable X25519 public key (wrong length, small order)."""
    try:
        return priv.exchange(x25519.X25519PublicKey.from_public_bytes(peer_pub))
    except (ValueError, TypeError):
        return None


def x25519_usable(peer_pub: bytes) -> bool:
    return x25519_shared(x25519.X25519PrivateKey.generate(), peer_pub) is not None


def ed_key_usable(pub: bytes) -> bool:
    try:
        ed25519.Ed25519PublicKey.from_public_bytes(pub)
        return True
    except (ValueError, TypeError):
        return False


def ed_verify(pub: bytes, msg: bytes, sig: bytes) -> bool:
    try:
        ed25519.Ed25519PublicKey.from_public_bytes(pub).verify(sig, msg)
        return True
    except (InvalidSignature, ValueError, TypeError):
        return False


def tlv_dict(data: bytes) -> Optional[Dict[int, bytes]]:
    """Lenient dict view used to read accessory answers; None if not even record-shaped."""
    try:
        return tlv8.merge_dict(tlv8.records(data))
    except ValueError:
        return None


class Exchange:
    """One pair-verify exchange as seen by a controller (one ephemeral key pair)."""

    def __init__(self, eph: Optional[x25519.X25519PrivateKey] = None):
        self.eph = eph or x25519.X25519PrivateKey.generate()
        self.cepk = raw_pub(self.eph)
        self.sepk: Optional[bytes] = None
        self.shared: Optional[bytes] = None
        self.pre: Optional[bytes] = None
        self.acc_id: Optional[bytes] = None
        self.acc_sig_ok: Optional[bool] = None

    def m1(self) -> bytes:
        return tlv8.encode([(T_STATE, b"\x01"), (T_PUBKEY, self.cepk)])

    def on_m2(self, body: bytes, accessory_ltpk: Optional[bytes] = None) -> bool:
        d = tlv_dict(body)
        if not d or d.get(T_STATE) != b"\x02" or T_ERROR in d or T_PUBKEY not in d or T_ENC not in d:
            return False
        self.sepk = d[T_PUBKEY]
        self.shared = x25519_shared(self.eph, self.sepk)
        if self.shared is None:
            return False
        self.pre = pre_session_key(self.shared)
        inner = aead_open(self.pre, NONCE_M2, d[T_ENC])
        if inner is None:
            return False
        sub = tlv_dict(inner) or {}
        self.acc_id = sub.get(T_ID)
        if accessory_ltpk is not None and T_PROOF in sub and self.acc_id is not None:
            self.acc_sig_ok = ed_verify(accessory_ltpk, self.sepk + self.acc_id + self.cepk, sub[T_PROOF])
        return True

    def material(self, ident: bytes) -> bytes:
        assert self.sepk is not None
        return self.cepk + ident + self.sepk

    def m3(self, inner_items: List[Tuple[int, bytes]], outer_key: bytes) -> bytes:
        enc = aead_seal(outer_key, NONCE_M3, tlv8.encode(inner_items))
        return tlv8.encode([(T_STATE, b"\x03"), (T_ENC, enc)])


# ----------------------------------------------------------------------------- session frames


class Session:
    """Controller end of the encrypted session (independent frame codec)."""

    def __init__(self, shared: bytes):
        self.a2c = hkdf(shared, b"Control-Salt", b"Control-Read-Encryption-Key")
        self.c2a = hkdf(shared, b"Control-Salt", b"Control-Write-Encryption-Key")
        self.out_count = 0
        self.in_count = 0
        self.inbuf = b""

    @staticmethod
    def _nonce(n: int) -> bytes:
        return b"\x00\x00\x00\x00" + struct.pack("<Q", n)

    def seal(self, data: bytes) -> bytes:
        out = b""
        pos = 0
        while pos < len(data):
            chunk = data[pos : pos + 1024]
            ln = struct.pack("<H", len(chunk))
            out += ln + aead_seal(self.c2a, self._nonce(self.out_count), chunk, ln)
            self.out_count += 1
            pos += 1024
        return out

    def feed(self, data: bytes) -> Tuple[bytes, bool]:
        """Returns (plaintext of all complete frames, ok). ok=False: some frame did not authenticate
        (i.e. the bytes are not a frame stream under this session's key)."""
        self.inbuf += data
        out = b""
        while len(self.inbuf) >= 2:
            ln = struct.unpack("<H", self.inbuf[:2])[0]
            if ln > 1024:
                return out, False
            if len(self.inbuf) < 2 + ln + 16:
                break
            pt = aead_open(self.a2c, self._nonce(self.in_count), self.inbuf[2 : 2 + ln + 16], self.inbuf[:2])
            if pt is None:
                return out, False
            self.in_count += 1
            out += pt
            self.inbuf = self.inbuf[2 + ln + 16 :]
        return out, True


# ----------------------------------------------------------------------------- tiny HTTP/1.1 reader


def parse_http_responses(data: bytes) -> Tuple[List[dict], bytes]:
    """Split a byte string into complete HTTP/1.1 or EVENT/1.0 messages with Content-Length bodies.
    Returns (messages, unparsed rest). A message: {proto, status, headers(dict, lower), body}."""
    msgs = []
    while True:
        head_end = data.find(b"\r\n\r\n")
        if head_end < 0:
            break
        lines = data[:head_end].split(b"\r\n")
        first = lines[0].split(b" ", 2)
        if len(first) < 2 or not first[1].isdigit():
            break
        headers = {}
        for ln in lines[1:]:
            if b":" in ln:
                k, v = ln.split(b":", 1)
                headers[k.strip().lower().decode("latin1")] = v.strip().decode("latin1")
        start = head_end + 4
        if headers.get("transfer-encoding", "").lower() == "chunked":
            body = b""
            pos = start
            done = False
            while True:
                eol = data.find(b"\r\n", pos)
                if eol < 0:
                    break
                try:
                    size = int(data[pos:eol].split(b";")[0], 16)
                except ValueError:
                    break
                if len(data) < eol + 2 + size + 2:
                    break
                body += data[eol + 2 : eol + 2 + size]
                pos = eol + 2 + size + 2
                if size == 0:
                    done = True
                    break
            if not done:
                break
            end = pos
        else:
            n = int(headers.get("content-length", "0") or 0)
            if len(data) < start + n:
                break
            body = data[start : start + n]
            end = start + n
        msgs.append({"proto": first[0].decode("latin1"), "status": int(first[1]), "headers": headers, "body": body})
        data = data[end:]
    return msgs, data


def http_request(method: str, target: str, body: bytes = b"", ctype: Optional[str] = None, shape: str = "ka") -> bytes:
    """shape: "ka" persistent HTTP/1.1 (default), "close" HTTP/1.1 with `Connection: close`, "http10" an HTTP/1.0 request."""
    head = f"{method} {target} HTTP/{'1.0' if shape == 'http10' else '1.1'}\r\nHost: acc.local\r\n"
    if shape == "close":
        head += "Connection: close\r\n"
    if body or method in ("POST", "PUT"):
        head += f"Content-Length: {len(body)}\r\n"
    if ctype:
        head += f"Content-Type: {ctype}\r\n"
    return head.encode() + b"\r\n" + body
