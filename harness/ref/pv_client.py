"""Independent reference controller for HAP pair-verify (written from the HAP specification;
`cryptography` primitives + harness/ref/tlv8.py only, no pyhap imports)."""
from __future__ import annotations

from cryptography.hazmat.primitives import serialization
from cryptography.hazmat.primitives.asymmetric import ed25519, x25519
from cryptography.hazmat.primitives.ciphers.aead import ChaCha20Poly1305

from . import tlv8
from .frames import hkdf

RAW = dict(encoding=serialization.Encoding.Raw, format=serialization.PublicFormat.Raw)


def pub_bytes(k) -> bytes:
    return k.public_key().public_bytes(**RAW)


def http_post(path: str, body: bytes, ctype="application/pairing+tlv8") -> bytes:
    return (
        f"POST {path} HTTP/1.1\r\nHost: acc\r\nContent-Type: {ctype}\r\nContent-Length: {len(body)}\r\n\r\n".encode() + body
    )


class Verifier:
    """One pair-verify exchange of controller `ident` holding long-term key `ltsk`."""

    def __init__(self, ident: bytes, ltsk: ed25519.Ed25519PrivateKey):
        self.ident = ident
        self.ltsk = ltsk
        self.eph = x25519.X25519PrivateKey.generate()
        self.shared = None
        self.acc_epk = None

    def m1(self) -> bytes:
        return tlv8.encode([(6, b"\x01"), (3, pub_bytes(self.eph))])

    def m3(self, m2_body: bytes, accessory_ltpk: bytes | None = None) -> bytes:
        d = tlv8.merge_dict(tlv8.decode_list(m2_body))
        assert d.get(6) == b"\x02" and 7 not in d, f"M2 refused: {d}"
        self.acc_epk = d[3]
        self.shared = self.eph.exchange(x25519.X25519PublicKey.from_public_bytes(self.acc_epk))
        self.prekey = hkdf(self.shared, b"Pair-Verify-Encrypt-Salt", b"Pair-Verify-Encrypt-Info")
        sub = ChaCha20Poly1305(self.prekey).decrypt(b"\0\0\0\0PV-Msg02", d[5], b"")
        sd = tlv8.merge_dict(tlv8.decode_list(sub))
        if accessory_ltpk is not None:
            ed25519.Ed25519PublicKey.from_public_bytes(accessory_ltpk).verify(
                sd[10], self.acc_epk + sd[1] + pub_bytes(self.eph)
            )
        sig = self.ltsk.sign(pub_bytes(self.eph) + self.ident + self.acc_epk)
        inner = tlv8.encode([(1, self.ident), (10, sig)])
        enc = ChaCha20Poly1305(self.prekey).encrypt(b"\0\0\0\0PV-Msg03", inner, b"")
        return tlv8.encode([(6, b"\x03"), (5, enc)])

    @staticmethod
    def m4_ok(m4_body: bytes) -> bool:
        d = tlv8.merge_dict(tlv8.decode_list(m4_body))
        return d.get(6) == b"\x04" and 7 not in d
