"""Independent reference for C20: what the property demands of an interleaved run.

Written from the property statement only (no pyhap import, no knowledge of the Lean model):
when a worker thread updates a characteristic while the event loop reads / subscribes / flushes,

  (1) reads of the attribute database made after everything completed show the new value, and
  (2) every controller that was subscribed before the updates began (and stayed subscribed) ends
      up with the new value as its latest event.

"The new value" is the last update the characteristic accepted (a rejected update raises and must
change nothing).  An update that does not change the value need not produce an event.
"""
from __future__ import annotations

import json
from typing import Any, Dict, List, Optional, Sequence, Tuple


def expected_final(init: Any, updates: Sequence[Tuple[Any, bool]]) -> Any:
    """Value after the accepted updates, in order.  `updates` = [(value_after_conversion, valid)]."""
    cur = init
    for v, ok in updates:
        if ok:
            cur = v
    return cur


def value_changed_ever(init: Any, updates: Sequence[Tuple[Any, bool]]) -> bool:
    """Did some accepted update differ from the value it replaced?"""
    cur = init
    for v, ok in updates:
        if ok:
            if v != cur:
                return True
            cur = v
    return False


def parse_events(writes: Sequence[bytes], aid: int, iid: int) -> List[Any]:
    """Values of characteristic (aid, iid) carried by the HAP EVENT messages in a plaintext
    transport log, in order of arrival."""
    data = b"".join(writes)
    out: List[Any] = []
    while data:
        if not data.startswith(b"EVENT/1.0 200 OK\r\n"):
            raise ValueError("transport log is not a sequence of EVENT messages: %r" % data[:40])
        head, _, rest = data.partition(b"\r\n\r\n")
        length = None
        for line in head.split(b"\r\n")[1:]:
            k, _, v = line.partition(b":")
            if k.strip().lower() == b"content-length":
                length = int(v.strip())
        if length is None:
            raise ValueError("EVENT without Content-Length")
        body, data = rest[:length], rest[length:]
        for ent in json.loads(body)["characteristics"]:
            if ent.get("aid") == aid and ent.get("iid") == iid:
                out.append(ent.get("value"))
    return out


def judge(
    init: Any,
    updates: Sequence[Tuple[Any, bool]],
    database_reads: Sequence[Any],
    direct_reads: Sequence[Any],
    events_by_conn: Dict[Any, List[Any]],
    steady_subscribers: Sequence[Any],
) -> List[Tuple[str, str]]:
    """Return [(signature, description)] for every demand of C20 that the observed run breaks.

    database_reads : value shown for the characteristic by each GET /accessories made after the
                     interleaved operations completed (`None` entry = no representation at all)
    direct_reads   : value returned by each GET /characteristics made after completion
    events_by_conn : connection -> values of the events it received, in order
    steady_subscribers : connections subscribed before the updates began and never unsubscribed
    """
    want = expected_final(init, updates)
    bad: List[Tuple[str, str]] = []
    if any(r != want for r in direct_reads):
        bad.append(
            (
                "C20:update-lost",
                f"after the worker's updates completed, GET /characteristics returns {list(direct_reads)!r}, "
                f"the last accepted update was {want!r}",
            )
        )
    elif any(r != want for r in database_reads):
        bad.append(
            (
                "C20:stale-cache-after-preempted-to_HAP",
                f"after the worker's updates completed, GET /accessories shows {list(database_reads)!r} for the "
                f"characteristic although its value is {want!r} (the cached representation was stored after the "
                "update's cache clear)",
            )
        )
    if value_changed_ever(init, updates):
        for c in steady_subscribers:
            evs = events_by_conn.get(c, [])
            if not evs or evs[-1] != want:
                bad.append(
                    (
                        "C20:subscriber-missed-final-value",
                        f"connection {c!r} was subscribed before the update began; its events were {evs!r}, "
                        f"the final value is {want!r}",
                    )
                )
                break
    return bad
