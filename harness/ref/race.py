"""Independent reference for C20: what the property demands of an interleaved run.

Written from the property statement only (no pyhap import, no knowledge of the Lean model):
when a worker thread updates a characteristic while the event loop reads / subscribes / flushes,

  (1) reads of the attribute database made after everything completed show the new value, and
  (2) every controller that was subscribed before the updates began (and stayed subscribed) ends
      up with the new value as its latest event.

"The new value" is the last update the characteristic accepted (a rejected update raises and must
change nothing).  An update that does not change the value need not produce an event.  Runs may
also contain controller writes of the characteristic (serialised against the worker's updates by
the caller), unsubscriptions, repeated subscriptions and timer expiries: see judge_timeline.
"""
from __future__ import annotations

import json
from typing import Any, Dict, List, Optional, Sequence, Tuple


def parse_events(writes: Sequence[bytes], aid: int, iid: int) -> List[Any]:
    """Values of characteristic (aid, iid) carried by the HAP EVENT messages in a plaintext
    transport log, in order of arrival.  HTTP responses in the log (answers to the connection's
    own requests) are skipped."""
    data = b"".join(writes)
    out: List[Any] = []
    while data:
        is_event = data.startswith(b"EVENT/1.0 200 OK\r\n")
        if not is_event and not data.startswith(b"HTTP/1.1 "):
            raise ValueError("transport log is not a sequence of EVENT / HTTP messages: %r" % data[:40])
        head, sep, rest = data.partition(b"\r\n\r\n")
        if not sep:
            raise ValueError("truncated message in the transport log")
        length = 0
        for line in head.split(b"\r\n")[1:]:
            k, _, v = line.partition(b":")
            if k.strip().lower() == b"content-length":
                length = int(v.strip())
        body, data = rest[:length], rest[length:]
        if not is_event:
            continue
        for ent in json.loads(body)["characteristics"]:
            if ent.get("aid") == aid and ent.get("iid") == iid:
                out.append(ent.get("value"))
    return out


def judge_timeline(
    init: Any,
    timeline: Sequence[Dict[str, Any]],
    database_reads: Sequence[Any],
    direct_reads: Sequence[Any],
    events_by_conn: Dict[Any, List[Any]],
    inflight_reads: Sequence[Any] = (),
) -> List[Tuple[str, str]]:
    """The same two demands for runs that also contain controller writes, unsubscriptions,
    repeated subscriptions and timer expiries.

    `timeline` lists, in real-time order, the start and the end of every loop operation and of
    every worker update:
        {"t": "update", "j": n, "value": v, "valid": bool, "phase": "start"|"end"}
        {"t": "write", "c": conn, "value": v, "phase": ...}       controller write (acknowledged)
        {"t": "sub" | "unsub" | "lost", "c": conn, "phase": ...}    ("lost": the connection went away)
    (other operations may appear and are ignored).  The caller guarantees that no controller write
    overlaps a worker update, so the writes have one serial order.

    (0) every read of the attribute database, also one that was in progress while an update landed,
        returns a representation of the characteristic (`inflight_reads`: one entry per GET
        /accessories made during the run, None = the answer carried no representation for it):
        in every serial order of {read, update} the read returns one;
    (1) reads after completion show the last accepted write;
    (2) if the last write that CHANGED the value is a worker update U: every connection whose
        subscription request was answered before U began, and that sent no unsubscription from
        then on (repeated subscriptions are fine), has the final value as its latest event.
        When the last changing write is a controller's, C20 demands nothing of the events (that is
        C12's subject).
    """
    cur = init
    last_change = None  # (who, position of its start in the timeline)
    for pos, ev in enumerate(timeline):
        if ev["phase"] != "start":
            continue
        if ev["t"] == "update" and ev.get("valid"):
            if ev["value"] != cur:
                last_change = ("worker", pos)
            cur = ev["value"]
        elif ev["t"] == "write":
            if ev["value"] != cur:
                last_change = ("controller", pos)
            cur = ev["value"]
    want = cur
    bad: List[Tuple[str, str]] = []
    if any(r is None for r in inflight_reads):
        bad.append(
            (
                "C20:read-returned-no-representation",
                "a GET /accessories that was in progress while the worker updated the characteristic carries no "
                f"representation of it (null entry); per-read outcome: {['null' if r is None else 'ok' for r in inflight_reads]}",
            )
        )
    if any(r != want for r in direct_reads):
        bad.append(
            (
                "C20:update-lost",
                f"after everything completed GET /characteristics returns {list(direct_reads)!r}, the last "
                f"accepted write was {want!r}",
            )
        )
    elif any(r != want for r in database_reads):
        bad.append(
            (
                "C20:stale-cache-after-preempted-to_HAP",
                f"after the worker's updates completed, GET /accessories shows {list(database_reads)!r} for the "
                f"characteristic although its value is {want!r} (the cached representation was stored after the "
                "update's cache clear)",
            )
        )
    if last_change is None or last_change[0] != "worker":
        return bad
    t0 = last_change[1]
    conns = sorted({ev["c"] for ev in timeline if ev["t"] in ("sub", "unsub", "lost")}, key=repr)
    for c in conns:
        subscribed_before = False
        disqualified = False
        for pos, ev in enumerate(timeline):
            if ev.get("c") != c or ev["t"] not in ("sub", "unsub", "lost"):
                continue
            if ev["phase"] == "end" and pos < t0:
                subscribed_before = ev["t"] == "sub"  # the last request answered before U began
            if ev["t"] in ("unsub", "lost") and ev["phase"] == "end" and pos > t0:
                disqualified = True  # unsubscribed (or unsubscribing) from U's beginning on
        if not subscribed_before or disqualified:
            continue
        evs = events_by_conn.get(c, [])
        if not evs or evs[-1] != want:
            bad.append(
                (
                    "C20:subscriber-missed-final-value",
                    f"connection {c!r} was subscribed before the worker's update to {want!r} began and stayed "
                    f"subscribed; the events it received were {evs!r}",
                )
            )
            break
    return bad


def judge_serial_order(init: Any, timeline: Sequence[Dict[str, Any]]) -> List[Tuple[str, str]]:
    """"The outcome equals that of some serial order", for the reads made DURING the run.

    Applicable (the caller checks it) when every worker update ran as a whole at one point of the loop
    thread's program — the property's quantifier.  `timeline` as in judge_timeline; the end entry of every
    read that shows a value carries it as "shown" (GET /accessories: the characteristic's "value",
    GET /characteristics: likewise; value-free answers have no "shown").

    Demand: there is ONE order of all value-showing reads, controller writes and accepted worker updates
    that (a) keeps the loop thread's program order and the worker's program order, (b) puts an operation
    that ended before another began in front of it, and (c) in which every read shows what the last
    preceding write / update stored (the initial value if none precedes).  Rejected updates store nothing.
    """
    loop_items: List[Dict[str, Any]] = []   # {"kind": "read"|"write", "value", "start", "end", "name"}
    upd_items: List[Dict[str, Any]] = []
    open_loop: Dict[Any, int] = {}
    open_upd: Dict[Any, int] = {}
    for pos, ev in enumerate(timeline):
        if ev["t"] == "update":
            if ev["phase"] == "start":
                open_upd[ev["j"]] = pos
            elif ev.get("valid"):
                upd_items.append({"value": ev["value"], "start": open_upd.get(ev["j"], pos), "end": pos})
            continue
        key = ev.get("i")
        if ev["phase"] == "start":
            open_loop[key] = pos
            continue
        start = open_loop.get(key, pos)
        if ev["t"] == "write":
            loop_items.append({"kind": "write", "value": ev["value"], "start": start, "end": pos, "name": "write"})
        elif "shown" in ev:
            loop_items.append({"kind": "read", "value": ev["shown"], "start": start, "end": pos, "name": ev["t"]})
    n, m = len(loop_items), len(upd_items)
    seen = set()
    stack = [(0, 0, init)]
    ok = False
    while stack:
        i, j, cur = stack.pop()
        if (i, j, cur) in seen:
            continue
        seen.add((i, j, cur))
        if i == n and j == m:
            ok = True
            break
        # the next loop item may come now unless a still-unplaced update ended before it began
        if i < n and not (j < m and upd_items[j]["end"] < loop_items[i]["start"]):
            it = loop_items[i]
            if it["kind"] == "write":
                stack.append((i + 1, j, it["value"]))
            elif it["value"] == cur:
                stack.append((i + 1, j, cur))
        # the next update may come now unless a still-unplaced loop item ended before it began
        if j < m and not (i < n and loop_items[i]["end"] < upd_items[j]["start"]):
            stack.append((i, j + 1, upd_items[j]["value"]))
    if ok:
        return []
    shown = [(it["name"], it["value"]) for it in loop_items]
    return [
        (
            "C20:outcome-matches-no-serial-order",
            f"initial value {init!r}, accepted worker updates {[u['value'] for u in upd_items]!r} (each ran as a whole "
            f"at one point of the loop's program); the loop's reads / writes, in order, showed {shown!r}: no single "
            "order of these operations that respects both program orders and real time makes every read show the "
            "value stored last before it",
        )
    ]


def judge_thread_ownership(foreign_calls: Sequence[str]) -> List[Tuple[str, str]]:
    """asyncio's own rule, enforced by the loop in debug mode (BaseEventLoop._check_thread:
    "Non-thread-safe operation invoked on an event loop other than the current one"): every loop
    method except call_soon_threadsafe, and every transport method, must be called from the loop's
    thread.  `foreign_calls` lists the calls the harness saw arriving from another thread at the
    loop / transports it owns.  A timer armed with call_later from a worker thread while the loop
    sleeps in select() may never fire, so "subscribed controllers end up with it as their latest
    event" depends on this rule; it needs no timing to be judged."""
    if not foreign_calls:
        return []
    kinds = sorted(set(foreign_calls))
    return [
        (
            "C20:loop-touched-from-worker-thread",
            "while delivering a worker-thread update the code used the event loop / a transport from the worker "
            f"thread without call_soon_threadsafe: {kinds} ({len(foreign_calls)} call(s)); a timer armed that way may "
            "never fire, so subscribers can miss the final value",
        )
    ]
