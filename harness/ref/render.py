"""Uncached reference rendering of the attribute database (the C11 oracle, also used by C17).

Written from the HAP JSON shape, independent of pyhap's `to_HAP` methods: it walks the
objects' public attributes (`accessory.aid/.services/.iid_manager`, `bridge.accessories`,
`service.type_id/.characteristics/.is_primary_service/.linked_services`,
`characteristic.type_id/.properties/.display_name/.value/.getter_callback`) and never calls
`to_HAP`, so nothing it returns can come from a cached representation.  It does not mutate
anything: where the characteristic's class overrides the public `get_value()` it asks that accessor,
where a getter callback is installed it asks the callback (the harness installs
side-effect-free scripted getters) and validates the result with the characteristic's own
public `to_valid_value` / `valid_value_or_raise` (value validation is C09's subject, not C11's).
"""
from __future__ import annotations

from typing import Any, Dict, List, Optional

BASE_SUFFIX = "-0000-1000-8000-0026BB765291"
NUMERIC_FORMATS = {"int", "float", "uint8", "uint16", "uint32", "uint64"}
NUMERIC_MEMBERS = ("maxValue", "minValue", "minStep", "unit")
SUCCESS = 0


class Raises(Exception):
    """The from-scratch rendering itself fails (a getter callback / its validation raises)."""


def hap_type(uuid) -> str:
    s = str(uuid).upper()
    if s.endswith(BASE_SUFFIX):
        return s.split("-", 1)[0].lstrip("0")
    return s


def full_type(t: str) -> str:
    """Inverse of the short form: always the 36-character upper-case UUID."""
    if "-" in t:
        return t.upper()
    return ("0" * (8 - len(t)) + t + BASE_SUFFIX).upper()


def current_value(char) -> Any:
    """What a read of this characteristic returns now: the validated getter result when a
    getter callback is installed, else the stored value."""
    if _overrides_get_value(char):
        # an application subclass overriding the public accessor: the current value IS what that
        # accessor answers now (the harness's subclass reads a scripted device, no side effects)
        try:
            return char.get_value()
        except Exception as ex:  # noqa: BLE001
            raise Raises(type(ex).__name__) from None
    getter = char.getter_callback
    if getter:
        try:
            value = char.to_valid_value(getter())
            # an answer that is not one of the declared valid values is a failed read, like a
            # non-numeric answer (value validation is C09's subject; the public pure methods decide)
            char.valid_value_or_raise(value)
            return value
        except Exception as ex:  # noqa: BLE001 - any failure of the callback / validation
            raise Raises(type(ex).__name__) from None
    return char.value


def _overrides_get_value(char) -> bool:
    from pyhap.characteristic import Characteristic

    for k in type(char).__mro__:
        if k is Characteristic:
            return False
        if "get_value" in vars(k):
            return True
    return False


def render_char(char, iid_manager, include_value: bool, loader_name: Optional[str]) -> Dict[str, Any]:
    props = char.properties
    fmt = props["Format"]
    perms = props["Permissions"]
    rep: Dict[str, Any] = {
        "iid": iid_manager.get_iid(char),
        "type": hap_type(char.type_id),
        "perms": list(perms),
        "format": fmt,
    }
    name = char.display_name
    if not loader_name or loader_name != name:
        rep["description"] = name
    if fmt in NUMERIC_FORMATS:
        for k in NUMERIC_MEMBERS:
            if k in props:
                rep[k] = props[k]
        if "ValidValues" in props:
            rep["valid-values"] = sorted(props["ValidValues"].values())
    elif fmt == "string":
        max_len = props.get("maxLen", 64)
        if max_len != 64:
            rep["maxLen"] = max_len
    if include_value and "pr" in perms:
        rep["value"] = current_value(char)
    return rep


def render_service(svc, iid_manager, include_value: bool, loader_names) -> Dict[str, Any]:
    rep: Dict[str, Any] = {
        "iid": iid_manager.get_iid(svc),
        "type": hap_type(svc.type_id),
        "characteristics": [
            render_char(c, iid_manager, include_value, loader_names.get(id(c))) for c in svc.characteristics
        ],
    }
    if svc.is_primary_service is not None:
        rep["primary"] = svc.is_primary_service
    if svc.linked_services:
        rep["linked"] = [ls.broker.iid_manager.get_iid(ls) for ls in svc.linked_services]
    return rep


def render_accessory(acc, include_value: bool, loader_names) -> Dict[str, Any]:
    return {
        "aid": acc.aid,
        "services": [render_service(s, acc.iid_manager, include_value, loader_names) for s in acc.services],
    }


def render_db(top, include_value: bool, loader_names) -> Dict[str, Any]:
    """Expected `GET /accessories` document for the driver's top-level accessory `top`."""
    accs = [top]
    bridged = getattr(top, "accessories", None)
    if isinstance(bridged, dict):
        accs += list(bridged.values())
    return {"accessories": [render_accessory(a, include_value, loader_names) for a in accs]}


def accessory_for(top, aid: int):
    """The accessory an aid names, or None."""
    if aid == top.aid:
        return top
    bridged = getattr(top, "accessories", None)
    if isinstance(bridged, dict):
        return bridged.get(aid)
    return None


def expected_read(top, ids: List[tuple]) -> List[Dict[str, Any]]:
    """Per requested id of an existing accessory: {"aid","iid","ok":bool,"value":…}."""
    from pyhap.characteristic import Characteristic

    out = []
    for aid, iid in ids:
        acc = accessory_for(top, aid)
        if acc is None:
            continue
        exp: Dict[str, Any] = {"aid": aid, "iid": iid, "ok": False}
        obj = acc.iid_manager.get_obj(iid)
        if acc.available and isinstance(obj, Characteristic):
            try:
                exp["value"] = current_value(obj)
                exp["ok"] = True
            except Raises:
                pass
        out.append(exp)
    return out


def same(a: Any, b: Any) -> bool:
    """Structural equality as it appears on the wire: True ≠ 1, 1 ≠ 1.0, member order of
    objects irrelevant, list order relevant."""
    if isinstance(a, dict) and isinstance(b, dict):
        return a.keys() == b.keys() and all(same(a[k], b[k]) for k in a)
    if isinstance(a, (list, tuple)) and isinstance(b, (list, tuple)):
        return len(a) == len(b) and all(same(x, y) for x, y in zip(a, b))
    if isinstance(a, (dict, list, tuple)) or isinstance(b, (dict, list, tuple)):
        return False
    if type(a) is not type(b):
        return False
    if isinstance(a, float) and a != a and b != b:
        return True
    return a == b


def first_difference(a: Any, b: Any, path: str = "$") -> Optional[str]:
    """Human-readable location of the first difference (None if `same`)."""
    if isinstance(a, dict) and isinstance(b, dict):
        for k in sorted(set(a) | set(b), key=str):
            if k not in a:
                return f"{path}.{k}: missing in first"
            if k not in b:
                return f"{path}.{k}: missing in second"
            d = first_difference(a[k], b[k], f"{path}.{k}")
            if d:
                return d
        return None
    if isinstance(a, (list, tuple)) and isinstance(b, (list, tuple)):
        if len(a) != len(b):
            return f"{path}: lengths {len(a)} / {len(b)}"
        for i, (x, y) in enumerate(zip(a, b)):
            d = first_difference(x, y, f"{path}[{i}]")
            if d:
                return d
        return None
    return None if same(a, b) else f"{path}: {a!r} / {b!r}"
