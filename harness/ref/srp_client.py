"""Independent SRP-6a reference (RFC 5054, SHA-512, 3072-bit group) with the HomeKit conventions.

Written from RFC 5054 / RFC 2945 and the HAP pair-setup description; imports nothing from pyhap.

Conventions (DESIGN.md C08 "Reading"):
  N, g      RFC 5054 appendix A, 3072-bit group, g = 5
  k         = H(N | PAD(g))
  x         = H(s | H(I ":" P))
  u         = H(PAD(A) | PAD(B))
  A, B, S   are sent / hashed in minimal big-endian form wherever RFC 5054 does not say PAD
  K         = H(S)            -- the full 64-byte digest
  M1        = H(H(N) xor H(g) | H(I) | s | A | B | K)
  M2        = H(A | M1 | K)
"""
from __future__ import annotations

import hashlib
from dataclasses import dataclass

# RFC 5054 appendix A, 3072-bit group (typed from the RFC, not taken from pyhap/params.py)
N_HEX = (
    "FFFFFFFF FFFFFFFF C90FDAA2 2168C234 C4C6628B 80DC1CD1 29024E08"
    "8A67CC74 020BBEA6 3B139B22 514A0879 8E3404DD EF9519B3 CD3A431B"
    "302B0A6D F25F1437 4FE1356D 6D51C245 E485B576 625E7EC6 F44C42E9"
    "A637ED6B 0BFF5CB6 F406B7ED EE386BFB 5A899FA5 AE9F2411 7C4B1FE6"
    "49286651 ECE45B3D C2007CB8 A163BF05 98DA4836 1C55D39A 69163FA8"
    "FD24CF5F 83655D23 DCA3AD96 1C62F356 208552BB 9ED52907 7096966D"
    "670C354E 4ABC9804 F1746C08 CA18217C 32905E46 2E36CE3B E39E772C"
    "180E8603 9B2783A2 EC07A28F B5C55DF0 6F4C52C9 DE2BCBF6 95581718"
    "3995497C EA956AE5 15D22618 98FA0510 15728E5A 8AAAC42D AD33170D"
    "04507A33 A85521AB DF1CBA64 ECFB8504 58DBEF0A 8AEA7157 5D060C7D"
    "B3970F85 A6E1E4C7 ABF5AE8C DB0933D7 1E8C94E0 4A25619D CEE3D226"
    "1AD2EE6B F12FFA06 D98A0864 D8760273 3EC86A64 521F2B18 177B200C"
    "BBE11757 7A615D6C 770988C0 BAD946E2 08E24FA0 74E5AB31 43DB5BFC"
    "E0FD108E 4B82D120 A93AD2CA FFFFFFFF FFFFFFFF"
)
N = int(N_HEX.replace(" ", ""), 16)
G = 5
N_BYTES = 384
USERNAME = b"Pair-Setup"


def H(*parts: bytes) -> bytes:
    return hashlib.sha512(b"".join(parts)).digest()


def i2b(n: int) -> bytes:
    """minimal big-endian; 0 -> b''"""
    return n.to_bytes((n.bit_length() + 7) // 8, "big")


def b2i(b: bytes) -> int:
    return int.from_bytes(b, "big")


def pad(b: bytes) -> bytes:
    return b"\x00" * (N_BYTES - len(b)) + b


def k_mult() -> int:
    return b2i(H(i2b(N), pad(i2b(G))))


def x_of(salt: bytes, code: bytes, user: bytes = USERNAME) -> int:
    return b2i(H(salt, H(user, b":", code)))


def u_of(A_bytes: bytes, B_bytes: bytes) -> int:
    return b2i(H(pad(A_bytes), pad(B_bytes)))


def proof_M1(user: bytes, salt: bytes, A_bytes: bytes, B_bytes: bytes, K: bytes) -> bytes:
    hn, hg = H(i2b(N)), H(i2b(G))
    return H(bytes(a ^ b for a, b in zip(hn, hg)), H(user), salt, A_bytes, B_bytes, K)


def proof_M2(A_bytes: bytes, M1: bytes, K: bytes) -> bytes:
    return H(A_bytes, M1, K)


class SrpAbort(Exception):
    """the RFC tells the client to abort (B mod N == 0)"""


@dataclass
class ClientResult:
    a: int
    A_bytes: bytes
    u: int
    S: int
    K: bytes
    M1: bytes
    M2: bytes  # what the accessory must answer


def client(code: bytes, salt: bytes, B_bytes: bytes, a: int, user: bytes = USERNAME) -> ClientResult:
    """The controller side for password `code`, the M2 values (salt, B) and secret `a`."""
    B = b2i(B_bytes)
    if B % N == 0:
        raise SrpAbort("B = 0 mod N")
    A = pow(G, a, N)
    A_bytes = i2b(A)
    u = u_of(A_bytes, B_bytes)
    x = x_of(salt, code, user)
    k = k_mult()
    S = pow((B - k * pow(G, x, N)) % N, a + u * x, N)
    K = H(i2b(S))
    M1 = proof_M1(user, salt, A_bytes, B_bytes, K)
    return ClientResult(a, A_bytes, u, S, K, M1, proof_M2(A_bytes, M1, K))


# ---- accessory-side formulas (RFC 5054 server), used to *choose* inputs (forced leading-zero cases), to
# ---- build the attacker's S = 0 proof, and (server_expected) to evaluate the SPECIFICATION predicate of the
# ---- C01 theorems ("this M3 carries the proof expected for its A") independently of pyhap and of the Lean
# ---- model; the implementation itself is judged by the client-side formulas only.


def server_B(code: bytes, salt: bytes, b: int, user: bytes = USERNAME) -> int:
    v = pow(G, x_of(salt, code, user), N)
    return (k_mult() * v + pow(G, b, N)) % N


def server_S(code: bytes, salt: bytes, b: int, A_bytes: bytes, user: bytes = USERNAME) -> int:
    v = pow(G, x_of(salt, code, user), N)
    B_bytes = i2b((k_mult() * v + pow(G, b, N)) % N)
    u = u_of(A_bytes, B_bytes)
    return pow(b2i(A_bytes) * pow(v, u, N), b, N)


def server_expected(code: bytes, salt: bytes, b: int, A_bytes: bytes, user: bytes = USERNAME, vB=None):
    """(K, M1, M2) an RFC 5054 server with password `code`, salt and secret b expects for public value A.
    `vB` = (v, B_bytes) if the caller already has them for this (code, salt, b)."""
    if vB is None:
        v = pow(G, x_of(salt, code, user), N)
        vB = (v, i2b((k_mult() * v + pow(G, b, N)) % N))
    v, B_bytes = vB
    S = pow(b2i(A_bytes) * pow(v, u_of(A_bytes, B_bytes), N), b, N)
    K = H(i2b(S))
    M1 = proof_M1(user, salt, A_bytes, B_bytes, K)
    return K, M1, proof_M2(A_bytes, M1, K)


def degenerate_proof(salt: bytes, A_bytes: bytes, B_bytes: bytes, user: bytes = USERNAME):
    """What anybody can compute for A = 0 mod N: S = 0, K = H(b''), M1, M2 (no setup code needed)."""
    K = H(b"")
    M1 = proof_M1(user, salt, A_bytes, B_bytes, K)
    return K, M1, proof_M2(A_bytes, M1, K)
