"""Independent reader of the accessory state file and canonical view of an in-memory State.

Written from the documented file format (a JSON object with mac, config_version,
accessories_hash, private_key, public_key, paired_clients, client_properties,
client_uuid_to_bytes); shares no code with pyhap.encoder.  Used by the C15 oracle to decide
whether the file on disk is a complete copy of a given state.
"""
from __future__ import annotations

import json
import uuid
from typing import Any, Dict, Optional


def _raw_private(key) -> str:
    from cryptography.hazmat.primitives import serialization as s

    return key.private_bytes(
        encoding=s.Encoding.Raw, format=s.PrivateFormat.Raw, encryption_algorithm=s.NoEncryption()
    ).hex()


def _raw_public(key) -> str:
    from cryptography.hazmat.primitives import serialization as s

    return key.public_bytes(encoding=s.Encoding.Raw, format=s.PublicFormat.Raw).hex()


def canon_state(state) -> Dict[str, Any]:
    """Identity + pairing state of an in-memory State, from its public attributes only."""
    return {
        "mac": state.mac,
        "config_version": state.config_version,
        "accessories_hash": state.accessories_hash,
        "private_key": _raw_private(state.private_key),
        "public_key": _raw_public(state.public_key),
        "paired_clients": {str(u): bytes(k).hex() for u, k in state.paired_clients.items()},
        "client_properties": {
            str(u): {str(pk): pv for pk, pv in props.items()} for u, props in state.client_properties.items()
        },
        "client_uuid_to_bytes": {str(u): bytes(b).hex() for u, b in state.uuid_to_bytes.items()},
    }


def canon_text(text: str) -> Optional[Dict[str, Any]]:
    """Canonical view of the text of a state file; None if it is not a complete document."""
    try:
        doc = json.loads(text)
    except ValueError:
        return None
    if not isinstance(doc, dict):
        return None
    try:
        out = {
            "mac": doc["mac"],
            "config_version": doc["config_version"],
            "accessories_hash": doc.get("accessories_hash"),
            "private_key": bytes.fromhex(doc["private_key"]).hex(),
            "public_key": bytes.fromhex(doc["public_key"]).hex(),
            "paired_clients": {str(uuid.UUID(u)): bytes.fromhex(k).hex() for u, k in doc["paired_clients"].items()},
            "client_properties": {
                str(uuid.UUID(u)): {str(pk): pv for pk, pv in props.items()}
                for u, props in doc.get("client_properties", {}).items()
            },
            "client_uuid_to_bytes": {
                str(uuid.UUID(u)): bytes.fromhex(b).hex() for u, b in doc.get("client_uuid_to_bytes", {}).items()
            },
        }
    except (KeyError, ValueError, TypeError, AttributeError):
        return None
    return out


def canon_file(path) -> Optional[Dict[str, Any]]:
    try:
        with open(path, "r", encoding="utf8") as fh:
            text = fh.read()
    except FileNotFoundError:
        return None
    except UnicodeDecodeError:
        return None
    return canon_text(text)


def diff(a: Optional[Dict[str, Any]], b: Optional[Dict[str, Any]]) -> str:
    """Short human-readable difference between two canonical views."""
    if a is None or b is None:
        return f"{'missing/unreadable' if a is None else 'present'} vs {'missing/unreadable' if b is None else 'present'}"
    parts = []
    for k in sorted(set(a) | set(b)):
        if a.get(k) != b.get(k):
            va, vb = a.get(k), b.get(k)
            if isinstance(va, dict) and isinstance(vb, dict):
                only_a = sorted(set(va) - set(vb))
                only_b = sorted(set(vb) - set(va))
                chg = sorted(x for x in set(va) & set(vb) if va[x] != vb[x])
                parts.append(f"{k}: only-left={only_a} only-right={only_b} changed={chg}")
            else:
                parts.append(f"{k}: {va!r} vs {vb!r}")
    return "; ".join(parts) or "equal"
