"""Exact rational reference for the step-rounding expression of `to_valid_value`,

    round(min_step * round(value / min_step), 14)

written from IEEE-754 / the Python language reference, with `fractions.Fraction` only (no float
arithmetic except the final correctly-rounded conversions): `/` and `*` on floats are the correctly
rounded exact quotient / product, `round(x)` is round-half-even of the exact value, `round(x, 14)` is
the double nearest to the exact value rounded half-even to 14 decimals.  It shares no code with
pyhap.  The C09 theorems hold for EVERY step-rounding function, so this is not needed for the proofs:
the check uses it only to report how the expression found in the source relates to the textbook one
(a note in the evidence, never a violation).
"""
from __future__ import annotations

from fractions import Fraction


def _to_float(q: Fraction) -> float:
    """Correctly rounded double of an exact rational (OverflowError when out of range)."""
    return q.numerator / q.denominator  # int / int true division is correctly rounded in CPython


def _round_half_even(q: Fraction) -> int:
    return round(q)  # Fraction.__round__ is exact round-half-even


def step_reference(value, min_step):
    """Returns ("ok", result) or ("err", exception class name)."""
    try:
        if value != value or min_step != min_step:
            raise ValueError("NaN")
        inf = float("inf")
        if value in (inf, -inf) or min_step in (inf, -inf):
            return ("skip", None)  # IEEE specials: not the business of a rational reference
        both_int = isinstance(value, int) and isinstance(min_step, int)
        fv, fs = Fraction(value), Fraction(min_step)
        if not both_int:
            # a mixed int / float operation converts the int to a double first
            if isinstance(value, int):
                fv = Fraction(float(value))
            if isinstance(min_step, int):
                fs = Fraction(float(min_step))
        quot = _to_float(fv / fs)  # true division always yields a float
        n = _round_half_even(Fraction(quot))
        if isinstance(min_step, int) and not isinstance(min_step, bool) or isinstance(min_step, bool):
            return ("ok", int(min_step) * n)  # int * int, round(int, 14) is the int itself
        prod = _to_float(Fraction(min_step) * Fraction(float(n)))
        if prod in (inf, -inf):
            return ("skip", None)
        scaled = _round_half_even(Fraction(prod) * 10**14)
        res = _to_float(Fraction(scaled, 10**14))
        return ("ok", res)
    except OverflowError:
        return ("err", "OverflowError")
    except ValueError:
        return ("err", "ValueError")
