"""Independent HAP session-frame codec for the reference controller (written from the HAP
specification: ChaCha20-Poly1305, 2-byte little-endian length as AAD, 64-bit LE counter nonce,
keys by HKDF-SHA512 with salt "Control-Salt").  Shares no code with pyhap.hap_crypto."""
from __future__ import annotations

import struct

from cryptography.hazmat.primitives import hashes
from cryptography.hazmat.primitives.ciphers.aead import ChaCha20Poly1305
from cryptography.hazmat.primitives.kdf.hkdf import HKDF


def _key(shared: bytes, info: bytes) -> bytes:
    return HKDF(algorithm=hashes.SHA512(), length=32, salt=b"Control-Salt", info=info).derive(shared)


class ControllerCipher:
    def __init__(self, shared: bytes):
        self._tx = ChaCha20Poly1305(_key(shared, b"Control-Write-Encryption-Key"))  # controller -> accessory
        self._rx = ChaCha20Poly1305(_key(shared, b"Control-Read-Encryption-Key"))  # accessory -> controller
        self._txn = 0
        self._rxn = 0
        self._buf = b""

    @staticmethod
    def _nonce(n: int) -> bytes:
        return b"\x00\x00\x00\x00" + struct.pack("<Q", n)

    def encrypt(self, data: bytes) -> bytes:
        out = b""
        for off in range(0, len(data), 1024):
            chunk = data[off:off + 1024]
            ln = struct.pack("<H", len(chunk))
            out += ln + self._tx.encrypt(self._nonce(self._txn), chunk, ln)
            self._txn += 1
        return out

    def decrypt(self, data: bytes) -> bytes:
        """all complete frames in data (raises on a bad tag / malformed framing)"""
        self._buf += data
        out = b""
        while len(self._buf) >= 2:
            (n,) = struct.unpack("<H", self._buf[:2])
            if n > 1024:
                raise ValueError("frame longer than 1024 bytes")
            if len(self._buf) < 2 + n + 16:
                break
            out += self._rx.decrypt(self._nonce(self._rxn), self._buf[2:2 + n + 16], self._buf[:2])
            self._rxn += 1
            self._buf = self._buf[2 + n + 16:]
        return out
