"""Script generators for the event-system properties (C12, C13) and the canonical forms used to
compare the real code with the Lean model.  Scripts always respect the address-reuse hypothesis.
Times are ticks of 62.5 ms; every script starts with ["advance", 1] so that ops happen on odd ticks
(event timers then never tie with the 300 s idle sweep, whose heap order would be unspecified).
"""
from __future__ import annotations

import random
from typing import Any, Dict, List

IMM = [2, 3]
NUL = [2]
IDLE = 90 * 3600 * 16
CAUSES = ["lose", "bad_http", "bad_frame", "put_close", "idle", "stop", "data_while_pending"]
PENDING = ["coalesced", "immediate", "snapshot", "prepared", "subscription", "all"]


def vfor(x, v):
    return v % 3 if x % 4 == 2 else v % 101


def is_bridge(ops) -> bool:
    return any(op[0] == "world" and op[1] == "bridge" for op in ops)


def is_strings(ops) -> bool:
    return any(op[0] == "world" and op[1] == "strings" for op in ops)


def is_v6(ops) -> bool:
    return any(op[0] == "world" and op[1] == "v6" for op in ops)


def tables(ops):
    """(immediate, always-null) characteristic indexes by the HAP type of each test characteristic
    (#x and #x+4 are the same kind on the two bridged accessories)"""
    k = 2 if is_bridge(ops) else 1
    return [x + 4 * j for j in range(k) for x in IMM], [x + 4 * j for j in range(k) for x in NUL]


class Book:
    """generator-side bookkeeping: which objects exist / were lost (keeps address reuse legal)"""

    def __init__(self):
        self.addr: List[int] = []
        self.lost = set()
        self.dead = set()  # known to be closed by the script itself
        self.verified = set()
        self.stopped = False

    def can_connect(self, a):
        return not self.stopped and all(not (x == a and i not in self.lost) for i, x in enumerate(self.addr))

    def live(self):
        return [i for i in range(len(self.addr)) if i not in self.lost and i not in self.dead]


def scenario_c13(cause: str, pending: str, d_gap: int, d_re: int, resub: bool, x: int = 0) -> List[list]:
    """termination cause × what is pending × re-connect from the same address after d_re ticks"""
    ops: List[list] = [["advance", 1], ["connect", 0], ["verify", 0], ["connect", 1], ["verify", 1]]
    ops.append(["put", 1, x, True, None, False])
    if pending in ("subscription", "coalesced", "immediate", "all"):
        ops.append(["put", 0, x, True, None, False])
    if pending in ("immediate", "all"):
        ops.append(["put", 0, 3, True, None, False])
    if pending in ("prepared", "all"):
        ops.append(["prepare", 0, 7])
    if pending in ("snapshot", "all") or cause == "data_while_pending":
        ops.append(["snapshot", 0])
    if pending in ("coalesced", "all"):
        ops.append(["app_set", x, vfor(x, 11)])
    if pending in ("immediate", "all"):
        ops.append(["app_set", 3, 5])
    if d_gap:
        ops.append(["advance", d_gap])
    if cause == "lose":
        pass
    elif cause == "bad_http":
        ops.append(["bad_http", 0])
    elif cause == "bad_frame":
        ops.append(["bad_frame", 0])
    elif cause == "put_close":
        ops.append(["put", 0, 1, None, 9, True])
    elif cause == "idle":
        ops.append(["advance", IDLE + 4800 + 2])
    elif cause == "stop":
        ops.append(["stop"])
    elif cause == "data_while_pending":
        ops.append(["get", 0, 0])
    if cause != "lose" and d_gap % 4 == 2:
        ops.append(["app_set", x, vfor(x, 12)])  # a change while closed but not yet lost
    ops.append(["lose", 0])
    if d_re:
        ops.append(["advance", d_re])
    ops += [["connect", 0], ["verify", 2]]
    if resub:
        ops.append(["put", 2, x, True, None, False])
    ops += [["advance", 2], ["app_set", x, vfor(x, 13)], ["advance", 10], ["resp_ready", 0], ["get", 2, x], ["advance", 16]]
    return ops


def boundary_c13() -> List[List[list]]:
    res = []
    for cause in CAUSES:
        for pending in PENDING:
            for d_gap, d_re, resub in ((0, 0, True), (2, 2, True), (4, 10, True), (2, 0, False)):
                res.append(scenario_c13(cause, pending, d_gap, d_re, resub, x=0))
    # idle boundary: active 89 h 59 min before the sweep / silent for exactly 90 h / 90 h + 1 tick
    for quiet in (IDLE - 4800, IDLE - 2, IDLE, IDLE + 2, IDLE + 4800):
        res.append([["advance", 1], ["connect", 0], ["verify", 0], ["connect", 1], ["verify", 1],
                    ["put", 0, 0, True, None, False], ["advance", 4800 * 3 - 2],
                    ["get", 1, 0], ["advance", quiet], ["get", 1, 1], ["advance", 4800 * 2], ["lose", 0], ["advance", 16]])
    # a connection whose only recent activity is an EVENT pushed to it (write() refreshes last_activity):
    # silent for almost 90 h, an event is delivered, the next sweeps must spare it
    for x in (0, 3):
        for more in (False, True):
            ops = [["advance", 1], ["connect", 0], ["verify", 0], ["put", 0, x, True, None, False],
                   ["advance", IDLE - 4800], ["app_set", x, vfor(x, 5)], ["ready"]]
            if more:
                ops += [["advance", 2400], ["app_set", x, vfor(x, 6)], ["ready"], ["advance", 7200]]
            else:
                ops += [["advance", 9600]]
            ops += [["get", 0, x], ["advance", IDLE - 9600], ["get", 0, x], ["lose", 0], ["advance", 16]]
            res.append(ops)
    return res


def boundary_c12() -> List[List[list]]:
    res = []
    base = [["advance", 1], ["connect", 0], ["verify", 0], ["connect", 1], ["verify", 1]]
    for x in (0, 1, 3, 2):
        for d in (0, 2, 6, 8, 10):
            # a controller write that lands inside / at the edge of / after the coalescing window
            res.append(base + [["put", 0, x, True, None, False], ["put", 1, x, True, None, False],
                               ["app_set", x, vfor(x, 10)], ["advance", d], ["put", 0, x, None, vfor(x, 20), False],
                               ["advance", 16]])
            # ... and the write repeats the queued value
            res.append(base + [["put", 0, x, True, None, False], ["app_set", x, vfor(x, 10)], ["advance", d],
                               ["put", 0, x, None, vfor(x, 10), False], ["advance", 16]])
            # unsubscribe / resubscribe around a pending event
            res.append(base + [["put", 0, x, True, None, False], ["app_set", x, vfor(x, 10)], ["advance", d],
                               ["put", 0, x, False, None, False], ["app_set", x, vfor(x, 30)], ["put", 0, x, True, None, False],
                               ["advance", 16]])
            # coalescing: two changes inside one window, last value wins
            res.append(base + [["put", 0, x, True, None, False], ["put", 0, 1, True, None, False], ["app_set", x, vfor(x, 10)],
                               ["app_set", 1, 4], ["advance", min(d, 6)], ["app_set", x, vfor(x, 11)], ["put", 1, x, None, vfor(x, 12), False],
                               ["advance", 16]])
        # immediate types mixed with coalesced ones; ready callbacks left pending across ops
        res.append(base + [["put", 0, x, True, None, False], ["put", 0, 3, True, None, False], ["put", 0, 2, True, None, False],
                           ["app_set", x, vfor(x, 10)], ["app_set", 3, 5], ["put", 0, x, None, vfor(x, 21), False], ["ready"],
                           ["app_set", 2, 1], ["put", 0, 3, False, None, False], ["app_set", 3, 6], ["advance", 16]])
    return res


def resub_family() -> List[List[list]]:
    """unsubscribe -> timer -> change while unsubscribed -> resubscribe -> another characteristic
    changes (1-2 connections, x and y including the immediate types, with / without an own write,
    with / without a still-subscribed entry in the queue when the first timer fires)"""
    res = []
    for two in (False, True):
        for x, y in ((0, 1), (1, 0), (0, 3), (3, 0), (1, 2), (0, 2)):
            for d_unsub in (0, 2, 6):
                for own in (None, "x", "y"):
                    for y_queued in (False, True):
                        for d_wait in (10, 2):  # first timer fires before / after the resubscription
                            ops = [["advance", 1], ["connect", 0], ["verify", 0]]
                            if two:
                                ops += [["connect", 1], ["verify", 1], ["put", 1, x, True, None, False], ["put", 1, y, True, None, False]]
                            ops += [["put", 0, x, True, None, False], ["put", 0, y, True, None, False], ["app_set", x, vfor(x, 10)]]
                            if x in IMM:
                                pass  # left pending: the soon-callback runs at the next advance
                            if y_queued:
                                ops.append(["app_set", y, vfor(y, 4)])
                            if d_unsub:
                                ops.append(["advance", d_unsub])
                            ops.append(["put", 0, x, False, None, False])
                            ops.append(["advance", d_wait])
                            ops.append(["app_set", x, vfor(x, 20)])
                            if own == "x":
                                ops.append(["put", 0, x, None, vfor(x, 30), False])
                            elif own == "y":
                                ops.append(["put", 0, y, None, vfor(y, 31), False])
                            if two and own is None:
                                ops.append(["put", 1, x, None, vfor(x, 40), False])
                            ops.append(["put", 0, x, True, None, False])
                            ops.append(["advance", 10])
                            ops.append(["app_set", y, vfor(y, 5)])
                            ops.append(["advance", 16])
                            ops.append(["get", 0, x])
                            res.append(ops)
    return res


def worker_family() -> List[List[list]]:
    """a change made on a worker thread whose hand-off to the loop is overtaken (or not) by a newer
    change: 1-2 subscribers, the overtaking controller subscribed itself or not, all characteristic
    kinds, one or two worker updates, hand-off before / after the newer change"""
    res = []
    for x in (0, 1, 3, 2):
        for two_subs in (False, True):
            for b_sub in (False, True):
                for overt in ("ctrl_b", "ctrl_a", "loop_set", "none"):
                    for first in ("worker", "newer"):  # which one the loop sees first
                        for second_worker in (False, True):
                            ops = [["advance", 1], ["connect", 0], ["verify", 0], ["put", 0, x, True, None, False],
                                   ["connect", 1], ["verify", 1]]
                            if b_sub:
                                ops.append(["put", 1, x, True, None, False])
                            if two_subs:
                                ops += [["connect", 2], ["verify", 2], ["put", 2, x, True, None, False]]
                            ops.append(["app_set_thread", x, vfor(x, 10)])
                            if second_worker:
                                ops.append(["app_set_thread", x, vfor(x, 11)])
                            if first == "worker":
                                ops.append(["ready"])
                            if overt == "ctrl_b":
                                ops.append(["put", 1, x, None, vfor(x, 20), False])
                            elif overt == "ctrl_a":
                                ops.append(["put", 0, x, None, vfor(x, 20), False])
                            elif overt == "loop_set":
                                ops.append(["app_set", x, vfor(x, 20)])
                            ops += [["ready"], ["advance", 16], ["get", 0, x]]
                            res.append(ops)
    return res


def callback_family() -> List[List[list]]:
    """controller writes to characteristics whose setter_callback echoes the value, sets a different
    value, or sets another characteristic; writer subscribed or not; a second subscriber; the write
    changes the value or repeats it; immediate type too"""
    res = []
    for x, y in ((0, 1), (1, 0), (3, 0), (0, 3)):
        for cb in (["echo"], ["set_to", vfor(x, 7)], ["set_to", vfor(x, 50)], ["set_other", y, vfor(y, 9)]):
            for writer_sub in (True, False):
                for other_sub in (True, False):
                    for repeat in (False, True):
                        for d in (0, 4, 10):
                            ops = [["advance", 1], ["cb", x] + cb, ["connect", 0], ["verify", 0], ["connect", 1], ["verify", 1]]
                            if writer_sub:
                                ops += [["put", 0, x, True, None, False], ["put", 0, y, True, None, False]]
                            if other_sub:
                                ops += [["put", 1, x, True, None, False], ["put", 1, y, True, None, False]]
                            ops.append(["app_set", x, vfor(x, 50)])
                            if d:
                                ops.append(["advance", d])
                            ops.append(["put", 0, x, None, vfor(x, 50) if repeat else vfor(x, 60), False])
                            ops += [["ready"], ["advance", 16], ["put", 1, x, None, vfor(x, 61), False], ["advance", 16], ["get", 0, x]]
                            res.append(ops)
    return res


def raise_family() -> List[List[list]]:
    """a controller write whose setter callback raises (answered -70402): other subscribers / the writer
    subscribed or not; something queued for the writer or not; alone or inside a scene write next to a
    succeeding query; later changes and reads"""
    res = []
    for x, y in ((0, 1), (1, 0), (3, 0), (0, 3)):
        for writer_sub in (False, True):
            for other_sub in (True, False):
                for queued in (False, True):
                    for scene in (False, True):
                        for d in (0, 4, 10):
                            ops = [["advance", 1], ["cb", x, "raise"], ["connect", 0], ["verify", 0], ["connect", 1], ["verify", 1]]
                            if writer_sub:
                                ops += [["put", 0, x, True, None, False], ["put", 0, y, True, None, False]]
                            if other_sub:
                                ops += [["put", 1, x, True, None, False], ["put", 1, y, True, None, False]]
                            ops += [["app_set", x, vfor(x, 10)], ["advance", 16]]
                            if queued:
                                ops.append(["app_set", x, vfor(x, 11)])
                            if d:
                                ops.append(["advance", d])
                            if scene:
                                ops.append(["putm", 0, [[y, None, vfor(y, 21)], [x, None, vfor(x, 20)]], False])
                            else:
                                ops.append(["put", 0, x, None, vfor(x, 20), False])
                            ops += [["ready"], ["advance", 16], ["get", 1, x], ["app_set", x, vfor(x, 20)], ["advance", 16],
                                    ["put", 1, x, None, vfor(x, 30), False], ["advance", 16], ["get", 0, x]]
                            res.append(ops)
    return res


def string_family() -> List[List[list]]:
    """a STRING characteristic (#1 = Configured Name) among the notifying ones: values of every kind that
    makes characters, bytes and JSON text differ in length (index v stands for sysev_world.STRS[v], kind
    v % 8), set by the application or written by a controller (\\u-escaped or raw UTF-8 request), one or two
    subscribers, and LATER events / reads on the same connections (a mis-framed message swallows them)"""
    res = []
    for kind in range(8):
        for src in ("app", "ctrl", "worker"):
            for two in (False, True):
                for v6 in (False, True):
                    if v6 and (kind + two) % 2:
                        continue
                    ops = [["advance", 1], ["world", "strings"]] + ([["world", "v6"]] if v6 else [])
                    ops += [["connect", 0], ["verify", 0], ["connect", 1], ["verify", 1],
                            ["putm", 0, [[1, True, None], [0, True, None]], False]]
                    if two:
                        ops.append(["putm", 1, [[0, True, None], [1, True, None]], False])
                    v = 8 + kind
                    if src == "app":
                        ops.append(["app_set", 1, v])
                    elif src == "worker":
                        ops += [["app_set_thread", 1, v], ["ready"]]
                    else:
                        ops.append(["put", 1, 1, None, v, False])
                    ops += [["advance", 10], ["app_set", 0, 42], ["advance", 10], ["get", 0, 1],
                            ["app_set", 1, 16 + kind], ["app_set", 0, 43], ["advance", 10],
                            ["put", 0, 1, None, 24 + (kind + 1) % 8, False], ["advance", 10], ["get", 1, 1], ["get", 0, 0]]
                    res.append(ops)
    return res


def family_variants(scripts: List[List[list]], every: int = 6) -> List[List[list]]:
    """the peer-address family and the value type are dimensions of EVERY script family: each `every`-th
    deterministic script is repeated with IPv6 peers (4-tuple peernames) and -- when it touches
    characteristic #1 and has no callbacks -- with #1 being a string characteristic"""
    res = []
    for i, ops in enumerate(scripts):
        if i % every:
            continue
        if not any(op[0] == "world" and op[1] == "v6" for op in ops):
            res.append(ops[:1] + [["world", "v6"]] + ops[1:])
        if i % (2 * every) == 0 and not any(op[0] in ("cb",) or (op[0] == "world") for op in ops) and '1' in {str(z) for op in ops if op[0] in ("app_set", "put") for z in op[1:3]}:
            res.append(ops[:1] + [["world", "strings"]] + ops[1:])
    return res


def scene_family() -> List[List[list]]:
    """one PUT with several queries ("scene" writes): on a bridge whose two accessories share their
    iids (#x on aid 2, #x+4 on aid 3) and on the standalone accessory; an event for one of the written
    characteristics is pending for the writer; values from a small set so that the value written to the
    OTHER characteristic equals the stale queued value; both query orders; writer / other subscribed"""
    res = []
    for bridge in (True, False):
        pairs = ((0, 4), (4, 0), (1, 5), (3, 7), (0, 1)) if bridge else ((0, 1), (1, 0), (0, 3), (3, 1))
        for x, y in pairs:
            for order in (0, 1):
                for other_sub in (False, True):
                    for queued, wx, wy in ((10, 20, 10), (10, 20, 30), (10, 10, 20), (20, 10, 20)):
                        for d in (0, 4, 10):
                            ops = [["advance", 1]] + ([["world", "bridge"]] if bridge else [])
                            ops += [["connect", 0], ["verify", 0], ["connect", 1], ["verify", 1],
                                    ["putm", 0, [[x, True, None], [y, True, None]], False]]
                            if other_sub:
                                ops.append(["putm", 1, [[y, True, None], [x, True, None]], False])
                            ops.append(["app_set", x, vfor(x, queued)])
                            if d:
                                ops.append(["advance", d])
                            qs = [[x, None, vfor(x, wx)], [y, None, vfor(y, wy)]]
                            ops.append(["putm", 0, qs if order == 0 else qs[::-1], False])
                            ops += [["ready"], ["advance", 16], ["putm", 1, [[y, None, vfor(y, 33)], [x, False if other_sub else None, vfor(x, 34)]], False],
                                    ["advance", 16], ["get", 0, x], ["get", 0, y]]
                            res.append(ops)
    return res


def random_script(rng: random.Random, max_ops: int = 30, flavour: str = "c12") -> List[list]:
    b = Book()
    ops: List[list] = [["advance", 1]]
    nconn = rng.choice([1, 2, 2, 3, 3])
    bridge = rng.random() < 0.25
    if bridge:
        ops.append(["world", "bridge"])
        base = rng.choice([0, 1, 3])
        xs = [base, base + 4] + rng.sample([x for x in range(8) if x % 4 != base], rng.choice([0, 1, 2]))
    else:
        xs = rng.sample([0, 1, 2, 3], rng.choice([1, 2, 3, 3]))
    if flavour == "c12" and not bridge and rng.random() < 0.7 and not any(x in IMM for x in xs):
        xs[-1] = rng.choice(IMM)
    if rng.random() < 0.25:
        ops.append(["world", "v6"])  # IPv6 peers: 4-tuple peernames
    if rng.random() < 0.25:
        ops.append(["world", "strings"])  # #1 (and #5) hold strings
        if not any(x % 4 == 1 for x in xs):
            xs[0] = 1
    n = rng.randrange(6, max_ops + 1)
    if rng.random() < 0.35:
        # setter callbacks on some (never always-null) characteristics
        for x in [x for x in xs if x % 4 not in NUL][: rng.choice([1, 1, 2])]:
            kind = rng.choice(["echo", "echo", "set_to", "set_other", "raise"])
            if kind == "echo":
                ops.append(["cb", x, "echo"])
            elif kind == "raise":
                ops.append(["cb", x, "raise"])
            elif kind == "set_to":
                ops.append(["cb", x, "set_to", vfor(x, rng.choice([7, 20, 50]))])
            else:
                y = rng.choice([y for y in ((0, 1, 3, 4, 5, 7) if bridge else (0, 1, 3)) if y != x])
                ops.append(["cb", x, "set_other", y, vfor(y, rng.choice([9, 20]))])
        n += 2

    def connect(a):
        ops.append(["connect", a])
        b.addr.append(a)
        i = len(b.addr) - 1
        if rng.random() < 0.9:
            ops.append(["verify", i])
            b.verified.add(i)
        return i

    for a in range(nconn):
        if rng.random() < 0.8:
            i = connect(a)
            if rng.random() < 0.7:
                ops.append(["put", i, rng.choice(xs), True, None, False])
    while len(ops) < n:
        live = b.live()
        r = rng.random()
        x = rng.choice(xs)
        if r < 0.22:
            kind = "app_set_thread" if rng.random() < 0.3 else "app_set"
            ops.append([kind, x, vfor(x, rng.choice([1, 2, 3, 10, 20, 30, rng.randrange(101)]))])
        elif r < 0.40 and live:
            p = rng.choice(live)
            ev = rng.choice([None, None, True, False]) if rng.random() < 0.6 else None
            if len(xs) > 1 and rng.random() < 0.35:
                # a scene write: several characteristics in one PUT, values from a small set
                qs = []
                for qx in rng.sample(xs, rng.choice([2, 2, min(3, len(xs))])):
                    qs.append([qx, rng.choice([None, None, True, False]) if rng.random() < 0.3 else None,
                               vfor(qx, rng.choice([10, 20, 30])) if rng.random() < 0.85 else None])
                ops.append(["putm", p, qs, False])
            else:
                ops.append(["put", p, x, ev, vfor(x, rng.choice([1, 2, 3, 10, 20, 30, rng.randrange(101)])), False])
        elif r < 0.52 and live:
            p = rng.choice(live)
            ev = rng.choice([True, True, False, False])
            ops.append(["put", p, x, ev, None, False])
            if not ev and rng.random() < 0.6:
                # unsubscribe / (time passes / value changes) / resubscribe around the window
                if rng.random() < 0.6:
                    ops.append(["advance", rng.choice([2, 6, 8, 10])])
                if rng.random() < 0.7:
                    ops.append(["app_set", x, vfor(x, rng.randrange(101))])
                ops.append(["put", p, x, True, None, False])
                if rng.random() < 0.6:
                    y = rng.choice(xs)
                    ops.append(["app_set", y, vfor(y, rng.randrange(101))])
        elif r < 0.70:
            ops.append(["advance", rng.choice([2, 2, 4, 6, 8, 10, 16])])
        elif r < 0.74:
            ops.append(["ready"])
        elif r < 0.78 and live:
            ops.append(["get", rng.choice(live), x])
        elif r < 0.81 and live:
            ops.append(["prepare", rng.choice(live), rng.randrange(1, 4)])
        elif r < 0.84 and live and flavour == "c13":
            ops.append(["snapshot", rng.choice(live)])
        elif r < 0.86 and flavour == "c13" and b.addr:
            ops.append(["resp_ready", rng.randrange(len(b.addr))])
        elif r < 0.90 and live:
            p = rng.choice(live)
            kind = rng.choice(["lose", "bad_http", "bad_frame", "put_close", "lose"])
            if kind == "lose":
                if rng.random() < 0.5:
                    # something is queued < 0.5 s before the peer ends the connection ...
                    ops.append(["put", p, x, True, None, False])
                    ops.append(["app_set", x, vfor(x, rng.randrange(101))])
                    if rng.random() < 0.5:
                        ops.append(["advance", rng.choice([2, 4, 6])])
                ops.append(["lose", p])
                b.lost.add(p)
                if rng.random() < 0.5 and b.can_connect(b.addr[p]):
                    # ... and the same address reconnects and re-subscribes inside the window
                    i = connect(b.addr[p])
                    ops.append(["put", i, x, True, None, False])
                    ops.append(["advance", rng.choice([2, 8, 10])])
            elif kind == "put_close":
                ops.append(["put", p, x, None, vfor(x, rng.randrange(101)), True])
                b.dead.add(p)
            else:
                ops.append([kind, p])
                b.dead.add(p)
        elif r < 0.93:
            dead = [i for i in b.dead if i not in b.lost]
            if dead:
                p = rng.choice(dead)
                ops.append(["lose", p])
                b.lost.add(p)
        elif r < 0.97:
            a = rng.randrange(nconn)
            if b.can_connect(a):
                i = connect(a)
                if rng.random() < 0.6:
                    ops.append(["put", i, x, True, None, False])
        elif r < 0.975 and flavour == "c13":
            ops.append(["advance", rng.choice([IDLE - 4800, IDLE + 4800 + 2, IDLE // 2])])
        elif r < 0.98 and flavour == "c13":
            ops.append(["stop"])
            b.stopped = True
            b.dead.update(range(len(b.addr)))
        if rng.random() < 0.55 and ops[-1][0] in ("app_set", "put", "putm", "app_set_thread"):
            ops.append(["ready"])
    # drain: everything that was closed gets its loss, then time passes
    if rng.random() < 0.7:
        for i in sorted(b.dead - b.lost):
            ops.append(["lose", i])
    ops.append(["advance", 16])
    return ops


def exhaustive_c12(depth: int) -> List[List[list]]:
    """every script of `depth` ops over a 2-connection / 1-characteristic alphabet"""
    alpha = [["app_set", 0, 10], ["app_set", 0, 20], ["put", 0, 0, None, 10, False], ["put", 0, 0, None, 30, False],
             ["put", 1, 0, None, 20, False], ["put", 0, 0, True, None, False], ["put", 0, 0, False, None, False],
             ["put", 1, 0, True, None, False], ["advance", 4], ["advance", 8]]
    base = [["advance", 1], ["connect", 0], ["verify", 0], ["connect", 1], ["verify", 1]]
    res: List[List[list]] = []

    def rec(prefix, k):
        if k == 0:
            res.append(base + prefix + [["advance", 16]])
            return
        for a in alpha:
            rec(prefix + [a], k - 1)

    rec([], depth)
    return res


# --------------------------------------------------------------------------- canonical forms


def canon_body(b):
    if b is None:
        return None
    if isinstance(b, dict) and "chars" in b and len(b["chars"]) == 1 and b["chars"][0][2] == 0 and b["chars"][0][1] != "absent":
        return {"value": b["chars"][0][1]}
    if isinstance(b, dict) and b.get("raw") == "JPEG":
        return "image"
    return b


def canon_impl(res: Dict[str, Any]) -> Dict[str, Any]:
    """the observables of a real run in the model driver's output format"""
    log = {}
    for k, v in res["log"].items():
        ents = []
        for e in v:
            e = e[:-1]  # drop the op index (diagnostic)
            if e[1] == "resp":
                e = [e[0], "resp", e[2], canon_body(e[3])]
            ents.append(e)
        log[str(k)] = ents
    return {"log": log, "digests": res["digests"], "nobj": res["nobj"]}


def model_line(ops, fixed=True, imm=None, nul=None) -> Dict[str, Any]:
    ti, tn = tables(ops)
    return {"layer": "sysev", "imm": ti if imm is None else imm, "nul": tn if nul is None else nul,
            "fix12": fixed, "fix13": fixed, "fixResub": fixed, "fixRaise": fixed, "fixHand": fixed, "nchars": 8 if is_bridge(ops) else 4, "ops": ops}


def canon_multi(e):
    """a 207 Multi-Status body: one entry per written characteristic (the last status wins), by index --
    the order of the entries in the body is not an observable of C12 / C13"""
    if len(e) >= 4 and e[1] == "resp" and isinstance(e[3], dict) and "chars" in e[3]:
        last = {}
        for c in e[3]["chars"]:
            last[c[0]] = list(c)
        return list(e[:3]) + [{"chars": [last[k] for k in sorted(last)]}] + list(e[4:])
    return e


def first_difference(model, impl):
    model = dict(model, log={k: [canon_multi(e) for e in v] for k, v in model.get("log", {}).items()})
    impl = dict(impl, log={k: [canon_multi(e) for e in v] for k, v in impl.get("log", {}).items()})
    if model.get("nobj") != impl.get("nobj"):
        return {"what": "number of connections", "model": model.get("nobj"), "impl": impl.get("nobj")}
    for i, (a, b) in enumerate(zip(model["digests"], impl["digests"])):
        if a != b:
            return {"what": f"driver/server maps after op {i}", "model": a, "impl": b}
    for k in sorted(set(model["log"]) | set(impl["log"])):
        a, b = model["log"].get(k, []), impl["log"].get(k, [])
        if a != b:
            j = next((j for j in range(min(len(a), len(b))) if a[j] != b[j]), min(len(a), len(b)))
            return {"what": f"transport of connection #{k}, entry {j}", "model": a[j:j + 2], "impl": b[j:j + 2]}
    return None
