"""Property oracles for C12 and C13, judged from what the transports saw and from the public
driver/server maps after each op (sysev_world.run_script result).  Independent of the Lean model:
they restate the properties' sentences over the observed behaviour.

All oracles assume the scripts respect the address-reuse hypothesis stated by C12/C13 (a peer
address reconnects only after the loss of its previous connection has been processed); the
generators guarantee it and `reuse_ok` re-checks it.
"""
from __future__ import annotations

from typing import Any, Dict, List, Optional, Tuple

IDLE = 90 * 3600 * 16  # ticks
WINDOW = 8


class Facts:
    """script-level facts shared by the oracles (derived from ops + observed logs, no model)"""

    def __init__(self, ops, res, imm, nul):
        self.ops = ops
        self.res = res
        self.imm = set(imm)
        self.nul = set(nul)
        self.n = len(ops)
        # virtual time after each op
        t, self.t_after = 0, []
        for op in ops:
            if op[0] == "advance":
                t += op[1]
            self.t_after.append(t)
        self.t_before = [0] + self.t_after[:-1]
        # object numbering = order of effective connects (observed: res["addr"])
        self.addr = list(res["addr"])
        self.connect_op: List[int] = []
        stopped = False
        for i, op in enumerate(ops):
            if op[0] == "stop":
                stopped = True
            if op[0] == "connect" and not stopped:
                self.connect_op.append(i)
        if len(self.connect_op) != len(self.addr):
            raise RuntimeError("connection numbering does not match the observed connections: %r %r" % (self.connect_op, self.addr))
        self.verify_op: Dict[int, int] = {}
        self.lose_op: Dict[int, int] = {}
        for i, op in enumerate(ops):
            if op[0] == "verify" and op[1] < self.nobj_at(i) and op[1] not in self.verify_op:
                self.verify_op[op[1]] = i
            if op[0] == "lose" and op[1] < self.nobj_at(i) and op[1] not in self.lose_op:
                self.lose_op[op[1]] = i
        self.log = {int(k): v for k, v in res["log"].items()}
        self.dig = res["digests"]
        # setter callbacks configured on the test accessory (harness configuration, not the model)
        self.cb = {op[1]: op[2:] for op in ops if op[0] == "cb"}

    def nobj_at(self, i):
        return sum(1 for c in self.connect_op if c < i)

    def values_before(self, i):
        return self.dig[i - 1]["values"] if i > 0 else None

    def first_close_pos(self, p) -> Optional[int]:
        for k, e in enumerate(self.log.get(p, [])):
            if e[1] == "close":
                return k
        return None


def puts(op):
    """the queries of a PUT /characteristics op: (connection, [(x, ev, val), ...]); None for other ops.
    set_characteristics processes every `ev` member first, then the `value` members in order."""
    if op[0] == "put":
        return op[1], [(op[2], op[3], op[4])]
    if op[0] == "putm":
        return op[1], [tuple(q) for q in op[2]]
    return None


def wrote(op, p, x):
    """value that #p writes to x with this op (None if it does not)"""
    pq = puts(op)
    if pq is None or pq[0] != p:
        return None
    vals = [v for qx, _ev, v in pq[1] if qx == x and v is not None]
    return vals[-1] if vals else None


def response_to(f, p, i):
    """the HTTP response written to #p during op i (None if there is none)"""
    for e in f.log.get(p, []):
        if e[1] == "resp" and e[-1] == i:
            return e
    return None


def acked(f, p, i, x) -> bool:
    """the write of characteristic x in the PUT of op i was acknowledged to #p: 204, or status 0 for x in
    a 207 Multi-Status answer"""
    e = response_to(f, p, i)
    if e is None:
        return False
    if e[2] == 204:
        return True
    if e[2] == 207 and isinstance(e[3], dict) and "chars" in e[3]:
        st = [c[2] for c in e[3]["chars"] if c[0] == x]
        return bool(st) and st[-1] == 0
    return False


def reuse_ok(ops) -> bool:
    """the address-reuse hypothesis holds on this script"""
    addr, lost, stopped = [], set(), False
    for op in ops:
        if op[0] == "stop":
            stopped = True
        elif op[0] == "connect" and not stopped:
            if any(a == op[1] and i not in lost for i, a in enumerate(addr)):
                return False
            addr.append(op[1])
        elif op[0] == "lose" and op[1] < len(addr):
            lost.add(op[1])
    return True


# =========================================================================== C13


def oracle_c13(f: Facts) -> List[Tuple[str, str]]:
    """-> list of (signature, description)"""
    bad: List[Tuple[str, str]] = []
    A = lambda a: str(a)  # noqa: E731  (digest keys are strings)

    # no empty entries in the subscription table, ever
    for i, d in enumerate(f.dig):
        for x, subs in d["topics"].items():
            if not subs:
                bad.append(("C13:empty-topic-entry", f"after op {i} {f.ops[i]} topics[{x}] is an empty set"))
                break

    for p, li in f.lose_op.items():
        a = f.addr[p]
        # until the next connection from the same address: nothing is held for it
        nxt = min([c for c in f.connect_op if c > li and f.ops[c][1] == a], default=f.n)
        for i in range(li, nxt):
            d = f.dig[i]
            if p in d["reg"].values():
                bad.append(("C13:registry-entry-after-loss", f"connection #{p}: still registered after op {i} (its loss was processed at op {li})"))
                break
            if A(a) in d["reg"]:
                bad.append(("C13:registry-entry-after-loss", f"address {a}: registry entry after op {i} although connection #{p} was lost at op {li} and nobody reconnected"))
                break
            held = [x for x, subs in d["topics"].items() if a in subs]
            if held:
                bad.append(("C13:subscription-after-loss", f"connection #{p} (address {a}): still subscribed to {held} after op {i} (loss processed at op {li})"))
                break
            if A(a) in d["prepared"]:
                bad.append(("C13:prepared-write-after-loss", f"connection #{p} (address {a}): prepared_writes still has an entry after op {i} (loss processed at op {li})"))
                break
        # a later connection from the same address starts clean
        if nxt < f.n:
            d = f.dig[nxt]
            held = [x for x, subs in d["topics"].items() if a in subs]
            if held or A(a) in d["prepared"]:
                bad.append(("C13:reconnect-inherits-state", f"connection from address {a} at op {nxt} starts with subscriptions {held} / prepared={A(a) in d['prepared']}"))
        # no bytes written to it after the loss was processed
        for e in f.log.get(p, []):
            if e[-1] > li and e[1] in ("event", "resp", "garbage", "undecryptable"):
                bad.append(("C13:write-after-loss", f"connection #{p}: {e[1]} {e[2]!r} written at t={e[0]} (op {e[-1]} {f.ops[e[-1]]}) after its loss was processed at op {li}"))
                break

    # a connection receives events only for what it subscribed to itself (fresh start)
    own_sub = own_subscriptions(f)
    for p, entries in f.log.items():
        for e in entries:
            if e[1] != "event":
                continue
            for x, _v in e[2]:
                if not own_sub(p, x, e[-1]):
                    bad.append(("C13:event-without-own-subscription", f"connection #{p} got an event for characteristic {x} at op {e[-1]} without having subscribed itself"))

    # active connections are never closed as idle: a close that happens inside a pure time advance
    # can only be the idle sweep
    for p, entries in f.log.items():
        for e in entries:
            if e[1] == "close" and f.ops[e[-1]][0] == "advance":
                last = last_activity(f, p, e[-1], e[0])
                if not last + IDLE < e[0]:
                    bad.append(("C13:active-connection-closed-as-idle", f"connection #{p} closed by the idle sweep at t={e[0]} although it was active at t={last} ({(e[0]-last)/16/3600:.2f} h earlier)"))
                break
    return bad


def last_activity(f: Facts, p: int, upto_op: int, upto_t: int) -> int:
    """latest time at which #p demonstrably did something: connected, sent a request, was written to"""
    last = f.t_before[f.connect_op[p]]
    for i in range(f.connect_op[p], upto_op):
        op = f.ops[i]
        if op[0] in ("put", "putm", "get", "prepare", "snapshot", "bad_http", "bad_frame") and op[1] == p:
            last = max(last, f.t_before[i])
    for e in f.log.get(p, []):
        if e[1] in ("event", "resp") and (e[-1] < upto_op or e[0] < upto_t):
            last = max(last, e[0])
    return last


def own_subscriptions(f: Facts):
    """(p, x, op index) -> did #p itself subscribe to x (acknowledged) before that op and not unsubscribe since"""
    hist: Dict[Tuple[int, int], List[Tuple[int, bool]]] = {}
    for i, op in enumerate(f.ops):
        pq = puts(op)
        if pq is not None and pq[0] in f.log and any(ev is not None for _x, ev, _v in pq[1]):
            p = pq[0]
            ack = any(e[1] == "resp" and e[-1] == i and e[2] in (204, 207) for e in f.log[p])
            if ack:
                for x, ev, _v in pq[1]:
                    if ev is not None:
                        hist.setdefault((p, x), []).append((i, bool(ev)))

    def q(p, x, opi):
        st = False
        for i, ev in hist.get((p, x), []):
            if i < opi:
                st = ev
        return st

    def since(p, x, opi):
        """op index at which #p's subscription to x that is current before op `opi` began (None: not subscribed)"""
        st, start = False, None
        for i, ev in hist.get((p, x), []):
            if i < opi:
                if ev and not st:
                    start = i
                st = ev
        return start if st else None

    q.since = since
    return q


# =========================================================================== C12


def changes_of(f: Facts):
    """[(op index, x, value, originator object or None)] for every notifying change, observed
    through the public characteristic values before/after each op"""
    res = []
    for i, op in enumerate(f.ops):
        before = f.values_before(i)
        if op[0] in ("app_set", "app_set_thread"):
            x, v = op[1], op[2]
            if x in f.nul or before is None or before[x] != v:
                res.append((i, x, v, None, op[0] == "app_set_thread"))
            continue
        pq = puts(op)
        if pq is None or pq[0] not in f.log:
            continue
        p = pq[0]
        if response_to(f, p, i) is None:
            continue  # not answered (closed connection, ...)
        cur = dict(enumerate(before)) if before is not None else {}
        for x, _ev, v in pq[1]:  # the value members, in request order
            if v is None:
                continue
            if not acked(f, p, i, x):
                # refused (401) or failed (-70402): not an acknowledged write. If the public value of the
                # characteristic nevertheless became the written value, the controller DID change it
                # (sixth field: True)
                after = f.dig[i]["values"][x]
                if x not in f.nul and after == v and cur.get(x) != v:
                    res.append((i, x, v, p, False, True))
                    cur[x] = v
                continue
            if x in f.nul or cur.get(x) != v:
                res.append((i, x, v, p, False))
            cur[x] = v
            if x in f.cb:
                # what the application's callback does inside the write is an application change
                # (originator none), judged by VALUE CHANGE as the property says
                cb = f.cb[x]
                if cb[0] == "set_to" and (x in f.nul or cb[1] != v):
                    res.append((i, x, cb[1], None, False))
                    cur[x] = cb[1]
                elif cb[0] == "set_other" and (cb[1] in f.nul or cur.get(cb[1]) != cb[2]):
                    res.append((i, cb[1], cb[2], None, False))
                    cur[cb[1]] = cb[2]
    return res


def worker_overtaken(chg, x, learned, src, p=None) -> bool:
    """shape of the worker-thread hand-off defect: the value last learned came with an event, was
    made by a change on a worker thread, and a newer change of x (controller write or loop-thread
    set) happened before that event was sent"""
    if src is None or src[0] != "event":
        return False
    # the change this event reports: the recipient's own writes are never reported to it
    made = [c for c in chg if c[1] == x and c[2] == learned and c[0] <= src[1] and (p is None or c[3] != p)]
    if not made or not made[-1][4]:
        return False
    return any(c[1] == x and made[-1][0] < c[0] <= src[1] and c[2] != learned for c in chg)


WORKER_SIG = "C12:worker-change-overtaken-by-newer-change"
FAILED_WRITE_SIG = "C12:failed-write-changed-value-unannounced"


def oracle_c12(f: Facts) -> List[Tuple[str, str]]:
    bad: List[Tuple[str, str]] = []
    chg = changes_of(f)
    own_sub = own_subscriptions(f)

    for p, entries in f.log.items():
        a = f.addr[p]
        for e in entries:
            if e[1] != "event":
                continue
            t, ents, opi = e[0], e[2], e[-1]
            if p not in f.verify_op or f.verify_op[p] >= opi:
                bad.append(("C12:event-to-unverified", f"connection #{p} got an event at op {opi} without a verified session"))
            xs = [x for x, _ in ents]
            if len(set(xs)) != len(xs):
                bad.append(("C12:characteristic-twice-in-message", f"connection #{p}: event message at op {opi} lists a characteristic twice: {ents}"))
            for x, v in ents:
                subs_now = f.dig[opi]["topics"].get(str(x), [])
                if a not in subs_now or not own_sub(p, x, opi):
                    bad.append(("C12:event-to-unsubscribed", f"connection #{p} got an event for characteristic {x} at op {opi} while not subscribed"))
                cands = [c for c in chg if c[0] <= opi and c[1] == x and c[2] == v]
                if not any(c[3] != p for c in cands):
                    sig = "C12:event-echoed-to-originator" if cands else "C12:event-value-never-set"
                    bad.append((sig, f"connection #{p} got event ({x},{v}) at op {opi}; changes to that value: {[(c[0], c[3]) for c in cands]}"))
                if x in f.imm:
                    # flushed without waiting: sent at the virtual time of a change to that value
                    if not any(c[3] != p and change_time(f, c[0]) == t for c in cands):
                        bad.append(("C12:immediate-type-delayed", f"connection #{p}: button-type characteristic {x} value {v} sent at t={t}, changes at {[change_time(f, c[0]) for c in cands]}"))

    # quiescence: after an advance of at least the coalescing window nothing is pending
    for i, op in enumerate(f.ops):
        if not (op[0] == "advance" and op[1] >= WINDOW):
            continue
        d = f.dig[i]
        for a_s, p in d["reg"].items():
            a = int(a_s)
            for x_s, subs in d["topics"].items():
                x = int(x_s)
                if a not in subs or x in f.nul:
                    continue
                last_changes = [c for c in chg if c[1] == x and c[0] <= i]
                if not last_changes:
                    continue
                j = last_changes[-1][0]
                # subscribed without interruption since (and at) the last change
                if not own_sub(p, x, j + 1 if (puts(f.ops[j]) is not None and puts(f.ops[j])[0] == p) else j):
                    continue
                if any(a not in f.dig[k]["topics"].get(x_s, []) for k in range(max(j - 1, 0), i + 1)):
                    continue
                if any(puts(f.ops[k]) is not None and puts(f.ops[k])[0] == p and any(qx == x and ev is False for qx, ev, _v in puts(f.ops[k])[1]) for k in range(j, i + 1)):
                    continue
                learned, src = learned_value(f, p, x, i)
                cur = d["values"][x]
                if learned != cur:
                    sig = "C12:quiescent-learned-differs"
                    if len(last_changes[-1]) > 5 and last_changes[-1][5] and last_changes[-1][2] == cur:
                        # the current value was stored by a write that was answered with an error status
                        # and that nobody was told about
                        sig = FAILED_WRITE_SIG
                    elif worker_overtaken(chg, x, learned, src, p):
                        sig = WORKER_SIG
                    elif src is not None and src[0] == "event":
                        # an event that arrived after a later own acknowledged write of another value
                        own = [k for k in range(f.n) if k < src[1] and wrote(f.ops[k], p, x) is not None and wrote(f.ops[k], p, x) != learned]
                        stale = [c for c in chg if c[1] == x and c[2] == learned and c[3] != p]
                        if own and stale and stale[-1][0] < own[-1]:
                            sig = "C12:originator-stale-event-after-own-write"
                    elif src is None:
                        sig = "C12:change-never-delivered"
                    bad.append((sig, f"at quiescence after op {i} connection #{p} (subscribed to {x} since its last change at op {j}) last learned {learned} ({src}) but the value is {cur}"))

    # quiescence, for connections the CODE no longer lists as subscribers although they are: "subscribed" is
    # what the controller asked for and was acknowledged (own requests), not the accessory's own table --
    # a live, registered, verified connection that subscribed before the last change, did not make it, has
    # not unsubscribed and is missing from the table is owed the current value like any other
    for i, op in enumerate(f.ops):
        if not (op[0] == "advance" and op[1] >= WINDOW):
            continue
        d = f.dig[i]
        for a_s, p in d["reg"].items():
            a = int(a_s)
            if p not in f.verify_op or p in f.lose_op and f.lose_op[p] <= i:
                continue
            for x in sorted({c[1] for c in chg}):
                if x in f.nul or a in d["topics"].get(str(x), []):
                    continue  # listed: judged by the first form
                start = own_sub.since(p, x, i + 1)
                last_changes = [c for c in chg if c[1] == x and c[0] <= i]
                if start is None or not last_changes or not start < last_changes[-1][0] or last_changes[-1][3] == p:
                    continue
                learned, src = learned_value(f, p, x, i)
                cur = d["values"][x]
                if learned != cur and not any(s_[0] == "C12:subscriber-dropped-change-never-delivered" for s_ in bad):
                    bad.append(("C12:subscriber-dropped-change-never-delivered",
                                f"at quiescence after op {i} connection #{p} (address {a}) subscribed to {x} at op {start} (acknowledged, never unsubscribed) "
                                f"but is not in the subscription table; the change at op {last_changes[-1][0]} never reached it: last learned {learned} ({src}), value {cur}"))

    # quiescence, second form: whatever a subscribed connection has learned about x SINCE ITS CURRENT
    # SUBSCRIPTION BEGAN (latest event entry or own acknowledged write), if anything, is the current value
    for i, op in enumerate(f.ops):
        if not (op[0] == "advance" and op[1] >= WINDOW):
            continue
        d = f.dig[i]
        for a_s, p in d["reg"].items():
            a = int(a_s)
            for x_s, subs in d["topics"].items():
                x = int(x_s)
                if a not in subs or x in f.nul:
                    continue
                start = own_sub.since(p, x, i + 1)
                if start is None:
                    continue
                if any(a not in f.dig[k]["topics"].get(x_s, []) for k in range(start, i + 1)):
                    continue
                learned, src = learned_value(f, p, x, i, after=start)
                cur = d["values"][x]
                if src is None or learned == cur:
                    continue
                if any(s_[0].startswith("C12:originator-stale") or s_[0] in ("C12:quiescent-learned-differs", WORKER_SIG, FAILED_WRITE_SIG) for s_ in bad):
                    continue  # already reported under the first form
                sig = "C12:stale-value-learned-after-subscription"
                if worker_overtaken(chg, x, learned, src, p):
                    sig = WORKER_SIG
                elif src[0] == "event":
                    t_ev = next(e[0] for e in f.log[p] if e[1] == "event" and e[-1] == src[1])
                    made = [c for c in chg if c[1] == x and c[2] == learned and c[0] <= src[1]]
                    if made and any(c[0] < start for c in made) and not any(c[0] >= start for c in made):
                        # the delivered value stems from a change made before the current subscription began
                        same_window = t_ev <= change_time(f, made[-1][0]) + WINDOW
                        sig = "C12:stale-event-after-resubscription" if same_window else "C12:stale-event-from-earlier-window"
                bad.append((sig, f"at quiescence after op {i} connection #{p}, subscribed to {x} since op {start}, has since learned {learned} ({src}) but the value is {cur}"))
    return bad


def change_time(f: Facts, opi: int) -> int:
    return f.t_before[opi]


def learned_value(f: Facts, p: int, x: int, upto: int, after: int = -1):
    """what #p last learned about x in ops `after`..`upto`: latest of event entries received and own
    acknowledged writes, by position in its transport log (responses and events share the log)"""
    val, src = None, None
    for e in f.log.get(p, []):
        if e[-1] > upto:
            break
        if e[-1] < after:
            continue
        if e[1] == "event":
            for ex, ev in e[2]:
                if ex == x:
                    val, src = ev, ("event", e[-1])
        elif e[1] == "resp" and e[2] in (204, 207):
            w = wrote(f.ops[e[-1]], p, x)
            if w is not None and acked(f, p, e[-1], x):
                val, src = w, ("own-write", e[-1])
    return val, src
