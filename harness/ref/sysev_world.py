"""Drive the REAL HAPServer + HAPServerProtocol + AccessoryDriver in-process for the event-system
properties (C12, C13): fake transports, a virtual-time asyncio loop, `time.time` patched.

A *script* is a list of ops (all times in ticks of 62.5 ms):

    ["advance", dt]            run ready callbacks, fire every timer due within dt (in time order)
    ["ready"]                  run the callbacks that are ready now (one loop iteration)
    ["connect", a]             a new HAPServerProtocol gets connection_made (peer address #a)
    ["verify", p]              connection #p holds a verified session (handler.is_encrypted)
    ["put", p, x, ev, val, close]   PUT /characteristics for characteristic #x fed to data_received
                               (the "ev" member is spelled true/false by ops at even script positions, 1/0 at odd ones)
    ["putm", p, [[x, ev, val], ...], close]   ONE PUT /characteristics with several queries (scene write)
    ["get", p, x]              GET /characteristics?id=<aid>.<iid> of characteristic #x
    ["world", "bridge"]        (configuration, right after the first advance) the accessory is a Bridge with two
                               accessories built from the same definition: characteristics #0..3 live on aid 2,
                               #4..7 on aid 3, and #x / #x+4 share their iid
    ["world", "strings"]       (configuration) characteristic #1 (and #5 on a bridge) is a STRING characteristic
                               (Configured Name, notifying, writable); the script's numeric values v stand for the
                               strings STRS[v] (non-ASCII, escaped, control characters, maximum length); what the
                               controllers receive is translated back, an unknown string is reported as it is
    ["world", "v6"]            (configuration) the peers are IPv6 peers: asyncio reports 4-tuple peernames
    ["prepare", p, pid]        PUT /prepare
    ["snapshot", p]            POST /resource (delayed response)
    ["resp_ready", p]          the snapshot of #p completes
    ["bad_http", p]            bytes that make h11 raise a protocol error
    ["bad_frame", p]           (encrypted connections only) a frame whose tag does not verify
    ["cb", x, "echo"]          install a setter_callback on characteristic #x that confirms the written value
    ["cb", x, "set_to", v2]      ... that clamps / normalises: char.set_value(v2)
    ["cb", x, "set_other", y, w] ... that updates another characteristic: chars[y].set_value(w)
    ["cb", x, "raise"]           ... that raises (the device could not be reached): the write is answered -70402
                               (configuration: placed before the first request)
    ["app_set", x, v]          char.set_value(v) by the application (on the loop thread)
    ["app_set_thread", x, v]   char.set_value(v) in a real worker thread (driver.tid is the loop thread,
                               so AccessoryDriver.publish defers through loop.call_soon_threadsafe);
                               the hand-off runs at the next "ready" / "advance"
    ["lose", p]                connection_lost(exc) delivered to #p; exc is None (EOF) or ConnectionResetError /
                               BrokenPipeError / TimeoutError / OSError by script position (abnormal loss). If the code has not closed the transport
                               itself this is a PEER-initiated end: as in asyncio (_SelectorTransport.close /
                               _force_close set _closing before connection_lost is scheduled) is_closing() is
                               already True when connection_lost runs
    ["stop"]                   AccessoryDriver.async_stop()

Objects are numbered in connection order.  Nothing here knows about the Lean model.
"""
from __future__ import annotations

import asyncio
import heapq
import json
import logging
import os
import tempfile
from unittest.mock import AsyncMock, MagicMock, patch

logging.getLogger("pyhap").setLevel(logging.CRITICAL + 1)
logging.getLogger("asyncio").setLevel(logging.CRITICAL + 1)

TICK = 1.0 / 16.0
EPOCH = 1_700_000_000.0
NCHARS = 4
IMM = [2, 3]  # characteristic indexes with an IMMEDIATE_NOTIFY type
NUL = [2]  # ... with an ALWAYS_NULL type


class VLoop(asyncio.SelectorEventLoop):
    """asyncio loop on a virtual clock; nothing ever blocks in select()."""

    def __init__(self):
        super().__init__()
        self._vt = 0.0

    def time(self):
        return self._vt

    async def create_server(self, *a, **k):  # no real socket
        srv = MagicMock()
        srv.close = MagicMock()
        return srv

    def _pop_cancelled(self):
        while self._scheduled and self._scheduled[0]._cancelled:
            self._timer_cancelled_count -= 1
            h = heapq.heappop(self._scheduled)
            h._scheduled = False

    def ready_pass(self):
        """one loop iteration over what is ready now (timers are not due: see advance)"""
        if self._ready:
            self._run_once()

    def drain(self, limit=10000):
        n = 0
        while self._ready:
            self._run_once()
            n += 1
            if n > limit:
                raise RuntimeError("ready queue does not drain")

    def advance(self, dt: float):
        target = self._vt + dt
        while True:
            self.drain()
            self._pop_cancelled()
            if self._scheduled and self._scheduled[0]._when <= target:
                self._vt = max(self._vt, self._scheduled[0]._when)
                self._run_once()
            else:
                break
        self._vt = target


class FakeTransport(asyncio.Transport):
    def __init__(self, world, idx, peer):
        super().__init__(extra={"peername": peer})
        self.world = world
        self.idx = idx
        self.closing = False  # is_closing(): True from close() by the code, or from the peer's end

    def peer_ended(self):
        """EOF / reset from the peer: asyncio marks the transport closing (not a close() call of the
        code under check, hence not recorded) and then delivers connection_lost"""
        self.closing = True

    def write(self, data):
        self.world.record(self.idx, "write", bytes(data))

    def writelines(self, lines):
        self.world.record(self.idx, "write", b"".join(bytes(x) for x in lines))

    def write_eof(self):
        self.world.record(self.idx, "eof", None)

    def can_write_eof(self):
        return True

    def close(self):
        self.closing = True
        self.world.record(self.idx, "close", None)

    def abort(self):
        self.close()

    def is_closing(self):
        return self.closing

    def set_write_buffer_limits(self, high=None, low=None):
        pass

    def get_write_buffer_size(self):
        return 0

    def pause_reading(self):
        pass

    def resume_reading(self):
        pass


BUTTON_UUIDS = ("00000126-0000-1000-8000-0026BB765291", "00000073-0000-1000-8000-0026BB765291")
CHAR_UUIDS = [None, None, "00000073-0000-1000-8000-0026BB765291", "00000126-0000-1000-8000-0026BB765291"]


def is_bridge(ops) -> bool:
    return any(op[0] == "world" and op[1] == "bridge" for op in ops)


def is_strings(ops) -> bool:
    return any(op[0] == "world" and op[1] == "strings" for op in ops)


def is_v6(ops) -> bool:
    return any(op[0] == "world" and op[1] == "v6" for op in ops)


# the strings the numeric script values stand for on a string characteristic: every kind that makes
# characters, UTF-8 bytes and JSON text differ in length (Configured Name allows 64 characters)
_STR_KINDS = [
    "Lamp ",                     # plain ASCII
    "Fernseher K\u00fcche ",     # Latin-1 range: 1 character, 2 bytes
    "\u041a\u0443\u0445\u043d\u044f ",  # Cyrillic
    "\U0001f4fa TV ",            # outside the BMP: 4 bytes, a surrogate pair when escaped
    'say "hi" \\ back ',        # characters JSON must escape
    "tab\tline\nfeed ",          # control characters
    "\u00e9" * 58 + " ",         # maximum length, all multi-byte
    "sep\u2028\u2029 ",         # legal JSON, awkward for lenient parsers
]
STRS = [_STR_KINDS[v % len(_STR_KINDS)] + str(v) for v in range(128)]
_STR_INDEX = {t: i for i, t in enumerate(STRS)}


def code_tables(bridge=False):
    """which of the test characteristics the CODE treats as immediate / always-null
    (module tables of pyhap.characteristic; fed to the model as its configuration)"""
    import uuid

    import pyhap.characteristic as ch

    kinds = CHAR_UUIDS * (2 if bridge else 1)
    imm = [x for x, u in enumerate(kinds) if u and uuid.UUID(u) in ch.IMMEDIATE_NOTIFY]
    nul = [x for x, u in enumerate(kinds) if u and uuid.UUID(u) in ch.ALWAYS_NULL]
    return imm, nul


def addr_of(a: int, v6: int = 0):
    """peername reported by the transport for model address #a. v6 = 1: IPv6 peers, for which
    asyncio reports 4-tuples (host, port, flowinfo, scope_id): #0 global, #1 link-local with a scope id"""
    if v6 and a % 3 == 0:
        return ("2001:db8::%x" % (a + 5), 50000 + a, 0, 0)
    if v6 and a % 3 == 1:
        return ("fe80::%x" % (a + 1), 50000 + a, 0, 3)
    return ("10.0.0.%d" % (a + 1), 50000 + a)


def model_addr(peer):
    """model address of whatever tuple (or prefix of it) the code uses as a key"""
    try:
        return int(peer[1]) - 50000
    except Exception:  # noqa: BLE001
        return -1


class World:
    """One accessory (4 characteristics), one driver, one server, many connections."""

    def __init__(self, crypto_conns=(), v6=0, bridge=False, strings=False):
        self.v6 = v6
        self.bridge = bridge
        self.strings = strings
        import pyhap.accessory_driver as ad
        import pyhap.characteristic as ch
        from pyhap.accessory import Accessory
        from pyhap.service import Service

        self.ad = ad
        self.loop = VLoop()
        self._patches = [
            patch("time.time", lambda: EPOCH + self.loop._vt),
            patch.object(ad.AccessoryDriver, "persist", lambda self_: None),
            patch.object(ad.AccessoryDriver, "async_persist", lambda self_: None),
            patch.object(Accessory, "setup_message", lambda self_: None),
        ]
        for p in self._patches:
            p.start()
        asyncio.events._set_running_loop(self.loop)
        self.loop_errors = []
        self.loop.set_exception_handler(lambda lp, c: self.loop_errors.append(repr(c.get("exception") or c.get("message"))))
        self.zc = MagicMock()
        self.zc.async_register_service = AsyncMock()
        self.zc.async_update_service = AsyncMock()
        self.zc.async_unregister_service = AsyncMock()
        self.zc.async_close = AsyncMock()
        self.tmp = os.path.join(tempfile.gettempdir(), "verif-sysev-%d.state" % os.getpid())
        self.driver = ad.AccessoryDriver(
            loop=self.loop, address="127.0.0.1", port=51888, persist_file=self.tmp,
            async_zeroconf_instance=self.zc, pincode=b"031-45-154", mac="AA:BB:CC:DD:EE:FF",
        )
        world = self

        class Acc(Accessory):
            async def async_get_snapshot(self, info):
                fut = world.loop.create_future()
                world.snap_futs.append(fut)
                return await fut

        self.snap_futs = []
        loader = self.driver.loader

        def build(acc):
            svc = Service(ch.UUID("00000043-0000-1000-8000-0026BB765291"), "Lightbulb")
            chars = [
                loader.get_char("Brightness"),
                loader.get_char("TargetPosition"),
                loader.get_char("ProgrammableSwitchEvent"),
                ch.Characteristic(
                    "ButtonEvent", ch.CHAR_BUTTON_EVENT,
                    {"Format": "uint8", "Permissions": ["pr", "pw", "ev"], "minValue": 0, "maxValue": 100},
                ),
            ]
            if strings:
                chars[1] = loader.get_char("ConfiguredName")
                chars[1].value = STRS[0]  # the model's initial value 0
            for c in chars:
                svc.add_characteristic(c)
            acc.add_service(svc)
            return chars

        if bridge:
            from pyhap.accessory import Bridge

            top = Bridge(self.driver, "VerifBridge")
            accs = [Acc(self.driver, "Light %d" % i) for i in (2, 3)]
            self.chars, self.ids = [], []
            for a in accs:
                cs = build(a)  # same definition: the iids coincide across the accessories
                top.add_accessory(a)
                self.chars += cs
                self.ids += [(a.aid, a.iid_manager.get_iid(c)) for c in cs]
            self.driver.add_accessory(top)
            self.snap_aid = accs[0].aid
        else:
            acc = Acc(self.driver, "Verif")
            self.chars = build(acc)
            self.driver.add_accessory(acc)
            self.snap_aid = 1
            self.ids = [(acc.aid, acc.iid_manager.get_iid(c)) for c in self.chars]
        self.id_to_x = {k: x for x, k in enumerate(self.ids)}
        self.crypto_conns = set(crypto_conns)
        self.protos = []  # object index -> HAPServerProtocol
        self.transports = []
        self.ctrl_crypto = {}  # object index -> reference controller cipher state
        self.log = {}  # object index -> list of [tick, kind, payload]
        self.raw_after_close = {}
        self.op_index = -1
        self.snap_of = {}  # object index -> future index
        self.lost = set()
        t = self.loop.create_task(self.driver.async_start())
        self.loop.drain()
        if not t.done() or t.exception():
            raise RuntimeError("driver.async_start failed: %r" % (t,))

    # ------------------------------------------------------------------ plumbing
    def close(self):
        try:
            self.loop.set_exception_handler(lambda lp, c: None)
            for h in list(self.loop._scheduled):
                h.cancel()
            for t in asyncio.all_tasks(self.loop):
                t.cancel()
            try:
                self.loop.drain(100)
            except Exception:  # noqa: BLE001
                pass
        finally:
            asyncio.events._set_running_loop(None)
            for p in reversed(self._patches):
                p.stop()
            self.loop.close()
            try:
                os.remove(self.tmp)
            except OSError:
                pass

    def tick(self) -> int:
        return int(round(self.loop._vt / TICK))

    def record(self, idx, kind, data):
        self.log.setdefault(idx, []).append([self.tick(), kind, data, self.op_index])

    # ------------------------------------------------------------------ string values
    def is_str(self, x) -> bool:
        return self.strings and x % 4 == 1

    def enc(self, x, v):
        """script value -> value handed to the code"""
        return STRS[v] if (v is not None and self.is_str(x)) else v

    def dec(self, x, val):
        """value seen on the wire / in the characteristic -> script value (unknown strings stay as they are)"""
        if isinstance(x, int) and self.is_str(x) and isinstance(val, str):
            return _STR_INDEX.get(val, val)
        return val

    # ------------------------------------------------------------------ requests
    def _http(self, method, target, body=b"", close=False):
        head = "%s %s HTTP/1.1\r\nHost: hap\r\n" % (method, target)
        if body:
            head += "Content-Type: application/hap+json\r\nContent-Length: %d\r\n" % len(body)
        if close:
            head += "Connection: close\r\n"
        return head.encode() + b"\r\n" + body

    def _query(self, x, ev, val):
        q = {"aid": self.ids[x][0], "iid": self.ids[x][1]}
        if ev is not None:
            # HAP allows booleans spelled true / false / 1 / 0: requests sent by ops at odd script positions
            # use the numeric spelling (the script, the model and the oracle only know "subscribe" / "unsubscribe")
            q["ev"] = (1 if ev else 0) if self.op_index % 2 else bool(ev)
        if val is not None:
            q["value"] = self.enc(x, val)
        return q

    def _json(self, p, obj) -> bytes:
        """request bodies: \\u escapes from even connections, raw UTF-8 from odd ones (both are legal JSON)"""
        return json.dumps(obj, ensure_ascii=(p % 2 == 0)).encode("utf-8")

    def feed(self, p, data: bytes):
        proto = self.protos[p]
        if self.transports[p].closing or p in self.lost:
            return False  # asyncio never delivers data after transport.close()
        if p in self.ctrl_crypto:
            data = self.ctrl_crypto[p].encrypt(data)
        proto.data_received(data)
        return True

    # ------------------------------------------------------------------ ops
    def apply(self, op, i):
        self.op_index = i
        k = op[0]
        lp = self.loop
        if k == "advance":
            lp.advance(op[1] * TICK)
        elif k == "ready":
            lp.ready_pass()
        elif k == "connect":
            if self.driver.aio_stop_event.is_set():
                return  # the listening socket is closed: nobody can connect any more
            from pyhap.hap_protocol import HAPServerProtocol

            idx = len(self.protos)
            proto = HAPServerProtocol(lp, self.driver.http_server.connections, self.driver)
            tr = FakeTransport(self, idx, addr_of(op[1], self.v6))
            self.protos.append(proto)
            self.transports.append(tr)
            self.log.setdefault(idx, [])
            proto.connection_made(tr)
        elif k == "verify":
            p = op[1]
            if p < len(self.protos):
                import uuid

                h = self.protos[p].handler
                h.is_encrypted = True
                h.client_uuid = uuid.UUID(int=p + 1)
                if p in self.crypto_conns and p not in self.ctrl_crypto:
                    from pyhap.hap_crypto import HAPCrypto
                    from ref.sysev_frames import ControllerCipher

                    key = bytes([p + 1]) * 32
                    self.protos[p].hap_crypto = HAPCrypto(key)
                    self.ctrl_crypto[p] = ControllerCipher(key)
        elif k == "world":
            pass  # read by run_script before the world is built
        elif k == "putm":
            p = op[1]
            if p < len(self.protos):
                body = self._json(p, {"characteristics": [self._query(x, ev, val) for x, ev, val in op[2]]})
                self.feed(p, self._http("PUT", "/characteristics", body, op[3]))
        elif k in ("put", "get", "prepare", "snapshot", "bad_http", "bad_frame"):
            p = op[1]
            if p >= len(self.protos):
                return
            if k == "put":
                _, _, x, ev, val, close = op
                body = self._json(p, {"characteristics": [self._query(x, ev, val)]})
                self.feed(p, self._http("PUT", "/characteristics", body, close))
            elif k == "get":
                self.feed(p, self._http("GET", "/characteristics?id=%d.%d" % self.ids[op[2]]))
            elif k == "prepare":
                body = json.dumps({"ttl": 8000, "pid": op[2]}).encode()
                self.feed(p, self._http("PUT", "/prepare", body))
            elif k == "snapshot":
                n = len(self.snap_futs)
                body = json.dumps({"aid": self.snap_aid, "image-width": 1, "image-height": 1}).encode()
                self.feed(p, self._http("POST", "/resource", body))
                lp.drain()  # let the task start (arms its timeout, creates the future)
                if len(self.snap_futs) > n:
                    self.snap_of[p] = n
            elif k == "bad_http":
                self.feed(p, b"\x00\x01 this is not http\r\n\r\n")
            elif k == "bad_frame":
                if p in self.ctrl_crypto:
                    if not (self.transports[p].closing or p in self.lost):
                        self.protos[p].data_received(b"\x05\x00" + b"\xaa" * 5 + b"\x00" * 16)
                else:
                    self.feed(p, b"\x00\x01 this is not http\r\n\r\n")
        elif k == "resp_ready":
            p = op[1]
            n = self.snap_of.pop(p, None)
            if n is not None and not self.snap_futs[n].done():
                self.snap_futs[n].set_result(b"JPEG")
            lp.drain()
        elif k == "cb":
            ch_ = self.chars[op[1]]
            if op[2] == "echo":
                ch_.setter_callback = lambda value, c=ch_: c.set_value(value)
            elif op[2] == "set_to":
                ch_.setter_callback = lambda value, c=ch_, v2=self.enc(op[1], op[3]): c.set_value(v2)
            elif op[2] == "set_other":
                ch_.setter_callback = lambda value, c=self.chars[op[3]], w=self.enc(op[3], op[4]): c.set_value(w)
            elif op[2] == "raise":
                def failing(value):
                    raise RuntimeError("device unreachable")

                ch_.setter_callback = failing
            else:
                raise ValueError("unknown callback kind %r" % (op,))
        elif k == "app_set":
            self.chars[op[1]].set_value(self.enc(op[1], op[2]))
        elif k == "app_set_thread":
            import threading

            if self.driver.tid is not threading.current_thread():
                raise RuntimeError("the harness must run on driver.tid")
            err = []

            def work():
                try:
                    self.chars[op[1]].set_value(self.enc(op[1], op[2]))
                except BaseException as ex:  # noqa: BLE001
                    err.append(ex)

            t = threading.Thread(target=work, name="verif-worker")
            t.start()
            t.join()
            if err:
                raise err[0]
        elif k == "lose":
            p = op[1]
            if p < len(self.protos) and p not in self.lost:
                self.lost.add(p)
                if not self.transports[p].closing:
                    self.transports[p].peer_ended()
                # the exception argument of connection_lost: None for a clean EOF, an OSError for an abnormal
                # loss (reset, broken pipe, timeout); which one is a function of the script position, so that
                # every family of scripts ends connections in every way
                causes = (None, ConnectionResetError(104, "Connection reset by peer"), None,
                          BrokenPipeError(32, "Broken pipe"), TimeoutError(110, "Connection timed out"),
                          OSError(113, "No route to host"))
                try:
                    self.protos[p].connection_lost(causes[(self.op_index + p) % len(causes)])
                except Exception as ex:  # noqa: BLE001
                    # asyncio calls connection_lost from a loop callback: an exception goes to the loop's
                    # exception handler and the loop carries on; whatever clean-up was skipped stays skipped
                    self.loop_errors.append("connection_lost raised " + repr(ex))
        elif k == "stop":
            if not self.driver.aio_stop_event.is_set():
                t = lp.create_task(self.driver.async_stop())
                # run only the stop coroutine's own steps (AsyncMock awaits complete at once)
                lp.drain()
                if not t.done() or t.exception():
                    raise RuntimeError("driver.async_stop failed: %r" % (t,))
        else:
            raise ValueError("unknown op %r" % (op,))

    # ------------------------------------------------------------------ observables
    def digest(self):
        conns = self.driver.http_server.connections
        idx = {id(pr): i for i, pr in enumerate(self.protos)}
        reg = {str(model_addr(k)): idx.get(id(v), -1) for k, v in conns.items()}
        topics = {}
        for t, subs in self.driver.topics.items():
            aid, iid = t.split(".")
            topics[str(self.id_to_x.get((int(aid), int(iid)), t))] = sorted(model_addr(s) for s in subs)
        prep = {str(model_addr(k)): sorted(v.keys()) for k, v in self.driver.prepared_writes.items()}
        vals = [self.dec(x, c.value) for x, c in enumerate(self.chars)]
        return {"reg": reg, "topics": topics, "prepared": prep, "values": vals}

    def decoded_log(self):
        """per object: [[tick, kind, content...]] with EVENT / HTTP messages decoded"""
        out = {}
        for idx, entries in self.log.items():
            res = []
            dec = self.ctrl_crypto.get(idx)
            for tick, kind, data, opi in entries:
                if kind != "write":
                    res.append([tick, kind, opi])
                    continue
                if dec is not None:
                    try:
                        data = dec.decrypt(data)
                    except Exception as ex:  # noqa: BLE001
                        res.append([tick, "undecryptable", type(ex).__name__, opi])
                        continue
                for m in parse_messages(data, self.id_to_x, self.dec):
                    res.append([tick] + m + [opi])
            out[idx] = res
        return out


def parse_messages(data: bytes, id_to_x, dec=lambda x, v: v):
    """split a plaintext write into HTTP/EVENT messages -> [kind, ...] lists, the way a controller reads
    its byte stream: start line + headers up to the empty line, then EXACTLY Content-Length body BYTES
    (or the chunks), which must be valid UTF-8 JSON for application/hap+json; whatever does not parse
    is reported as ["garbage", ...] and the reader goes on behind the bytes it consumed"""
    msgs = []
    while data:
        head, sep, rest = data.partition(b"\r\n\r\n")
        if not sep:
            msgs.append(["garbage", data[:60].hex()])
            break
        lines = head.split(b"\r\n")
        status = lines[0].split(b" ")
        hdr = {}
        for ln in lines[1:]:
            k, _, v = ln.partition(b":")
            hdr[k.strip().lower()] = v.strip()
        if hdr.get(b"transfer-encoding", b"").lower() == b"chunked":
            body = b""
            while True:
                size, _, rest = rest.partition(b"\r\n")
                try:
                    k = int(size.split(b";")[0] or b"0", 16)
                except ValueError:
                    msgs.append(["garbage", size[:40].hex()])
                    return msgs
                body += rest[:k]
                rest = rest[k + 2:]
                if k == 0:
                    break
            data = rest
        else:
            try:
                n = int(hdr.get(b"content-length", b"0"))
            except ValueError:
                msgs.append(["garbage", head[:60].hex()])
                break
            if len(rest) < n:
                msgs.append(["garbage", ("short body: %d of %d bytes" % (len(rest), n))])
                break
            body, data = rest[:n], rest[n:]
        if status[0] == b"EVENT/1.0":
            try:
                chars = json.loads(body.decode("utf-8"))["characteristics"]
                ents = []
                for c in chars:
                    x = id_to_x.get((c["aid"], c["iid"]), -1000 * c["aid"] - c["iid"])
                    ents.append([x, dec(x, c.get("value"))])
            except (ValueError, KeyError, TypeError) as ex:
                msgs.append(["garbage", "EVENT body of %d bytes is not a HAP JSON document (%s): %s" % (len(body), type(ex).__name__, body[:80].hex())])
                continue
            msgs.append(["event", ents])
        elif status[0].startswith(b"HTTP/"):
            try:
                code = int(status[1])
            except (ValueError, IndexError):
                msgs.append(["garbage", head[:60].hex()])
                continue
            ctype = hdr.get(b"content-type", b"")
            if not body:
                b = None
            elif ctype.startswith(b"application/hap+json"):
                try:
                    j = json.loads(body.decode("utf-8"))
                except ValueError as ex:
                    msgs.append(["garbage", "HTTP body of %d bytes is not JSON (%s)" % (len(body), type(ex).__name__)])
                    continue
                if "characteristics" in j:
                    b = {"chars": [[id_to_x.get((c["aid"], c["iid"]), -1),
                                    dec(id_to_x.get((c["aid"], c["iid"]), -1), c.get("value", "absent")), c.get("status", 0)]
                                   for c in j["characteristics"]]}
                else:
                    b = j
            else:
                b = {"raw": body.decode("latin1")}
            msgs.append(["resp", code, b])
        else:
            msgs.append(["garbage", head[:40].hex()])
    return msgs


def run_script(ops, crypto_conns=(), want_digests=True, v6=0):
    """Run a script on the real code. Returns {"log": per-object decoded log, "digests": [...]}"""
    w = World(crypto_conns, 1 if (v6 or is_v6(ops)) else 0, bridge=is_bridge(ops), strings=is_strings(ops))
    try:
        digests = []
        for i, op in enumerate(ops):
            w.apply(op, i)
            if want_digests:
                digests.append(w.digest())
        # everything the oracle may look at, nothing private
        return {
            "log": w.decoded_log(),
            "digests": digests,
            "final": w.digest(),
            "addr": [model_addr(w.transports[i].get_extra_info("peername")) for i in range(len(w.protos))],
            "nobj": len(w.protos),
            "loop_errors": list(w.loop_errors),
        }
    finally:
        w.close()
