"""Independent TLV8 reference codec, written from the HAP TLV8 rules (shares no code with pyhap).

* an item is (type byte, value bytes);
* a value longer than 255 bytes is carried by consecutive fragments of the same type, all of
  255 bytes except the last, which is shorter and non-empty -- or absent when the length is a
  multiple of 255; an empty value is one fragment of length 0;
* the *list* decoder keeps items in wire order and joins a fragment to the previous item iff it
  has the same type and the previous fragment was full (255 bytes);
* the *dict* view (what pyhap.tlv.decode returns) concatenates by type in first-occurrence order.
"""
from typing import Dict, List, Tuple

Item = Tuple[int, bytes]


def encode(items: List[Item]) -> bytes:
    out = bytearray()
    for t, v in items:
        if len(v) == 0:
            out += bytes([t, 0])
            continue
        pos = 0
        while pos < len(v):
            frag = v[pos : pos + 255]
            out += bytes([t, len(frag)]) + frag
            pos += 255
    return bytes(out)


def records(data: bytes) -> List[Item]:
    """Raw (type, fragment) records; raises ValueError on malformed input."""
    res, pos = [], 0
    while pos < len(data):
        if pos + 2 > len(data):
            raise ValueError("truncated header")
        t, ln = data[pos], data[pos + 1]
        if pos + 2 + ln > len(data):
            raise ValueError("truncated value")
        res.append((t, data[pos + 2 : pos + 2 + ln]))
        pos += 2 + ln
    return res


def decode_list(data: bytes) -> List[Item]:
    out: List[Item] = []
    prev_full = False
    for t, frag in records(data):
        if out and prev_full and out[-1][0] == t:
            out[-1] = (t, out[-1][1] + frag)
        else:
            out.append((t, frag))
        prev_full = len(frag) == 255
    return out


def merge_dict(items: List[Item]) -> Dict[int, bytes]:
    d: Dict[int, bytes] = {}
    for t, v in items:
        d[t] = d.get(t, b"") + v
    return d
