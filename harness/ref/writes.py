"""Reference judgements for C10, written from the property text (shares no code with pyhap or the
Lean model).

* `live_prepare(history, conn, pid, now_ms)`: does connection `conn` hold a usable prepare for
  `pid` at `now_ms`?  Declarative backward scan over the history of the operations that happened
  before the write: the most recent event that concerns (conn, pid) must be a well-formed prepare
  by the same connection, not yet used by a write carrying the pid, not followed by the end of the
  connection (closed by either side; `idle` = the server's sweep closed every open connection; a later
  connection from the same peer address is a different connection), and its time to live must not have elapsed (the write is still in time when
  now == prepare time + ttl).
* `canon(v)`: type-tagged rendering of a JSON-like Python value (True and 1 are different values
  for the differential comparison).
"""
from __future__ import annotations

import json
from typing import Any, List, Optional

INVALID_VALUE = -70410
SUCCESS = 0


def canon(v: Any) -> Optional[str]:
    if v is None:
        return None
    if isinstance(v, bool):
        return "b:true" if v else "b:false"
    if isinstance(v, int):
        return f"i:{v}"
    if isinstance(v, float):
        return f"f:{v!r}"
    if isinstance(v, str):
        return "s:" + v
    return "j:" + json.dumps(v, sort_keys=True, default=repr)


def same_value(a: Any, b: Any) -> bool:
    """Equality of two JSON-like values as a controller or an application sees them
    (1 and True and 1.0 denote the same value; None only equals None)."""
    if a is None or b is None:
        return a is None and b is None
    if isinstance(a, str) != isinstance(b, str):
        return False
    try:
        return bool(a == b)
    except Exception:  # noqa: BLE001
        return False


def live_prepare(history: List[dict], conn: int, pid: Any, now_ms: int) -> bool:
    """`history` = executed ops before the write, each with its execution time in `t` (ms)."""
    for op in reversed(history):
        kind = op["op"]
        if kind == "idle":
            return False  # the idle sweep ended every connection that was open (any earlier prepare's too)
        if kind == "lose" and op["conn"] == conn:
            return False  # prepares die with their connection, whoever ended it
        if kind == "write" and op["conn"] == conn and op.get("pid") is not None and op["pid"] == pid:
            return False  # each prepare is usable once (any earlier one was superseded or is gone)
        if kind == "prepare" and op["conn"] == conn and op.get("pid") is not None and op["pid"] == pid:
            if op.get("ttl") is None:
                continue  # malformed prepare request: refused, registers nothing
            return now_ms <= op["t"] + op["ttl"]
    return False  # never prepared by this connection
