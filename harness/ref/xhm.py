"""Independent decoder of the HomeKit setup payload URI `X-HM://<9 base36 digits><setup id>` (C18).

Written from the HAP specification (non-commercial, R2, §4.2.1 "Setup Payload"): the 9 characters
are the base-36 (0-9, A-Z) rendering of a 45-bit number, most significant first:
    version(3) | reserved(4) | category(8) | flags(4) | setup code(27)
followed by the 4-character setup id.  Shares no code with pyhap or the `base36` package.
"""
from __future__ import annotations

from typing import Dict, Union

_ALPHABET = "0123456789ABCDEFGHIJKLMNOPQRSTUVWXYZ"


class XhmError(ValueError):
    pass


def decode(uri: str) -> Dict[str, Union[int, str]]:
    if not uri.startswith("X-HM://"):
        raise XhmError("prefix")
    rest = uri[7:]
    if len(rest) < 9:
        raise XhmError("short")
    digits, setup_id = rest[:9], rest[9:]
    n = 0
    for ch in digits:
        v = _ALPHABET.find(ch)
        if v < 0:
            raise XhmError(f"digit {ch!r}")
        n = n * 36 + v
    if n >> 46:
        raise XhmError("payload wider than 46 bits")
    return {
        "code": n & ((1 << 27) - 1),
        "flags": (n >> 27) & 0xF,
        "category": (n >> 31) & 0xFF,
        "reserved": (n >> 39) & 0xF,
        "version": (n >> 43) & 0x7,
        "setup_id": setup_id,
    }
