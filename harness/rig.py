"""Builds real pyhap objects (AccessoryDriver, HAPServerProtocol) on a virtual-time loop."""
from __future__ import annotations

import asyncio
import tempfile
from pathlib import Path
from unittest import mock

from vloop import FakeTransport, VLoop


class AsyncNoop:
    def __init__(self, log=None, name=""):
        self.log, self.name = log, name

    async def __call__(self, *a, **k):
        if self.log is not None:
            self.log.append((self.name, a))


class Rig:
    """One accessory driver + any number of protocol connections, all in-process."""

    def __init__(self, pincode=b"031-45-154", mac="AA:BB:CC:DD:EE:FF"):
        import pyhap.accessory_driver as ad

        self.loop = VLoop()
        asyncio.set_event_loop(self.loop)
        self.tmp = tempfile.TemporaryDirectory(prefix="verif-rig-")
        self.advert_log = []
        with mock.patch("pyhap.util.get_local_address", return_value="127.0.0.1"):
            self.driver = ad.AccessoryDriver(
                loop=self.loop,
                address="127.0.0.1",
                persist_file=str(Path(self.tmp.name) / "accessory.state"),
                pincode=pincode,
                mac=mac,
            )
        adv = mock.MagicMock()
        adv.async_register_service = AsyncNoop(self.advert_log, "register")
        adv.async_update_service = AsyncNoop(self.advert_log, "update")
        adv.async_unregister_service = AsyncNoop(self.advert_log, "unregister")
        adv.async_close = AsyncNoop()
        self.driver.advertiser = adv
        self.driver.aio_stop_event = asyncio.Event()
        self.driver.http_server.loop = self.loop
        self.conns = []
        self._port = 40000

    def connect(self, addr=None):
        import pyhap.hap_protocol as hp

        self._port += 1
        peer = addr or ("203.0.113.5", self._port)
        proto = hp.HAPServerProtocol(self.loop, self.driver.http_server.connections, self.driver)
        tr = FakeTransport(peer)
        tr.protocol = proto
        proto.connection_made(tr)
        self.conns.append((proto, tr))
        return proto, tr

    def close(self):
        try:
            self.loop.settle()
            self.loop.run_until_complete(self.loop.shutdown_default_executor())
        except Exception:  # noqa: BLE001
            pass
        self.loop.close()
        asyncio.set_event_loop(None)
        self.tmp.cleanup()
