"""Virtual-time asyncio loop + fake transport used to drive real pyhap protocol objects."""
from __future__ import annotations

import asyncio
import heapq
from typing import List, Optional


class VLoop(asyncio.SelectorEventLoop):
    """SelectorEventLoop whose clock only moves when `advance` is called."""

    def __init__(self):
        super().__init__()
        self._vt = 1000.0

    def time(self):
        return self._vt

    #: optional callable run after every single loop iteration (used to inject application
    #: activity at arbitrary iteration boundaries, e.g. a worker thread's call_soon_threadsafe)
    hook = None

    def step(self):
        """exactly one loop iteration"""
        self.call_soon(self.stop)
        self.run_forever()
        if self.hook is not None:
            self.hook()

    def _drain_ready(self, rounds: int = 200):
        for _ in range(rounds):
            self.step()
            if not self._ready:
                break

    def settle(self):
        """Run everything that is ready now (call_soon callbacks, finished futures)."""
        self._drain_ready()

    def advance(self, dt: float):
        target = self._vt + dt
        while True:
            self._drain_ready()
            while self._scheduled and self._scheduled[0]._cancelled:
                h = heapq.heappop(self._scheduled)
                h._scheduled = False
            if self._scheduled and self._scheduled[0]._when <= target:
                self._vt = max(self._vt, self._scheduled[0]._when)
                continue
            break
        self._vt = target
        self._drain_ready()


class FakeTransport(asyncio.Transport):
    def __init__(self, peer=("203.0.113.5", 40001)):
        super().__init__()
        self.peer = peer
        self.writes: List[tuple] = []  # ("write"|"writelines", bytes)
        self.closed = False
        self.eof = False
        self.after_close: List[bytes] = []
        # optional write flow control, as asyncio transports do it (off unless flow_high is set):
        # when more than flow_high bytes are outstanding the transport calls protocol.pause_writing()
        # (synchronously, from inside write()/writelines()); drain() = the peer has read everything,
        # the transport calls protocol.resume_writing().
        self.protocol = None
        self.flow_high = None
        self.outstanding = 0
        self.paused = False
        self.flow_calls: List[str] = []

    def _account(self, n):
        self.outstanding += n
        if self.flow_high is not None and self.protocol is not None and not self.paused and self.outstanding > self.flow_high:
            self.paused = True
            self.flow_calls.append("pause")
            self.protocol.pause_writing()

    def drain(self):
        self.outstanding = 0
        if self.paused and not self.closed:
            self.paused = False
            self.flow_calls.append("resume")
            self.protocol.resume_writing()

    def get_extra_info(self, name, default=None):
        return self.peer if name == "peername" else default

    def set_write_buffer_limits(self, high=None, low=None):
        pass

    def write(self, data):
        if self.closed:
            self.after_close.append(bytes(data))
        else:
            self.writes.append(("write", bytes(data)))
            self._account(len(data))

    def writelines(self, lines):
        data = b"".join(bytes(x) for x in lines)
        if self.closed:
            self.after_close.append(data)
        else:
            self.writes.append(("writelines", data))
            self._account(len(data))

    def write_eof(self):
        self.eof = True

    def close(self):
        self.closed = True

    def is_closing(self):
        return self.closed

    def data(self) -> bytes:
        return b"".join(d for _, d in self.writes)
