"""Virtual-time asyncio loop + fake transport used to drive real pyhap protocol objects."""
from __future__ import annotations

import asyncio
import heapq
from typing import List, Optional


class VLoop(asyncio.SelectorEventLoop):
    """SelectorEventLoop whose clock only moves when `advance` is called."""

    def __init__(self):
        super().__init__()
        self._vt = 1000.0

    def time(self):
        return self._vt

    #: optional callable run after every single loop iteration (used to inject application
    #: activity at arbitrary iteration boundaries, e.g. a worker thread's call_soon_threadsafe)
    hook = None

    def step(self):
        """exactly one loop iteration"""
        self.call_soon(self.stop)
        self.run_forever()
        if self.hook is not None:
            self.hook()

    def _drain_ready(self, rounds: int = 200):
        for _ in range(rounds):
            self.step()
            if not self._ready:
                break

    def settle(self):
        """Run everything that is ready now (call_soon callbacks, finished futures)."""
        self._drain_ready()

    def advance(self, dt: float):
        target = self._vt + dt
        while True:
            self._drain_ready()
            while self._scheduled and self._scheduled[0]._cancelled:
                h = heapq.heappop(self._scheduled)
                h._scheduled = False
            if self._scheduled and self._scheduled[0]._when <= target:
                self._vt = max(self._vt, self._scheduled[0]._when)
                continue
            break
        self._vt = target
        self._drain_ready()


class FakeTransport(asyncio.Transport):
    def __init__(self, peer=("203.0.113.5", 40001)):
        super().__init__()
        self.peer = peer
        self.writes: List[tuple] = []  # ("write"|"writelines", bytes)
        self.closed = False
        self.eof = False
        self.after_close: List[bytes] = []

    def get_extra_info(self, name, default=None):
        return self.peer if name == "peername" else default

    def set_write_buffer_limits(self, high=None, low=None):
        pass

    def write(self, data):
        if self.closed:
            self.after_close.append(bytes(data))
        else:
            self.writes.append(("write", bytes(data)))

    def writelines(self, lines):
        data = b"".join(bytes(x) for x in lines)
        if self.closed:
            self.after_close.append(data)
        else:
            self.writes.append(("writelines", data))

    def write_eof(self):
        self.eof = True

    def close(self):
        self.closed = True

    def is_closing(self):
        return self.closed

    def data(self) -> bytes:
        return b"".join(d for _, d in self.writes)
