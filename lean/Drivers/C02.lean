/- Line-protocol driver for the pair-verify layer: `lake env lean --run Drivers/C02.lean`. -/
import HapModel.Drv.PairVerify
open Lean Hap.Drv

def dispatch (j : Json) : R Json := do
  let layer ← getStr j "layer"
  match layer with
  | "pv" => Hap.Drv.PV.handle j
  | _ => throw s!"unknown layer {layer}"

def main : IO Unit := mainLoop dispatch
