/- Line-protocol driver for C03: `lake env lean --run Drivers/C03.lean`. -/
import HapModel.Drv.Dispatch
open Lean Hap.Drv

def dispatch (j : Json) : R Json := do
  let layer ← getStr j "layer"
  match layer with
  | "dispatch" => Hap.Drv.Dispatch.handle j
  | _ => throw s!"unknown layer {layer}"

def main : IO Unit := mainLoop dispatch
