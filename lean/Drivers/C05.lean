/- Line-protocol driver for the Frame layer (C04, C05). -/
import HapModel.Drv.Frame
open Lean Hap.Drv

def dispatch (j : Json) : R Json := do
  let layer ← getStr j "layer"
  match layer with
  | "frame" => Hap.Drv.Frame.handle j
  | _ => throw s!"unknown layer {layer}"

def main : IO Unit := mainLoop dispatch
