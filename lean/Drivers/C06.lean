/- Line-protocol driver for the PairState layer: `lake env lean --run Drivers/C06.lean`. -/
import HapModel.Drv.PairState
open Lean Hap.Drv

def dispatch (j : Json) : R Json := do
  let layer ← getStr j "layer"
  match layer with
  | "pairstate" => Hap.Drv.PS.handle j
  | "encoder" => Hap.Drv.Enc.handle j
  | _ => throw s!"unknown layer {layer}"

def main : IO Unit := mainLoop dispatch
