/- Line-protocol driver for the TLV layer: `lake env lean --run Drivers/C07.lean`. -/
import HapModel.Drv.Tlv
open Lean Hap.Drv

def dispatch (j : Json) : R Json := do
  let layer ← getStr j "layer"
  match layer with
  | "tlv" => Hap.Drv.Tlv.handle j
  | _ => throw s!"unknown layer {layer}"

def main : IO Unit := mainLoop dispatch
