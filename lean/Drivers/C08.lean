/- Line-protocol driver for C08: `lake env lean --run Drivers/C08.lean`. -/
import HapModel.Drv.Srp
import HapModel.Drv.PairSetup
open Lean Hap.Drv

def dispatch (j : Json) : R Json := do
  let layer ← getStr j "layer"
  match layer with
  | "sha512" => Hap.Drv.Srp.handleSha j
  | "srp" => Hap.Drv.Srp.handle j
  | "pairsetup" => Hap.Drv.PairSetup.handle j
  | _ => throw s!"unknown layer {layer}"

def main : IO Unit := mainLoop dispatch
