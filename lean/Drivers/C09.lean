/- Line-protocol driver for the Characteristic layer: `lake env lean --run Drivers/C09.lean`. -/
import HapModel.Drv.Char
open Lean Hap.Drv

def dispatch (j : Json) : R Json := do
  let layer ← getStr j "layer"
  match layer with
  | "char" => Hap.Drv.Char.handle j
  | _ => throw s!"unknown layer {layer}"

def main : IO Unit := mainLoop dispatch
