/- Line-protocol driver for the Writes layer: `lake env lean --run Drivers/C10.lean`. -/
import HapModel.Drv.Writes
open Lean Hap.Drv

def dispatch (j : Json) : R Json := do
  let layer ← getStr j "layer"
  match layer with
  | "writes" => Hap.Drv.Writes.handle j
  | _ => throw s!"unknown layer {layer}"

def main : IO Unit := mainLoop dispatch
