/- Line-protocol driver for the Db layer (C11 histories): `lake env lean --run Drivers/C11.lean`. -/
import HapModel.Drv.Db
open Lean Hap.Drv

def dispatch (j : Json) : R Json := do
  let layer ← getStr j "layer"
  match layer with
  | "db" => Hap.Drv.Db.handle j
  | _ => throw s!"unknown layer {layer}"

def main : IO Unit := mainLoop dispatch
