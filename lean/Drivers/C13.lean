/- Line-protocol driver for the SysEvents layer (C13): `lake env lean --run Drivers/C13.lean`. -/
import HapModel.Drv.SysEvents
open Lean Hap.Drv

def dispatch (j : Json) : R Json := do
  let layer ← getStr j "layer"
  match layer with
  | "sysev" => Hap.Drv.SysEvents.handle j
  | _ => throw s!"unknown layer {layer}"

def main : IO Unit := mainLoop dispatch
