/- Line-protocol driver for the Persist layer: `lake env lean --run Drivers/C15.lean`. -/
import HapModel.Drv.Persist
open Lean Hap.Drv

def dispatch (j : Json) : R Json := do
  let layer ← getStr j "layer"
  match layer with
  | "persist" => Hap.Drv.Persist.handle j
  | _ => throw s!"unknown layer {layer}"

def main : IO Unit := mainLoop dispatch
