/- Line-protocol driver for the sessions layer: `lake env lean --run Drivers/C16.lean`. -/
import HapModel.Drv.Sessions
open Lean Hap.Drv

def dispatch (j : Json) : R Json := do
  let layer ← getStr j "layer"
  match layer with
  | "sess" => Hap.Drv.Sess.handle j
  | "pv" => Hap.Drv.PV.handle j
  | _ => throw s!"unknown layer {layer}"

def main : IO Unit := mainLoop dispatch
