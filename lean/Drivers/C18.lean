/- Line-protocol driver for the Advert layer: `lake env lean --run Drivers/C18.lean`. -/
import HapModel.Drv.Advert
open Lean Hap.Drv

def dispatch (j : Json) : R Json := do
  let layer ← getStr j "layer"
  match layer with
  | "advert" => Hap.Drv.Advert.handle j
  | _ => throw s!"unknown layer {layer}"

def main : IO Unit := mainLoop dispatch
