/- Line-protocol driver for C19: `lake env lean --run Drivers/C19.lean`. -/
import HapModel.Drv.Pump
open Lean Hap.Drv

def dispatch (j : Json) : R Json := do
  let layer ← getStr j "layer"
  match layer with
  | "pump" => Hap.Drv.Pump.handle j
  | "dispatch" => Hap.Drv.Dispatch.handle j
  | _ => throw s!"unknown layer {layer}"

def main : IO Unit := mainLoop dispatch
