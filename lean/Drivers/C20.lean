/- Line-protocol driver for the Race layer: `lake env lean --run Drivers/C20.lean`. -/
import HapModel.Drv.Race
open Lean Hap.Drv

def dispatch (j : Json) : R Json := do
  let layer ← getStr j "layer"
  match layer with
  | "race" => Hap.Drv.Race.handle j
  | _ => throw s!"unknown layer {layer}"

def main : IO Unit := mainLoop dispatch
