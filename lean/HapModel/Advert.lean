/-
  Advert layer (C18): configuration number, mDNS name sanitising, TXT record, setup payload.

  Mirrors (pyhap, with the C18 repair design/fixes/C18.patch applied):
    * `State.increment_config_version`, `State.set_accessories_hash`           (state.py)
    * `AccessoryDriver.accessories_hash` as a hash of the value-free rendering (accessory_driver.py)
    * `AccessoryMDNSServiceInfo._valid_name`, `_valid_host_name`, `_get_advert_data`,
      the instance / host labels built in `__init__`                          (accessory_driver.py)
    * `Accessory.xhm_uri`, `base36.dumps`, `str.upper`, `str.rjust`            (accessory.py)
  The `...Legacy` functions are the name sanitisers as they were before the repair.
    * `AccessoryMDNSServiceInfo._setup_hash` (SHA-512 of setup id + mac, first 4 bytes, base64)
  No Mathlib import: this file is loaded by the line-protocol driver.
-/
import HapModel.Sha512
namespace Hap.Advert

/-! ## configuration number (`c#`) -/

def MAX_CONFIG_VERSION : Nat := 65535
def DEFAULT_CONFIG_VERSION : Nat := 1

/-- The two `State` attributes that drive `c#`. `hsh = none` is Python's initial `None`. -/
structure Cfg (Hsh : Type) where
  cfg : Nat
  hsh : Option Hsh
deriving Repr

/-- `State.increment_config_version`. -/
def incr {Hsh : Type} (st : Cfg Hsh) : Cfg Hsh :=
  let c := st.cfg + 1
  { st with cfg := if c > MAX_CONFIG_VERSION then 1 else c }

/-- `State.set_accessories_hash`: returns the new state and the boolean result. -/
def setHash {Hsh : Type} [DecidableEq Hsh] (st : Cfg Hsh) (h : Hsh) : Cfg Hsh × Bool :=
  if st.hsh = some h then (st, false)
  else (incr { st with hsh := some h }, true)

/-! ## the attribute database as far as `accessories_hash` can see it

  `Characteristic.to_HAP(include_value=False)` reads the iid, the type and the properties
  (permissions, format, description, numeric bounds, valid values, maxLen) — never the value.
  The model keeps the metadata abstract (`M`), the value abstract (`V`) and renders the
  value-free view structurally; `accessories_hash = H (render without values)` for an
  arbitrary hash `H`. -/

structure Chr (M V : Type) where
  iid : Nat
  mta : M
  value : V

structure Svc (M V : Type) where
  iid : Nat
  mta : M            -- type, primary flag, linked services
  chars : List (Chr M V)

structure Acc (M V : Type) where
  aid : Nat
  services : List (Svc M V)

abbrev Db (M V : Type) := List (Acc M V)

/-- value-free rendering of one characteristic: a function of iid and metadata only -/
def Chr.noval {M V : Type} (c : Chr M V) : Nat × M := (c.iid, c.mta)
def Svc.noval {M V : Type} (s : Svc M V) : Nat × M × List (Nat × M) := (s.iid, s.mta, s.chars.map Chr.noval)
def Acc.noval {M V : Type} (a : Acc M V) : Nat × List (Nat × M × List (Nat × M)) :=
  (a.aid, a.services.map Svc.noval)

abbrev NoVal (M : Type) := List (Nat × List (Nat × M × List (Nat × M)))

/-- `get_accessories(include_value=False)` -/
def renderNoVal {M V : Type} (db : Db M V) : NoVal M := db.map Acc.noval

/-- `AccessoryDriver.accessories_hash` for an arbitrary hash function of the rendering. -/
def accHash {M V Hsh : Type} (H : NoVal M → Hsh) (db : Db M V) : Hsh := H (renderNoVal db)

/-- any value-changing operation (`set_value`, `client_update_value`, a getter callback result
    being stored, …): replace the value of characteristic `(aid, iid)` by `f oldValue` -/
def Chr.upd {M V : Type} (iid : Nat) (f : V → V) (c : Chr M V) : Chr M V :=
  if c.iid = iid then { c with value := f c.value } else c
def Svc.upd {M V : Type} (iid : Nat) (f : V → V) (s : Svc M V) : Svc M V :=
  { s with chars := s.chars.map (Chr.upd iid f) }
def Acc.upd {M V : Type} (aid iid : Nat) (f : V → V) (a : Acc M V) : Acc M V :=
  if a.aid = aid then { a with services := a.services.map (Svc.upd iid f) } else a
def valueOp {M V : Type} (aid iid : Nat) (f : V → V) (db : Db M V) : Db M V :=
  db.map (Acc.upd aid iid f)

/-- a history of value-changing operations -/
def valueOps {M V : Type} : List (Nat × Nat × (V → V)) → Db M V → Db M V
  | [], db => db
  | (aid, iid, f) :: rest, db => valueOps rest (valueOp aid iid f db)

/-- `async_start`: `state.set_accessories_hash(self.accessories_hash)` -/
def restart {M V Hsh : Type} [DecidableEq Hsh] (H : NoVal M → Hsh) (st : Cfg Hsh) (db : Db M V) :
    Cfg Hsh × Bool :=
  setHash st (accHash H db)

/-! ## name sanitising -/

/-- complement of the class in `VALID_MDNS_REGEX = [^A-Za-z0-9\-]+` (ASCII only: the pattern
    is a `str` pattern without flags, ranges are code-point ranges) -/
def okChar (c : Char) : Bool :=
  (65 ≤ c.toNat && c.toNat ≤ 90) || (97 ≤ c.toNat && c.toNat ≤ 122) ||
  (48 ≤ c.toNat && c.toNat ≤ 57) || c.toNat = 45

def SPACE : Char := ' '
def DASH : Char := '-'

/-- `re.sub(VALID_MDNS_REGEX, " ", s)`: every maximal run of other characters becomes one
    space. `inRun` = the previous character belonged to the run being replaced. -/
def subInvalidAux : Bool → List Char → List Char
  | _, [] => []
  | inRun, c :: cs =>
    if okChar c then c :: subInvalidAux false cs
    else if inRun then subInvalidAux true cs
    else SPACE :: subInvalidAux true cs

def subInvalid (s : List Char) : List Char := subInvalidAux false s

/-- strip the characters satisfying `p` from both ends -/
def stripBoth (p : Char → Bool) (s : List Char) : List Char :=
  ((s.dropWhile p).reverse.dropWhile p).reverse

def isSpaceDash (c : Char) : Bool := c = SPACE || c = DASH
def isSpace (c : Char) : Bool := c = SPACE
def isDash (c : Char) : Bool := c = DASH

/-- `re.sub(LEADING_TRAILING_SPACE_DASH, "", s)` with `^[ -]+|[ -]+$`: the leading and the
    trailing run of spaces/dashes are removed (no newline can be present after `subInvalid`,
    so `$` means end of string). -/
def stripSpaceDash (s : List Char) : List Char := stripBoth isSpaceDash s

/-- `str.strip()` without arguments strips Unicode white space; it is only ever applied to the
    output of `subInvalid`, in which the only white-space character that can occur is ' '
    (everything else is in `[A-Za-z0-9-]`), see `Proofs.Advert.strip_ws_eq`. -/
def pyStrip (s : List Char) : List Char := stripBoth isSpace s

/-- `s.replace(" ", "-")` -/
def replaceSpaceDash (s : List Char) : List Char := s.map fun c => if c = SPACE then DASH else c

/-- `re.sub(DASH_REGEX, "-", s)`: runs of dashes collapse to one dash -/
def collapseDashesAux : Bool → List Char → List Char
  | _, [] => []
  | inRun, c :: cs =>
    if c = DASH then (if inRun then collapseDashesAux true cs else DASH :: collapseDashesAux true cs)
    else c :: collapseDashesAux false cs

def collapseDashes (s : List Char) : List Char := collapseDashesAux false s

/-- `MAX_MDNS_NAME_LENGTH = 63 - 7` (repair) -/
def MAX_MDNS_NAME_LENGTH : Nat := 56
/-- `DEFAULT_MDNS_NAME` (repair) -/
def DEFAULT_MDNS_NAME : List Char := ['H', 'A', 'P']

def orDefault (s : List Char) : List Char := if s.isEmpty then DEFAULT_MDNS_NAME else s

/-- `_valid_name` before the repair -/
def validNameLegacy (display : List Char) : List Char := stripSpaceDash (subInvalid display)

/-- `_valid_host_name` before the repair -/
def validHostNameLegacy (display : List Char) : List Char :=
  collapseDashes (stripBoth isDash (replaceSpaceDash (pyStrip (subInvalid display))))

/-- `_valid_name` (repaired): truncate, strip again, fall back to the default label -/
def validName (display : List Char) : List Char :=
  orDefault (stripSpaceDash ((validNameLegacy display).take MAX_MDNS_NAME_LENGTH))

/-- `_valid_host_name` (repaired) -/
def validHostName (display : List Char) : List Char :=
  orDefault (stripBoth isDash ((validHostNameLegacy display).take MAX_MDNS_NAME_LENGTH))

/-- `self.state.mac[-8:].replace(":", "")` (`s[-8:]` is the whole string when it is shorter) -/
def shortMac (mac : List Char) : List Char :=
  (mac.drop (mac.length - 8)).filter fun c => c ≠ ':'

/-- first label of `name = f"{valid_name} {short_mac}.{HAP_SERVICE_TYPE}"` -/
def instanceLabel (vn : List Char) (mac : List Char) : List Char := vn ++ SPACE :: shortMac mac
/-- first label of `server = f"{valid_host_name}-{short_mac}.local."` -/
def hostLabel (vh : List Char) (mac : List Char) : List Char := vh ++ DASH :: shortMac mac

/-! ## TXT record (`_get_advert_data`) -/

structure Info where
  display : List Char
  category : Nat
  mac : List Char
  cfg : Nat
  paired : Bool          -- `state.paired`, i.e. `len(paired_clients) > 0`
  setupHash : String     -- `_setup_hash()`; the driver computes it with `setupHash` below

/-- the dict returned by `_get_advert_data`, in insertion order -/
def advertData (i : Info) : List (String × String) :=
  [ ("md", String.ofList (validName i.display)),
    ("pv", "1.1"),
    ("id", String.ofList i.mac),
    ("c#", toString i.cfg),
    ("s#", "1"),
    ("ff", "0"),
    ("ci", toString i.category),
    ("sf", if i.paired then "0" else "1"),
    ("sh", i.setupHash) ]

def lookup (k : String) : List (String × String) → Option String
  | [] => none
  | (a, b) :: rest => if a = k then some b else lookup k rest

/-! ## setup hash (`_setup_hash`) -/

def B64 : List Char := "ABCDEFGHIJKLMNOPQRSTUVWXYZabcdefghijklmnopqrstuvwxyz0123456789+/".toList
def b64Char (n : Nat) : Char := B64.getD n '?'

/-- `base64.b64encode` (standard alphabet, '=' padding) -/
def b64Encode : List UInt8 → List Char
  | a :: b :: c :: rest =>
    let n := a.toNat * 65536 + b.toNat * 256 + c.toNat
    b64Char (n / 262144) :: b64Char (n / 4096 % 64) :: b64Char (n / 64 % 64) :: b64Char (n % 64) ::
      b64Encode rest
  | [a, b] =>
    let n := (a.toNat * 256 + b.toNat) * 4
    [b64Char (n / 4096), b64Char (n / 64 % 64), b64Char (n % 64), '=']
  | [a] =>
    let n := a.toNat * 16
    [b64Char (n / 64), b64Char (n % 64), '=', '=']
  | [] => []

/-- `_setup_hash`: `base64(sha512((setup_id + mac).encode())[:4])` -/
def setupHash (setupId mac : List Char) : String :=
  String.ofList (b64Encode ((Hap.Sha512.sha512 (String.ofList (setupId ++ mac)).toUTF8.toList).take 4))

/-! ## setup payload (`Accessory.xhm_uri`) -/

/-- the bit packing, statement by statement -/
def xhmPayload (category code : Nat) : Nat :=
  let p := 0
  let p := p ||| (0 &&& 0x7)            -- version
  let p := p <<< 4
  let p := p ||| (0 &&& 0xF)            -- reserved
  let p := p <<< 8
  let p := p ||| (category &&& 0xFF)    -- category
  let p := p <<< 4
  let p := p ||| (2 &&& 0xF)            -- flags
  let p := p <<< 27
  p ||| (code &&& 0x7FFFFFFF)           -- pincode

/-- `base36.alphabet[d]` (lower case) -/
def b36Digit (d : Nat) : Char := if d < 10 then Char.ofNat (48 + d) else Char.ofNat (87 + d)

/-- the `while number != 0` loop of `base36.dumps` (`fuel` ≥ number suffices) -/
def b36Loop : Nat → Nat → List Char → List Char
  | 0, _, acc => acc
  | fuel + 1, n, acc =>
    if n = 0 then acc else b36Loop fuel (n / 36) (b36Digit (n % 36) :: acc)

/-- `base36.dumps(n)` for `n ≥ 0` -/
def b36Dumps (n : Nat) : List Char :=
  let v := b36Loop n n []
  if v.isEmpty then ['0'] else v

/-- `s.rjust(w, "0")` -/
def rjust0 (w : Nat) (s : List Char) : List Char := List.replicate (w - s.length) '0' ++ s

def XHM_PREFIX : List Char := "X-HM://".toList

/-- `int(pincode.replace(b"-", b""), 10)` for a pincode made of digits and dashes -/
def pinValue (pin : List Char) : Nat :=
  (pin.filter fun c => c ≠ '-').foldl (fun a c => a * 10 + (c.toNat - 48)) 0

/-- `Accessory.xhm_uri()` -/
def xhmUri (category code : Nat) (setupId : List Char) : List Char :=
  XHM_PREFIX ++ rjust0 9 ((b36Dumps (xhmPayload category code)).map Char.toUpper) ++ setupId

end Hap.Advert
