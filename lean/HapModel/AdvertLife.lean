/-
  Advert layer (C18): the configuration number over the whole life of an accessory — any number
  of process lifetimes sharing one persist file.

  Mirrors (pyhap):
    * `AccessoryDriver.__init__`         — a fresh `State` (`config_version = 1`, `accessories_hash = None`)
    * `AccessoryDriver.add_accessory`    — `load()` if the persist file exists, else `persist()`
    * `AccessoryDriver.async_start`      — `if state.set_accessories_hash(accessories_hash): async_persist()`
    * `AccessoryDriver.config_changed`   — `state.increment_config_version(); persist()`
    * `AccessoryDriver.persist` / `AccessoryEncoder.persist` / `load_into` as far as the two
      attributes `config_version` and `accessories_hash` go (the file stores both verbatim)
  The attribute database is the abstract one of `HapModel/Advert.lean`; at run time it may be
  changed by value operations and by arbitrary structural changes made by the application
  (`mutate`).  The hash `H` of the value-free rendering is a parameter.
  No Mathlib import: this file is loaded by the line-protocol driver.
-/
import HapModel.Advert
namespace Hap.AdvertLife
open Hap.Advert

structure Life (M V Hsh : Type) where
  /-- the live `State`: `config_version`, `accessories_hash` -/
  st : Cfg Hsh
  /-- what the persist file holds (`none`: there is no file yet) -/
  disk : Option (Cfg Hsh)
  /-- the live attribute database -/
  db : Db M V

/-- `State.__init__` -/
def fresh {Hsh : Type} : Cfg Hsh := { cfg := DEFAULT_CONFIG_VERSION, hsh := none }

/-- before the first process: no file, no accessories -/
def life0 {M V Hsh : Type} : Life M V Hsh := { st := fresh, disk := none, db := [] }

inductive Op (M V : Type) where
  /-- the process ends (anything not persisted is lost); a new one is started with the
      accessories `db`: `__init__`, `add_accessory` (load or first persist), `async_start` -/
  | restart (db : Db M V)
  /-- a characteristic value changes (`set_value`, `client_update_value`, …) -/
  | value (aid iid : Nat) (f : V → V)
  /-- the application changes structure or metadata of the running accessory in any way -/
  | mutate (f : Db M V → Db M V)
  /-- `driver.config_changed()` -/
  | configChanged
  /-- any other save of the state (`pair`, `unpair`, an explicit `persist()`) -/
  | persist

/-- one process start with the accessories `db` -/
def boot {M V Hsh : Type} [DecidableEq Hsh] (H : NoVal M → Hsh) (l : Life M V Hsh) (db : Db M V) :
    Life M V Hsh :=
  -- add_accessory: load the file, or write the fresh state
  let st0 := l.disk.getD fresh
  -- async_start: compare the stored hash with the one of the accessories now
  let r := setHash st0 (accHash H db)
  { st := r.1, disk := if r.2 then some r.1 else some st0, db := db }

def step {M V Hsh : Type} [DecidableEq Hsh] (H : NoVal M → Hsh) (l : Life M V Hsh) :
    Op M V → Life M V Hsh
  | .restart db => boot H l db
  | .value aid iid f => { l with db := valueOp aid iid f l.db }
  | .mutate f => { l with db := f l.db }
  | .configChanged => let st := incr l.st; { l with st := st, disk := some st }
  | .persist => { l with disk := some l.st }

def run {M V Hsh : Type} [DecidableEq Hsh] (H : NoVal M → Hsh) (l : Life M V Hsh) :
    List (Op M V) → Life M V Hsh
  | [] => l
  | op :: rest => run H (step H l op) rest

/-- the operations that can happen inside one process lifetime while the structure and the
    metadata of the database stay as they were at its start -/
def Op.quiet {M V : Type} : Op M V → Bool
  | .restart _ => false
  | .mutate _ => false
  | _ => true

/-- the operations inside one process lifetime (anything but a restart) -/
def Op.inProcess {M V : Type} : Op M V → Bool
  | .restart _ => false
  | _ => true

end Hap.AdvertLife
