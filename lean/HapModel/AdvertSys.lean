/-
  Small event model for the ordering part of C18.

  Mirrors `HAPServerProtocol._process_response` (hap_protocol.py):
      1. the response is written (or, if `response.task` is set, deferred until the task is done),
      2. `if response.shared_key:` the cipher is installed,
      3. `if response.pairing_changed:` `finish_pair` is handed to the executor,
  `AccessoryDriver.finish_pair` → `update_advertisement` → `loop.call_soon_threadsafe(
  async_update_advertisement)`, and `async_update_advertisement`, which builds a fresh
  `AccessoryMDNSServiceInfo` from the *current* state and passes it to the advertiser.
  The handler side is reduced to what decides the three response attributes and the pairing
  table: pair-setup M5 (`_pairing_five`), pair-verify M3, add / remove pairing
  (`handle_pairings`, `State.remove_paired_client` incl. the last-admin rule), the snapshot
  request (the only `response.task`) and "any other request".
  With the C16 repair a served remove-pairing also closes, after the response write and the
  cipher install, every connection whose verified controller is no longer paired
  (`_close_unpaired_sessions`); a closed connection delivers no further request and a deferred
  response for it is dropped.
  Scheduling is left open: executor jobs and loop callbacks may run in any order and at any
  later time (the real loop is FIFO; every FIFO schedule is one of the schedules here).
  `safe_mode` is the default (False).
-/
import HapModel.Advert
namespace Hap.AdvertSys
open Hap.Advert

abbrev Client := Nat
/-- `paired_clients` / `client_properties`: controller ↦ admin bit, in insertion order -/
abbrev Pairings := List (Client × Bool)

def isPaired (p : Pairings) (c : Client) : Bool := p.any fun e => e.1 = c
def isAdmin (p : Pairings) (c : Client) : Bool := p.any fun e => e.1 = c && e.2

/-- `State.add_paired_client` (dict assignment: keeps the position of an existing key) -/
def addPairing (p : Pairings) (c : Client) (admin : Bool) : Pairings :=
  if isPaired p c then p.map fun e => if e.1 = c then (c, admin) else e else p ++ [(c, admin)]

/-- `State.remove_paired_client`: all pairings go when no admin is left -/
def removePairing (p : Pairings) (c : Client) : Pairings :=
  let q := p.filter fun e => e.1 ≠ c
  if q.any fun e => e.2 then q else []

/-- the four `HAPResponse` attributes `_process_response` looks at -/
structure Resp where
  task : Bool
  sharedKey : Bool
  pairingChanged : Bool
  /-- set by every served remove-pairing request (C16 repair): sessions of controllers that
      are no longer paired are torn down once the response is written -/
  pairingRemoved : Bool
deriving DecidableEq, Repr

inductive Req where
  /-- pair-setup M5; `ok` = the proof checks passed and `driver.pair` returned True -/
  | pairSetupM5 (client : Client) (ok : Bool)
  /-- pair-verify M3; `ok` = the signature checks passed (response carries the shared key) -/
  | pairVerifyM3 (ok : Bool)
  /-- `POST /pairings` add (judged against the verified controller of the connection) -/
  | addPairing (client : Client) (admin : Bool)
  /-- `POST /pairings` remove -/
  | removePairing (client : Client)
  /-- `POST /resource`: the only response with a pending task -/
  | resource
  | other
deriving DecidableEq, Repr

def plain : Resp := ⟨false, false, false, false⟩

/-- `is_encrypted and state.is_admin(client_uuid)` -/
def authorized (p : Pairings) : Option Client → Bool
  | none => false
  | some c => isAdmin p c

/-- what the handler does to the pairing table and which response attributes it sets;
    `sess` is the verified controller of the connection the request arrived on
    (`handler.client_uuid` with `is_encrypted`) -/
def handle (p : Pairings) (sess : Option Client) : Req → Pairings × Resp
  | .pairSetupM5 c ok => if ok then (addPairing p c true, { plain with pairingChanged := true }) else (p, plain)
  | .pairVerifyM3 ok => (p, { plain with sharedKey := ok })
  | .addPairing c adm => if authorized p sess then (addPairing p c adm, plain) else (p, plain)
  | .removePairing c =>
    if authorized p sess then
      let wasPaired := !p.isEmpty
      let q := if isPaired p c then removePairing p c else p
      (q, { plain with pairingChanged := q.isEmpty && wasPaired, pairingRemoved := true })
    else (p, plain)
  | .resource => (p, { plain with task := true })
  | .other => (p, plain)

inductive Obs where
  /-- the response of request `rid` is written to the transport of connection `conn` -/
  | write (conn rid : Nat)
  /-- the session cipher is installed on `conn` because of request `rid` -/
  | cipher (conn rid : Nat)
  /-- a refreshed record is passed to the advertiser; caused by request `rid` -/
  | publish (rid : Nat) (txt : List (String × String))
deriving DecidableEq, Repr

structure Sys where
  /-- the static part of the record (name, category, mac, c#); `paired` is overwritten -/
  info : Info
  paired : Pairings
  nextRid : Nat
  /-- newest first -/
  log : List Obs
  /-- responses waiting for their task: (conn, rid) -/
  deferred : List (Nat × Nat)
  /-- `finish_pair` jobs handed to the executor, tagged with the causing request -/
  execQ : List Nat
  /-- `async_update_advertisement` callbacks queued in the loop -/
  loopQ : List Nat
  /-- verified controller of each connection (`handler.client_uuid`); connections that are
      not listed are unverified -/
  sessions : List (Nat × Client)
  /-- connections whose transport was closed by `_close_unpaired_sessions` -/
  closed : List Nat

def init (info : Info) (p : Pairings) (sessions : List (Nat × Client)) : Sys :=
  { info, paired := p, nextRid := 0, log := [], deferred := [], execQ := [], loopQ := [],
    sessions, closed := [] }

/-- `handler.client_uuid` of connection `conn` -/
def sessionOf (s : Sys) (conn : Nat) : Option Client :=
  (s.sessions.find? fun e => e.1 = conn).map fun e => e.2

def isClosed (s : Sys) (conn : Nat) : Bool := s.closed.contains conn

/-- `_close_unpaired_sessions`: the open connections whose verified controller is no longer in
    `state.paired_clients` -/
def unpairedConns (s : Sys) : List Nat :=
  (s.sessions.map fun e => e.1).filter fun k =>
    !isClosed s k && match sessionOf s k with
      | some c => !isPaired s.paired c
      | none => false

/-- the record `AccessoryMDNSServiceInfo(accessory, state)` would carry now -/
def record (s : Sys) : List (String × String) :=
  advertData { s.info with paired := !s.paired.isEmpty }

/-- `_process_response`, statement by statement -/
def processResponse (s : Sys) (conn rid : Nat) (r : Resp) : Sys :=
  let s := if r.task then { s with deferred := s.deferred ++ [(conn, rid)] }
           else { s with log := Obs.write conn rid :: s.log }
  let s := if r.sharedKey then { s with log := Obs.cipher conn rid :: s.log } else s
  let s := if r.pairingRemoved then { s with closed := s.closed ++ unpairedConns s } else s
  if r.pairingChanged then { s with execQ := s.execQ ++ [rid] } else s

inductive Step where
  /-- a complete request arrives on `conn`: `dispatch` + `_process_response`; nothing is
      delivered on a connection that has been closed (asyncio: no `data_received` after
      `transport.close()`) -/
  | request (conn : Nat) (r : Req)
  /-- the task of the i-th deferred response completes (`_handle_response_ready`: the response
      is dropped if the transport is closing) -/
  | taskDone (i : Nat)
  /-- the executor runs its i-th pending `finish_pair` -/
  | execRun (i : Nat)
  /-- the loop runs its i-th pending `async_update_advertisement` -/
  | loopRun (i : Nat)
deriving DecidableEq, Repr

def step (s : Sys) : Step → Sys
  | .request conn r =>
    if isClosed s conn then s else
    let (p, resp) := handle s.paired (sessionOf s conn) r
    let rid := s.nextRid
    processResponse { s with paired := p, nextRid := rid + 1 } conn rid resp
  | .taskDone i =>
    match s.deferred[i]? with
    | none => s
    | some (conn, rid) =>
      if isClosed s conn then { s with deferred := s.deferred.eraseIdx i }
      else { s with deferred := s.deferred.eraseIdx i, log := Obs.write conn rid :: s.log }
  | .execRun i =>
    match s.execQ[i]? with
    | none => s
    | some rid => { s with execQ := s.execQ.eraseIdx i, loopQ := s.loopQ ++ [rid] }
  | .loopRun i =>
    match s.loopQ[i]? with
    | none => s
    | some rid =>
      { s with loopQ := s.loopQ.eraseIdx i, log := Obs.publish rid (record s) :: s.log }

def run (s : Sys) : List Step → Sys
  | [] => s
  | st :: rest => run (step s st) rest

/-- the `sf` value of the record the advertiser holds: that of the newest published record,
    or of the record registered at start (`initial`) if none was published yet -/
def advertisedSf (initial : Option String) : List Obs → Option String
  | [] => initial
  | Obs.publish _ txt :: _ => lookup "sf" txt
  | _ :: rest => advertisedSf initial rest

/-- `sf` of the record registered by `async_start` -/
def initialSf (info : Info) (p : Pairings) : Option String := lookup "sf" (record (init info p []))

/-- variant with the refresh scheduled *before* the response write (what `finish_pair`'s doc
    comment warns against); used for the counterexample only -/
def processResponseEarly (s : Sys) (conn rid : Nat) (r : Resp) : Sys :=
  let s := if r.pairingChanged then { s with log := Obs.publish rid (record s) :: s.log } else s
  if r.task then { s with deferred := s.deferred ++ [(conn, rid)] }
  else { s with log := Obs.write conn rid :: s.log }

def stepEarly (s : Sys) : Step → Sys
  | .request conn r =>
    let (p, resp) := handle s.paired (sessionOf s conn) r
    let rid := s.nextRid
    processResponseEarly { s with paired := p, nextRid := rid + 1 } conn rid resp
  | st => step s st

def runEarly (s : Sys) : List Step → Sys
  | [] => s
  | st :: rest => runEarly (stepEarly s st) rest

end Hap.AdvertSys
