/-
  Small event model for the ordering part of C18.

  Mirrors `HAPServerProtocol._process_response` (hap_protocol.py):
      1. the response is written (or, if `response.task` is set, deferred until the task is done),
      2. `if response.shared_key:` the cipher is installed,
      3. `if response.pairing_changed:` `finish_pair` is handed to the executor,
  `AccessoryDriver.finish_pair` → `update_advertisement` → `loop.call_soon_threadsafe(
  async_update_advertisement)`, and `async_update_advertisement`, which builds a fresh
  `AccessoryMDNSServiceInfo` from the *current* state and passes it to the advertiser.
  The handler side is reduced to what decides the three response attributes and the pairing
  table: pair-setup M5 (`_pairing_five`), pair-verify M3, add / remove pairing
  (`handle_pairings`, `State.remove_paired_client` incl. the last-admin rule), the snapshot
  request (the only `response.task`) and "any other request".
  With the C16 repair a served remove-pairing also closes, after the response write and the
  cipher install, every connection whose verified controller is no longer paired
  (`_close_unpaired_sessions`); a closed connection delivers no further request and a deferred
  response for it is dropped.
  Scheduling is left open: executor jobs and loop callbacks may run in any order and at any
  later time (the real loop is FIFO; every FIFO schedule is one of the schedules here).
  `AccessoryDriver.safe_mode` is a field of the state (default False): with it set, `finish_pair`
  does not touch the advertisement at all.

  Application side (driver API, no request and hence no response involved):
    * `AccessoryDriver.config_changed()`  — `state.increment_config_version()`, persist,
      `update_advertisement()` (a loop callback, no executor hop),
    * `AccessoryDriver.update_advertisement()` called directly,
    * `AccessoryDriver.unpair(uuid)` called directly — `State.remove_paired_client` and persist,
      *no* refresh and no session teardown (both belong to the request path).
  A published record is tagged with its cause: `some rid` for the `finish_pair` of request `rid`,
  `none` for an application-requested refresh.  The record is rebuilt from the *current* state
  (`record`): name, category, mac, the current configuration number and the current pairing flag.
-/
import HapModel.Advert
namespace Hap.AdvertSys
open Hap.Advert

abbrev Client := Nat
/-- `paired_clients` / `client_properties`: controller ↦ admin bit, in insertion order -/
abbrev Pairings := List (Client × Bool)

def isPaired (p : Pairings) (c : Client) : Bool := p.any fun e => e.1 = c
def isAdmin (p : Pairings) (c : Client) : Bool := p.any fun e => e.1 = c && e.2

/-- `State.add_paired_client` (dict assignment: keeps the position of an existing key) -/
def addPairing (p : Pairings) (c : Client) (admin : Bool) : Pairings :=
  if isPaired p c then p.map fun e => if e.1 = c then (c, admin) else e else p ++ [(c, admin)]

/-- `State.remove_paired_client`: all pairings go when no admin is left -/
def removePairing (p : Pairings) (c : Client) : Pairings :=
  let q := p.filter fun e => e.1 ≠ c
  if q.any fun e => e.2 then q else []

/-- the four `HAPResponse` attributes `_process_response` looks at -/
structure Resp where
  task : Bool
  sharedKey : Bool
  pairingChanged : Bool
  /-- set by every served remove-pairing request (C16 repair): sessions of controllers that
      are no longer paired are torn down once the response is written -/
  pairingRemoved : Bool
deriving DecidableEq, Repr

inductive Req where
  /-- pair-setup M5; `ok` = the proof checks passed and `driver.pair` returned True -/
  | pairSetupM5 (client : Client) (ok : Bool)
  /-- pair-verify M3; `ok` = the signature checks passed (response carries the shared key) -/
  | pairVerifyM3 (ok : Bool)
  /-- `POST /pairings` add (judged against the verified controller of the connection) -/
  | addPairing (client : Client) (admin : Bool)
  /-- `POST /pairings` remove -/
  | removePairing (client : Client)
  /-- `POST /resource`: the only response with a pending task -/
  | resource
  | other
deriving DecidableEq, Repr

def plain : Resp := ⟨false, false, false, false⟩

/-- `is_encrypted and state.is_admin(client_uuid)` -/
def authorized (p : Pairings) : Option Client → Bool
  | none => false
  | some c => isAdmin p c

/-- what the handler does to the pairing table and which response attributes it sets;
    `sess` is the verified controller of the connection the request arrived on
    (`handler.client_uuid` with `is_encrypted`) -/
def handle (p : Pairings) (sess : Option Client) : Req → Pairings × Resp
  | .pairSetupM5 c ok => if ok then (addPairing p c true, { plain with pairingChanged := true }) else (p, plain)
  | .pairVerifyM3 ok => (p, { plain with sharedKey := ok })
  | .addPairing c adm => if authorized p sess then (addPairing p c adm, plain) else (p, plain)
  | .removePairing c =>
    if authorized p sess then
      let wasPaired := !p.isEmpty
      let q := if isPaired p c then removePairing p c else p
      (q, { plain with pairingChanged := q.isEmpty && wasPaired, pairingRemoved := true })
    else (p, plain)
  | .resource => (p, { plain with task := true })
  | .other => (p, plain)

inductive Obs where
  /-- the response of request `rid` is written to the transport of connection `conn` -/
  | write (conn rid : Nat)
  /-- the session cipher is installed on `conn` because of request `rid` -/
  | cipher (conn rid : Nat)
  /-- a refreshed record is passed to the advertiser; caused by request `rid`
      (`none`: requested by the application, `config_changed` / `update_advertisement`) -/
  | publish (cause : Option Nat) (txt : List (String × String))
deriving DecidableEq, Repr

structure Sys where
  /-- name, category, mac, setup hash and the *current* `config_version`; `paired` is
      overwritten from the pairing table when a record is built -/
  info : Info
  paired : Pairings
  nextRid : Nat
  /-- newest first -/
  log : List Obs
  /-- responses waiting for their task: (conn, rid) -/
  deferred : List (Nat × Nat)
  /-- `finish_pair` jobs handed to the executor, tagged with the causing request -/
  execQ : List Nat
  /-- `async_update_advertisement` callbacks queued in the loop, tagged with their cause -/
  loopQ : List (Option Nat)
  /-- verified controller of each connection (`handler.client_uuid`); connections that are
      not listed are unverified -/
  sessions : List (Nat × Client)
  /-- connections whose transport was closed by `_close_unpaired_sessions` -/
  closed : List Nat
  /-- `AccessoryDriver.safe_mode` -/
  safeMode : Bool := false

def init (info : Info) (p : Pairings) (sessions : List (Nat × Client)) (safe : Bool := false) : Sys :=
  { info, paired := p, nextRid := 0, log := [], deferred := [], execQ := [], loopQ := [],
    sessions, closed := [], safeMode := safe }

/-- `handler.client_uuid` of connection `conn` -/
def sessionOf (s : Sys) (conn : Nat) : Option Client :=
  (s.sessions.find? fun e => e.1 = conn).map fun e => e.2

def isClosed (s : Sys) (conn : Nat) : Bool := s.closed.contains conn

/-- `_close_unpaired_sessions`: the open connections whose verified controller is no longer in
    `state.paired_clients` -/
def unpairedConns (s : Sys) : List Nat :=
  (s.sessions.map fun e => e.1).filter fun k =>
    !isClosed s k && match sessionOf s k with
      | some c => !isPaired s.paired c
      | none => false

/-- the record `AccessoryMDNSServiceInfo(accessory, state)` would carry now -/
def record (s : Sys) : List (String × String) :=
  advertData { s.info with paired := !s.paired.isEmpty }

/-- `_process_response`, statement by statement -/
def processResponse (s : Sys) (conn rid : Nat) (r : Resp) : Sys :=
  let s := if r.task then { s with deferred := s.deferred ++ [(conn, rid)] }
           else { s with log := Obs.write conn rid :: s.log }
  let s := if r.sharedKey then { s with log := Obs.cipher conn rid :: s.log } else s
  let s := if r.pairingRemoved then { s with closed := s.closed ++ unpairedConns s } else s
  if r.pairingChanged then { s with execQ := s.execQ ++ [rid] } else s

inductive Step where
  /-- a complete request arrives on `conn`: `dispatch` + `_process_response`; nothing is
      delivered on a connection that has been closed (asyncio: no `data_received` after
      `transport.close()`) -/
  | request (conn : Nat) (r : Req)
  /-- the task of the i-th deferred response completes (`_handle_response_ready`: the response
      is dropped if the transport is closing) -/
  | taskDone (i : Nat)
  /-- the executor runs its i-th pending `finish_pair` -/
  | execRun (i : Nat)
  /-- the loop runs its i-th pending `async_update_advertisement` -/
  | loopRun (i : Nat)
  /-- the application calls `driver.config_changed()` -/
  | configChanged
  /-- the application calls `driver.update_advertisement()` -/
  | appRefresh
  /-- the application calls `driver.unpair(uuid)` for a paired controller (for an unknown one
      the real call raises `KeyError` before touching anything) -/
  | appUnpair (client : Client)
deriving DecidableEq, Repr

/-- `State.increment_config_version` on the number alone -/
def bump (n : Nat) : Nat := (incr ({ cfg := n, hsh := none } : Cfg Unit)).cfg

def step (s : Sys) : Step → Sys
  | .request conn r =>
    if isClosed s conn then s else
    let (p, resp) := handle s.paired (sessionOf s conn) r
    let rid := s.nextRid
    processResponse { s with paired := p, nextRid := rid + 1 } conn rid resp
  | .taskDone i =>
    match s.deferred[i]? with
    | none => s
    | some (conn, rid) =>
      if isClosed s conn then { s with deferred := s.deferred.eraseIdx i }
      else { s with deferred := s.deferred.eraseIdx i, log := Obs.write conn rid :: s.log }
  | .execRun i =>
    match s.execQ[i]? with
    | none => s
    | some rid =>
      -- finish_pair: `if not self.safe_mode: self.update_advertisement()`
      { s with execQ := s.execQ.eraseIdx i, loopQ := if s.safeMode then s.loopQ else s.loopQ ++ [some rid] }
  | .loopRun i =>
    match s.loopQ[i]? with
    | none => s
    | some cause =>
      { s with loopQ := s.loopQ.eraseIdx i, log := Obs.publish cause (record s) :: s.log }
  | .configChanged =>
    { s with info := { s.info with cfg := bump s.info.cfg }, loopQ := s.loopQ ++ [none] }
  | .appRefresh => { s with loopQ := s.loopQ ++ [none] }
  | .appUnpair c => if isPaired s.paired c then { s with paired := removePairing s.paired c } else s

def run (s : Sys) : List Step → Sys
  | [] => s
  | st :: rest => run (step s st) rest

/-- the record the advertiser holds: the newest published one, or the one registered at start
    (`initial`) if none was published yet -/
def advertised (initial : List (String × String)) : List Obs → List (String × String)
  | [] => initial
  | Obs.publish _ txt :: _ => txt
  | _ :: rest => advertised initial rest

/-- the record registered by `async_start` -/
def initialRecord (info : Info) (p : Pairings) : List (String × String) := record (init info p [])

/-- the `sf` value of the record the advertiser holds -/
def advertisedSf (initial : List (String × String)) (log : List Obs) : Option String :=
  lookup "sf" (advertised initial log)

/-- variant with the refresh scheduled *before* the response write (what `finish_pair`'s doc
    comment warns against); used for the counterexample only -/
def processResponseEarly (s : Sys) (conn rid : Nat) (r : Resp) : Sys :=
  let s := if r.pairingChanged then { s with log := Obs.publish (some rid) (record s) :: s.log } else s
  if r.task then { s with deferred := s.deferred ++ [(conn, rid)] }
  else { s with log := Obs.write conn rid :: s.log }

def stepEarly (s : Sys) : Step → Sys
  | .request conn r =>
    let (p, resp) := handle s.paired (sessionOf s conn) r
    let rid := s.nextRid
    processResponseEarly { s with paired := p, nextRid := rid + 1 } conn rid resp
  | st => step s st

def runEarly (s : Sys) : List Step → Sys
  | [] => s
  | st :: rest => runEarly (stepEarly s st) rest

end Hap.AdvertSys
