/-
  Byte-string helpers shared by all model layers.
  Mirrors: Python slices (incl. `x[-r:]`), `util.long_to_bytes`, `hsrp.bytes_to_long`,
  `bytes.rjust`, `Struct("H")` on a little-endian host, hex.
  No Mathlib import: this file is also loaded by the line-protocol driver.
-/
namespace Hap

abbrev Bytes := List UInt8

/-- Python `data[-r:]` for `0 ≤ r ≤ len data` (`r = 0` gives the whole list!). -/
def pyLast (data : Bytes) (r : Nat) : Bytes :=
  if r = 0 then data else data.drop (data.length - r)

/-- `Struct("H").pack(n)` on a little-endian host, `n < 65536`. -/
def le16 (n : Nat) : Bytes := [UInt8.ofNat (n % 256), UInt8.ofNat (n / 256)]

/-- `struct.unpack("H", b[:2])[0]`; reads zeros past the end (callers guard the length). -/
def rdLe16 (b : Bytes) : Nat := (b.getD 0 0).toNat + 256 * (b.getD 1 0).toNat

/-- `int.from_bytes(s, "big")`. -/
def bytesToNat (b : Bytes) : Nat := b.foldl (fun acc x => acc * 256 + x.toNat) 0

/-- Big-endian digits, least significant first, of a positive number (fuel = value). -/
def natToBytesRevAux : Nat → Nat → Bytes
  | 0, _ => []
  | fuel+1, n => if n = 0 then [] else UInt8.ofNat (n % 256) :: natToBytesRevAux fuel (n / 256)

/-- `util.long_to_bytes`: minimal big-endian, `0 ↦ b""`. -/
def natToBytes (n : Nat) : Bytes := (natToBytesRevAux n n).reverse

/-- `bytestr.rjust(w, b"\x00")`. -/
def rjust (w : Nat) (b : Bytes) : Bytes := List.replicate (w - b.length) 0 ++ b

def hexDigit (n : Nat) : Char :=
  if n < 10 then Char.ofNat (48 + n) else Char.ofNat (87 + n)

def toHex (b : Bytes) : String :=
  String.ofList (b.flatMap fun x => [hexDigit (x.toNat / 16), hexDigit (x.toNat % 16)])

def hexVal (c : Char) : Option Nat :=
  if '0' ≤ c ∧ c ≤ '9' then some (c.toNat - 48)
  else if 'a' ≤ c ∧ c ≤ 'f' then some (c.toNat - 87)
  else if 'A' ≤ c ∧ c ≤ 'F' then some (c.toNat - 55)
  else none

def ofHexAux : List Char → Option Bytes
  | [] => some []
  | [_] => none
  | a :: b :: rest => do
    let x ← hexVal a
    let y ← hexVal b
    let r ← ofHexAux rest
    pure (UInt8.ofNat (x * 16 + y) :: r)

def ofHex (s : String) : Option Bytes := ofHexAux s.toList

end Hap
