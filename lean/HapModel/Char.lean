/-
  Executable model of `pyhap.characteristic.Characteristic` value handling:
  `to_valid_value`, `valid_value_or_raise`, `_get_default_value`, `set_value`,
  `client_update_value`, `override_properties`, `notify` / setter callback (as an output log),
  `to_HAP()['value']`.
  No Mathlib import: loaded by the line-protocol driver.

  External behaviour is a parameter (`Ext`): the floating step-rounding expression
  `round(min_step * round(value / min_step), 14)` and `str(float)`.
  The model mirrors the code *with the C09 repair* (`Variant` = `repaired`, the code at HEAD); the
  two legacy behaviours are kept behind flags for the counterexample theorems:
    * `nullSkipsAll`    : `valid_value_or_raise` returned early for the always-null type whatever
                          the value (repaired: only for `None`);
    * `overflowEscapes` : `override_properties` caught `ValueError` only, so an `OverflowError`
                          from re-validation escaped after the properties had been replaced.
  A third flag describes a *candidate* repair that HEAD does not have:
    * `getterChecks`    : `get_value` runs `valid_value_or_raise` on what the getter callback
                          returned before storing it (HEAD: only `to_valid_value`).

  Application callbacks are per-operation parameters: a controller write carries what the setter
  callback does (`Cb`: not installed / returns / raises), a read carries what the getter callback
  does (`Getter`: not installed / returns a value / raises); installing and removing callbacks
  between operations (also through `Service.configure_char`) is therefore inside the alphabet.
-/
import HapModel.CharTypes
import HapModel.Gen.CharConst
namespace Hap.Char
open Gen

/-- Library behaviour that is not modelled arithmetically. -/
structure Ext where
  /-- `round(min_step * round(value / min_step), 14)` for truthy numeric `value`, `min_step`
      (may raise: `round(inf)`, `round(nan)`, int too large for a float) -/
  stepRound : Val → Val → Except Exn PNum
  /-- `str(x)` for a float -/
  reprF : Num → List Char

structure Variant where
  nullSkipsAll : Bool := false
  overflowEscapes : Bool := false
  getterChecks : Bool := false
  deriving DecidableEq, Repr

/-- the code with design/fixes/C09.patch (HEAD) -/
def repaired : Variant := {}
/-- HEAD + the candidate repair of `get_value` (design/fixes/C09-getter-valid-values.patch) -/
def strict : Variant := { getterChecks := true }
/-- the two legacy defects are absent (`repaired` and `strict` are) -/
def Variant.sound (L : Variant) : Bool := !L.nullSkipsAll && !L.overflowEscapes
/-- the code as it was -/
def legacy : Variant := { nullSkipsAll := true, overflowEscapes := true }

/-- Python `str(v)`. -/
def pyStr (E : Ext) : Val → List Char
  | .int i => (toString i).toList
  | .float x => E.reprF x
  | .bool b => if b then ['T', 'r', 'u', 'e'] else ['F', 'a', 'l', 's', 'e']
  | .str s => s
  | .null => ['N', 'o', 'n', 'e']
  | .other r _ => r

/-- `if value and min_step: value = round(min_step * round(value / min_step), 14)` -/
def stepped (E : Ext) (p : Props) (v : Val) : Except Exn Val :=
  match p.minStep with
  | some s => if v.truthy && s.truthy then (E.stepRound v s).map PNum.toVal else .ok v
  | none => .ok v

/-- `value = min(properties.get(MAX, value), value); value = max(properties.get(MIN, value), value)` -/
def clamp (p : Props) (v1 : Val) : Val :=
  let v2 := Val.pyMin (p.maxV.getD v1) v1
  Val.pyMax (p.minV.getD v2) v2

/-- the numeric branch of `to_valid_value` (`prop_format in HAP_FORMAT_NUMERICS`) -/
def toValidNum (E : Ext) (p : Props) (v : Val) : Except Exn Val :=
  if !v.isNumeric then .error .valueError else
  match stepped E p v with
  | .error e => .error e
  | .ok v1 =>
    let v3 := clamp p v1
    if p.fmt.isInteger then (toInt v3).map Val.int else .ok v3

/-- `Characteristic.to_valid_value` -/
def toValid (E : Ext) (p : Props) (v : Val) : Except Exn Val :=
  match p.fmt with
  | .string => .ok (.str ((pyStr E v).take (p.maxLen.getD defaultMaxLen)))
  | .bool => .ok (.bool v.truthy)
  | f => if f.isNumeric then toValidNum E p v else .ok v

/-- `Characteristic.valid_value_or_raise` -/
def validOrRaise (L : Variant) (cfg : Cfg) (p : Props) (v : Val) : Except Exn Unit :=
  if cfg.alwaysNull && (L.nullSkipsAll || v == .null) then .ok ()
  else if p.vv.isEmpty then .ok ()
  else if v.memInts p.vv then .ok ()
  else .error .valueError

/-- `min(valid_values.values())` -/
def minInts : List Int → Int
  | [] => 0
  | x :: xs => xs.foldl min x

/-- `Characteristic._get_default_value` -/
def defaultValue (E : Ext) (cfg : Cfg) (p : Props) : Except Exn Val :=
  if cfg.alwaysNull then .ok .null
  else if !p.vv.isEmpty then .ok (.int (minInts p.vv))
  else toValid E p (fmtDefault p.fmt)

structure St where
  props : Props
  value : Val
  deriving DecidableEq, Repr

/-- What an operation hands to the outside world. -/
inductive Event where
  /-- `broker.publish(value, ...)` -/
  | notify (v : Val)
  /-- `setter_callback(value)` -/
  | callback (v : Val)
  deriving DecidableEq, Repr

def Event.val : Event → Val
  | .notify v => v
  | .callback v => v

/-- Result of one operation: the state afterwards, the exception that escaped (if any) and
    the events emitted, in order. -/
structure Res where
  st : St
  exn : Option Exn
  out : List Event
  deriving Repr

/-- `_validate_properties`: `maxLen` present and `> ABSOLUTE_MAX_LENGTH` -/
def tooLong : Option Nat → Bool
  | some n => decide (n > absMaxLen)
  | none => false

/-- `Characteristic.__init__` (value part): `_validate_properties`, then the default value. -/
def init (E : Ext) (cfg : Cfg) (p : Props) : Except Exn St :=
  if tooLong p.maxLen then .error .valueError
  else (defaultValue E cfg p).map fun d => { props := p, value := d }

/-- the conversion-and-validation prefix of `set_value` (everything before the first assignment):
    `value = self.to_valid_value(value); self.valid_value_or_raise(value)` -/
def setCheck (E : Ext) (L : Variant) (cfg : Cfg) (p : Props) (v : Val) : Except Exn Val :=
  match toValid E p v with
  | .error e => .error e
  | .ok v' =>
    match validOrRaise L cfg p v' with
    | .error e => .error e
    | .ok _ => .ok v'

/-- `Characteristic.set_value(value, should_notify)`; `shouldNotify` stands for
    `should_notify and self.broker`. -/
def setValue (E : Ext) (L : Variant) (cfg : Cfg) (st : St) (v : Val) (shouldNotify : Bool) : Res :=
  match setCheck E L cfg st.props v with
  | .error e => ⟨st, some e, []⟩
  | .ok v' =>
    let changed := !(st.value.pyEq v')
    let out := if changed && shouldNotify then [Event.notify v'] else []
    ⟨{ st with value := if cfg.alwaysNull then .null else v' }, none, out⟩

/-- what the application's setter callback does on this write -/
inductive Cb where
  /-- no `setter_callback` installed -/
  | absent
  | returns
  /-- the callback raises `e` -/
  | raises (e : Exn)
  deriving DecidableEq, Repr

/-- the conversion-and-validation prefix of `client_update_value` -/
def clientCheck (E : Ext) (L : Variant) (cfg : Cfg) (p : Props) (v : Val) : Except Exn Val :=
  match (if !cfg.alwaysNull || v != .null then toValid E p v else .ok v) with
  | .error e => .error e
  | .ok v' =>
    match (if !cfg.allowInvalid then validOrRaise L cfg p v' else .ok ()) with
    | .error e => .error e
    | .ok _ => .ok v'

/-- `Characteristic.client_update_value(value, sender)`.  A raising setter callback propagates
    after the value has been assigned: no notification, and the always-null reset is skipped. -/
def clientUpdate (E : Ext) (L : Variant) (cfg : Cfg) (st : St) (v : Val) (cb : Cb) : Res :=
  match clientCheck E L cfg st.props v with
  | .error e => ⟨st, some e, []⟩
  | .ok v' =>
    match cb with
    | .raises e => ⟨{ st with value := v' }, some e, [Event.callback v']⟩
    | cb =>
      let cbs := if cb = .returns then [Event.callback v'] else []
      let changed := !(v'.pyEq st.value)
      let nt := if changed then [Event.notify v'] else []
      ⟨{ st with value := if cfg.alwaysNull then .null else v' }, none, cbs ++ nt⟩

/-- what the application's getter callback does on this read -/
inductive Getter where
  /-- no `getter_callback` installed -/
  | absent
  | returns (x : Val)
  | raises (e : Exn)
  deriving DecidableEq, Repr

/-- `Characteristic.get_value()`:
    `if self.getter_callback: self.value = self.to_valid_value(self.getter_callback())`. -/
def getValue (E : Ext) (L : Variant) (cfg : Cfg) (st : St) : Getter → Res
  | .absent => ⟨st, none, []⟩
  | .raises e => ⟨st, some e, []⟩
  | .returns x =>
    match toValid E st.props x with
    | .error e => ⟨st, some e, []⟩
    | .ok v =>
      match (if L.getterChecks then validOrRaise L cfg st.props v else .ok ()) with
      | .error e => ⟨st, some e, []⟩
      | .ok _ => ⟨{ st with value := v }, none, []⟩

/-- a read: `get_value()` directly, or through `to_HAP()` (which calls `get_value` only when the
    characteristic is readable) -/
def readOp (E : Ext) (L : Variant) (cfg : Cfg) (st : St) (g : Getter) (viaHap : Bool) : Res :=
  if viaHap && !st.props.readable then ⟨st, none, []⟩ else getValue E L cfg st g

/-- what the read returns (`none`: it raised, or `to_HAP()` carries no value) -/
def readResult (E : Ext) (L : Variant) (cfg : Cfg) (st : St) (g : Getter) (viaHap : Bool) : Option Val :=
  if viaHap && !st.props.readable then none
  else
    let r := getValue E L cfg st g
    match r.exn with
    | some _ => none
    | none => some r.st.value

/-- The `properties` argument of `override_properties` (only the keys that matter for values). -/
structure Upd where
  fmt : Option Fmt := none
  minV : Option Val := none
  maxV : Option Val := none
  minStep : Option Val := none
  maxLen : Option Nat := none
  vv : Option (List Int) := none
  /-- `Permissions` overridden: does the new list contain `pr` -/
  readable : Option Bool := none
  /-- the dict has some other key (unit, ...) -/
  other : Bool := false
  deriving DecidableEq, Repr

/-- `not properties` -/
def Upd.isEmpty (u : Upd) : Bool :=
  u.fmt.isNone && u.minV.isNone && u.maxV.isNone && u.minStep.isNone && u.maxLen.isNone
    && u.vv.isNone && u.readable.isNone && !u.other

/-- `self._properties.update(properties)` -/
def Upd.apply (u : Upd) (p : Props) : Props :=
  { fmt := u.fmt.getD p.fmt
    minV := u.minV.or p.minV
    maxV := u.maxV.or p.maxV
    minStep := u.minStep.or p.minStep
    vv := u.vv.getD p.vv
    maxLen := u.maxLen.or p.maxLen
    readable := u.readable.getD p.readable }

/-- the property set after a (non-rejected) `override_properties(properties, valid_values)` -/
def overrideProps (p : Props) (u : Upd) (vvArg : List Int) : Props :=
  let p1 := u.apply p
  if vvArg.isEmpty then p1 else { p1 with vv := vvArg }

/-- the `except ValueError:` handler of `override_properties` (repaired: also `OverflowError`) -/
def overrideHandler (E : Ext) (L : Variant) (cfg : Cfg) (p : Props) (cur : Val) (e : Exn) : Res :=
  if e = .valueError || (e = .overflowError && !L.overflowEscapes) then
    match defaultValue E cfg p with
    | .ok d => ⟨⟨p, d⟩, none, []⟩
    | .error e' => ⟨⟨p, cur⟩, some e', []⟩
  else ⟨⟨p, cur⟩, some e, []⟩

/-- `Characteristic.override_properties(properties, valid_values)` -/
def override (E : Ext) (L : Variant) (cfg : Cfg) (st : St) (u : Upd) (vvArg : List Int) : Res :=
  if u.isEmpty && vvArg.isEmpty then ⟨st, some .valueError, []⟩
  else if tooLong u.maxLen then ⟨st, some .valueError, []⟩
  else
    let p := overrideProps st.props u vvArg
    if cfg.alwaysNull then ⟨⟨p, .null⟩, none, []⟩
    else
      match toValid E p st.value with
      | .error e => overrideHandler E L cfg p st.value e
      | .ok v =>
        -- `self.value = ...` has been executed when the valid-values check raises
        match validOrRaise L cfg p v with
        | .ok _ => ⟨⟨p, v⟩, none, []⟩
        | .error e => overrideHandler E L cfg p v e

/-- `Service.configure_char(name, properties, valid_values, value)` (pyhap/service.py), statement
    by statement: `if properties or valid_values: char.override_properties(...)`, then
    `if value: char.set_value(value, should_notify=False)`.  An exception of the override
    propagates before the value is looked at; an exception of `set_value` propagates with the
    override already done.  (Its `setter_callback` / `getter_callback` arguments install the
    callbacks whose behaviour the `client` / `read` operations carry.) -/
def configurePre (E : Ext) (L : Variant) (cfg : Cfg) (st : St) (u : Upd) (vvArg : List Int) : Res :=
  if !u.isEmpty || !vvArg.isEmpty then override E L cfg st u vvArg else ⟨st, none, []⟩

def configure (E : Ext) (L : Variant) (cfg : Cfg) (st : St) (u : Upd) (vvArg : List Int) (v : Val) : Res :=
  let r1 := configurePre E L cfg st u vvArg
  match r1.exn with
  | some _ => r1
  | none =>
    if v.truthy then
      let r2 := setValue E L cfg r1.st v false
      ⟨r2.st, r2.exn, r1.out ++ r2.out⟩
    else r1

inductive Op where
  | set (v : Val) (shouldNotify : Bool)
  | client (v : Val) (cb : Cb)
  | override (u : Upd) (vvArg : List Int)
  | configure (u : Upd) (vvArg : List Int) (v : Val)
  | read (g : Getter) (viaHap : Bool)
  deriving DecidableEq, Repr

def step (E : Ext) (L : Variant) (cfg : Cfg) (st : St) : Op → Res
  | .set v n => setValue E L cfg st v n
  | .client v cb => clientUpdate E L cfg st v cb
  | .override u vv => override E L cfg st u vv
  | .configure u vv v => configure E L cfg st u vv v
  | .read g h => readOp E L cfg st g h

/-- state after a sequence of operations -/
def runSt (E : Ext) (L : Variant) (cfg : Cfg) : St → List Op → St
  | st, [] => st
  | st, op :: ops => runSt E L cfg (step E L cfg st op).st ops

/-- everything emitted during a sequence of operations, each event paired with the property
    set in force when it was emitted -/
def runLog (E : Ext) (L : Variant) (cfg : Cfg) : St → List Op → List (Props × Event)
  | _, [] => []
  | st, op :: ops =>
    let r := step E L cfg st op
    r.out.map (fun e => (r.st.props, e)) ++ runLog E L cfg r.st ops

/-- `to_HAP()['value']` without a getter callback (`none`: the key is absent, not readable) -/
def reported (st : St) : Option Val := if st.props.readable then some st.value else none

/-! ### What the property demands -/

/-- `lo ≤ v ≤ hi` for the declared bounds (a NaN is inside no declared bound) -/
def inBounds (p : Props) (v : Val) : Bool :=
  (match p.minV with | some lo => lo.le v | none => true) &&
  (match p.maxV with | some hi => v.le hi | none => true)

/-- membership in the declared valid values, unless none are declared or the application opted
    in to invalid controller values -/
def inValid (cfg : Cfg) (p : Props) (v : Val) : Bool :=
  p.vv.isEmpty || cfg.allowInvalid || v.memInts p.vv

/-- numeric formats: an `int` inside the bounds for integer formats, any number inside the
    bounds for `float` -/
def confNum (p : Props) (v : Val) : Bool :=
  if p.fmt.isInteger then (match v with | .int _ => inBounds p v | _ => false)
  else v.isNumeric && inBounds p v

/-- format, type and range part of conformance: a string no longer than `maxLen` (64 when not
    declared), a boolean, an `int` inside the bounds for integer formats, a number inside the
    bounds for `float`; nothing is demanded of tlv8 / data / array / dictionary values -/
def confBase (p : Props) (v : Val) : Bool :=
  match p.fmt with
  | .string => (match v with | .str s => decide (s.length ≤ p.maxLen.getD 64) | _ => false)
  | .bool => (match v with | .bool _ => true | _ => false)
  | f => if f.isNumeric then confNum p v else true

/-- `v` satisfies the constraints declared by `p`, according to the format. -/
def confFmt (cfg : Cfg) (p : Props) (v : Val) : Bool := confBase p v && inValid cfg p v

/-- conformance; `null` is the specified value of the always-null type -/
def conf (cfg : Cfg) (p : Props) (v : Val) : Bool :=
  (cfg.alwaysNull && v == .null) || confFmt cfg p v

/-- a finite `int`/`float` (what a JSON number is) -/
def isFinNum : Val → Bool
  | .int _ => true
  | .float (.fin _) => true
  | _ => false

def isIntegralVal : Val → Bool
  | .int _ => true
  | .float x => x.isIntegral
  | _ => false

def optAll (f : Val → Bool) : Option Val → Bool
  | some v => f v
  | none => true

/-- A property set that admits conforming values at all: finite bounds with `min ≤ max`,
    integral bounds for integer formats, valid values only on numeric formats and inside the
    bounds, `maxLen ≤ 256`; and whose `minStep`, when declared on a numeric format, is a number
    (the step expression is only ever evaluated on numbers then). -/
def consistent (p : Props) : Bool :=
  (match p.maxLen with | some n => decide (n ≤ absMaxLen) | none => true) &&
  (if p.fmt.isNumeric then
    optAll isFinNum p.minV && optAll isFinNum p.maxV &&
    (match p.minV, p.maxV with | some lo, some hi => lo.le hi | _, _ => true) &&
    (!p.fmt.isInteger || (optAll isIntegralVal p.minV && optAll isIntegralVal p.maxV)) &&
    p.vv.all (fun i => inBounds p (.int i)) &&
    optAll Val.isNumeric p.minStep
  else p.vv.isEmpty)

/-! ### The property set along a history depends on the operations only -/

/-- `override_properties` refuses up front: nothing to override, or `maxLen` above the limit -/
def overrideRefused (u : Upd) (vvArg : List Int) : Bool :=
  (u.isEmpty && vvArg.isEmpty) || tooLong u.maxLen

/-- the property set after an operation: a function of the property set before and of the
    operation alone (not of the stored value, the variant, the configuration or the parameters) -/
def propsAfter (p : Props) : Op → Props
  | .override u vv => if overrideRefused u vv then p else overrideProps p u vv
  | .configure u vv _ =>
    if (!u.isEmpty || !vv.isEmpty) && !overrideRefused u vv then overrideProps p u vv else p
  | _ => p

/-- every property set along a history is consistent (the initial one and the one after each
    override): a condition on the *inputs* (declared set, operation list) only -/
def consistentAlong : Props → List Op → Bool
  | p, [] => consistent p
  | p, op :: ops => consistent p && consistentAlong (propsAfter p op) ops

/-- a getter callback's answer is acceptable under `p`: once converted it passes the
    valid-values check (vacuous for reads without a getter answer) -/
def readOk (E : Ext) (cfg : Cfg) (p : Props) : Op → Bool
  | .read (.returns x) viaHap =>
    (viaHap && !p.readable) ||
    (match toValid E p x with
     | .ok v => (match validOrRaise repaired cfg p v with | .ok _ => true | .error _ => false)
     | .error _ => true)
  | _ => true

/-- every getter answer along a history is acceptable under the property set then in force -/
def readsOkAlong (E : Ext) (cfg : Cfg) : Props → List Op → Bool
  | _, [] => true
  | p, op :: ops => readOk E cfg p op && readsOkAlong E cfg (propsAfter p op) ops

/-- no override / configure in the history (the property set stays the declared one) -/
def noOverride : List Op → Bool
  | [] => true
  | .override _ _ :: _ => false
  | .configure _ _ _ :: _ => false
  | _ :: ops => noOverride ops

/-- no getter callback answers in the history -/
def noGetter : List Op → Bool
  | [] => true
  | .read (.returns _) _ :: _ => false
  | _ :: ops => noGetter ops

/-- base conformance (format / type / range / length), `null` allowed for the always-null type:
    what survives a getter callback that answers with an undeclared value -/
def confB (cfg : Cfg) (p : Props) (v : Val) : Bool :=
  (cfg.alwaysNull && v == .null) || confBase p v

/-- conformance as demanded of application-side values: the opt-in to invalid *controller*
    values does not exempt them -/
def confStrict (cfg : Cfg) (p : Props) (v : Val) : Bool :=
  conf { cfg with allowInvalid := false } p v

end Hap.Char
