/-
  Executable model of `pyhap.characteristic.Characteristic` value handling:
  `to_valid_value`, `valid_value_or_raise`, `_get_default_value`, `set_value`,
  `client_update_value`, `override_properties`, `notify` / setter callback (as an output log),
  `to_HAP()['value']`.
  No Mathlib import: loaded by the line-protocol driver.

  External behaviour is a parameter (`Ext`): the floating step-rounding expression
  `round(min_step * round(value / min_step), 14)` and `str(float)`.
  The model mirrors the code *with the C09 repair* (`Variant` = `repaired`); the two legacy
  behaviours are kept behind flags for the counterexample theorems:
    * `nullSkipsAll`    : `valid_value_or_raise` returned early for the always-null type whatever
                          the value (repaired: only for `None`);
    * `overflowEscapes` : `override_properties` caught `ValueError` only, so an `OverflowError`
                          from re-validation escaped after the properties had been replaced.
-/
import HapModel.CharTypes
import HapModel.Gen.CharConst
namespace Hap.Char
open Gen

/-- Library behaviour that is not modelled arithmetically. -/
structure Ext where
  /-- `round(min_step * round(value / min_step), 14)` for truthy numeric `value`, `min_step`
      (may raise: `round(inf)`, `round(nan)`, int too large for a float) -/
  stepRound : Val → Val → Except Exn PNum
  /-- `str(x)` for a float -/
  reprF : Num → List Char

structure Variant where
  nullSkipsAll : Bool := false
  overflowEscapes : Bool := false
  deriving DecidableEq, Repr

/-- the code with design/fixes/C09.patch -/
def repaired : Variant := {}
/-- the code as it was -/
def legacy : Variant := { nullSkipsAll := true, overflowEscapes := true }

/-- Python `str(v)`. -/
def pyStr (E : Ext) : Val → List Char
  | .int i => (toString i).toList
  | .float x => E.reprF x
  | .bool b => if b then ['T', 'r', 'u', 'e'] else ['F', 'a', 'l', 's', 'e']
  | .str s => s
  | .null => ['N', 'o', 'n', 'e']
  | .other r _ => r

/-- `if value and min_step: value = round(min_step * round(value / min_step), 14)` -/
def stepped (E : Ext) (p : Props) (v : Val) : Except Exn Val :=
  match p.minStep with
  | some s => if v.truthy && s.truthy then (E.stepRound v s).map PNum.toVal else .ok v
  | none => .ok v

/-- `value = min(properties.get(MAX, value), value); value = max(properties.get(MIN, value), value)` -/
def clamp (p : Props) (v1 : Val) : Val :=
  let v2 := Val.pyMin (p.maxV.getD v1) v1
  Val.pyMax (p.minV.getD v2) v2

/-- the numeric branch of `to_valid_value` (`prop_format in HAP_FORMAT_NUMERICS`) -/
def toValidNum (E : Ext) (p : Props) (v : Val) : Except Exn Val :=
  if !v.isNumeric then .error .valueError else
  match stepped E p v with
  | .error e => .error e
  | .ok v1 =>
    let v3 := clamp p v1
    if p.fmt.isInteger then (toInt v3).map Val.int else .ok v3

/-- `Characteristic.to_valid_value` -/
def toValid (E : Ext) (p : Props) (v : Val) : Except Exn Val :=
  match p.fmt with
  | .string => .ok (.str ((pyStr E v).take (p.maxLen.getD defaultMaxLen)))
  | .bool => .ok (.bool v.truthy)
  | f => if f.isNumeric then toValidNum E p v else .ok v

/-- `Characteristic.valid_value_or_raise` -/
def validOrRaise (L : Variant) (cfg : Cfg) (p : Props) (v : Val) : Except Exn Unit :=
  if cfg.alwaysNull && (L.nullSkipsAll || v == .null) then .ok ()
  else if p.vv.isEmpty then .ok ()
  else if v.memInts p.vv then .ok ()
  else .error .valueError

/-- `min(valid_values.values())` -/
def minInts : List Int → Int
  | [] => 0
  | x :: xs => xs.foldl min x

/-- `Characteristic._get_default_value` -/
def defaultValue (E : Ext) (cfg : Cfg) (p : Props) : Except Exn Val :=
  if cfg.alwaysNull then .ok .null
  else if !p.vv.isEmpty then .ok (.int (minInts p.vv))
  else toValid E p (fmtDefault p.fmt)

structure St where
  props : Props
  value : Val
  deriving DecidableEq, Repr

/-- What an operation hands to the outside world. -/
inductive Event where
  /-- `broker.publish(value, ...)` -/
  | notify (v : Val)
  /-- `setter_callback(value)` -/
  | callback (v : Val)
  deriving DecidableEq, Repr

def Event.val : Event → Val
  | .notify v => v
  | .callback v => v

/-- Result of one operation: the state afterwards, the exception that escaped (if any) and
    the events emitted, in order. -/
structure Res where
  st : St
  exn : Option Exn
  out : List Event
  deriving Repr

/-- `_validate_properties`: `maxLen` present and `> ABSOLUTE_MAX_LENGTH` -/
def tooLong : Option Nat → Bool
  | some n => decide (n > absMaxLen)
  | none => false

/-- `Characteristic.__init__` (value part): `_validate_properties`, then the default value. -/
def init (E : Ext) (cfg : Cfg) (p : Props) : Except Exn St :=
  if tooLong p.maxLen then .error .valueError
  else (defaultValue E cfg p).map fun d => { props := p, value := d }

/-- `Characteristic.set_value(value, should_notify)` with a broker attached. -/
def setValue (E : Ext) (L : Variant) (cfg : Cfg) (st : St) (v : Val) (shouldNotify : Bool) : Res :=
  match toValid E st.props v with
  | .error e => ⟨st, some e, []⟩
  | .ok v' =>
    match validOrRaise L cfg st.props v' with
    | .error e => ⟨st, some e, []⟩
    | .ok _ =>
      let changed := !(st.value.pyEq v')
      let out := if changed && shouldNotify then [Event.notify v'] else []
      ⟨{ st with value := if cfg.alwaysNull then .null else v' }, none, out⟩

/-- `Characteristic.client_update_value(value, sender)`; the setter callback only records. -/
def clientUpdate (E : Ext) (L : Variant) (cfg : Cfg) (st : St) (v : Val) : Res :=
  let conv : Except Exn Val :=
    if !cfg.alwaysNull || v != .null then toValid E st.props v else .ok v
  match conv with
  | .error e => ⟨st, some e, []⟩
  | .ok v' =>
    match (if !cfg.allowInvalid then validOrRaise L cfg st.props v' else .ok ()) with
    | .error e => ⟨st, some e, []⟩
    | .ok _ =>
      let cb := if cfg.hasSetter then [Event.callback v'] else []
      let changed := !(v'.pyEq st.value)
      let nt := if changed then [Event.notify v'] else []
      ⟨{ st with value := if cfg.alwaysNull then .null else v' }, none, cb ++ nt⟩

/-- The `properties` argument of `override_properties` (only the keys that matter for values). -/
structure Upd where
  fmt : Option Fmt := none
  minV : Option Val := none
  maxV : Option Val := none
  minStep : Option Val := none
  maxLen : Option Nat := none
  vv : Option (List Int) := none
  /-- the dict has some other key (unit, Permissions, ...) -/
  other : Bool := false
  deriving DecidableEq, Repr

/-- `not properties` -/
def Upd.isEmpty (u : Upd) : Bool :=
  u.fmt.isNone && u.minV.isNone && u.maxV.isNone && u.minStep.isNone && u.maxLen.isNone
    && u.vv.isNone && !u.other

/-- `self._properties.update(properties)` -/
def Upd.apply (u : Upd) (p : Props) : Props :=
  { fmt := u.fmt.getD p.fmt
    minV := u.minV.or p.minV
    maxV := u.maxV.or p.maxV
    minStep := u.minStep.or p.minStep
    vv := u.vv.getD p.vv
    maxLen := u.maxLen.or p.maxLen
    readable := p.readable }

/-- the property set after a (non-rejected) `override_properties(properties, valid_values)` -/
def overrideProps (p : Props) (u : Upd) (vvArg : List Int) : Props :=
  let p1 := u.apply p
  if vvArg.isEmpty then p1 else { p1 with vv := vvArg }

/-- the `except ValueError:` handler of `override_properties` (repaired: also `OverflowError`) -/
def overrideHandler (E : Ext) (L : Variant) (cfg : Cfg) (p : Props) (cur : Val) (e : Exn) : Res :=
  if e = .valueError || (e = .overflowError && !L.overflowEscapes) then
    match defaultValue E cfg p with
    | .ok d => ⟨⟨p, d⟩, none, []⟩
    | .error e' => ⟨⟨p, cur⟩, some e', []⟩
  else ⟨⟨p, cur⟩, some e, []⟩

/-- `Characteristic.override_properties(properties, valid_values)` -/
def override (E : Ext) (L : Variant) (cfg : Cfg) (st : St) (u : Upd) (vvArg : List Int) : Res :=
  if u.isEmpty && vvArg.isEmpty then ⟨st, some .valueError, []⟩
  else if tooLong u.maxLen then ⟨st, some .valueError, []⟩
  else
    let p := overrideProps st.props u vvArg
    if cfg.alwaysNull then ⟨⟨p, .null⟩, none, []⟩
    else
      match toValid E p st.value with
      | .error e => overrideHandler E L cfg p st.value e
      | .ok v =>
        -- `self.value = ...` has been executed when the valid-values check raises
        match validOrRaise L cfg p v with
        | .ok _ => ⟨⟨p, v⟩, none, []⟩
        | .error e => overrideHandler E L cfg p v e

/-- `Service.configure_char(name, properties, valid_values, value)` (pyhap/service.py), statement
    by statement: `if properties or valid_values: char.override_properties(...)`, then
    `if value: char.set_value(value, should_notify=False)`.  An exception of the override
    propagates before the value is looked at; an exception of `set_value` propagates with the
    override already done.  (The callback arguments of `configure_char` are not modelled.) -/
def configurePre (E : Ext) (L : Variant) (cfg : Cfg) (st : St) (u : Upd) (vvArg : List Int) : Res :=
  if !u.isEmpty || !vvArg.isEmpty then override E L cfg st u vvArg else ⟨st, none, []⟩

def configure (E : Ext) (L : Variant) (cfg : Cfg) (st : St) (u : Upd) (vvArg : List Int) (v : Val) : Res :=
  let r1 := configurePre E L cfg st u vvArg
  match r1.exn with
  | some _ => r1
  | none =>
    if v.truthy then
      let r2 := setValue E L cfg r1.st v false
      ⟨r2.st, r2.exn, r1.out ++ r2.out⟩
    else r1

inductive Op where
  | set (v : Val) (shouldNotify : Bool)
  | client (v : Val)
  | override (u : Upd) (vvArg : List Int)
  | configure (u : Upd) (vvArg : List Int) (v : Val)
  deriving DecidableEq, Repr

def step (E : Ext) (L : Variant) (cfg : Cfg) (st : St) : Op → Res
  | .set v n => setValue E L cfg st v n
  | .client v => clientUpdate E L cfg st v
  | .override u vv => override E L cfg st u vv
  | .configure u vv v => configure E L cfg st u vv v

/-- state after a sequence of operations -/
def runSt (E : Ext) (L : Variant) (cfg : Cfg) : St → List Op → St
  | st, [] => st
  | st, op :: ops => runSt E L cfg (step E L cfg st op).st ops

/-- everything emitted during a sequence of operations, each event paired with the property
    set in force when it was emitted -/
def runLog (E : Ext) (L : Variant) (cfg : Cfg) : St → List Op → List (Props × Event)
  | _, [] => []
  | st, op :: ops =>
    let r := step E L cfg st op
    r.out.map (fun e => (r.st.props, e)) ++ runLog E L cfg r.st ops

/-- `to_HAP()['value']` without a getter callback (`none`: the key is absent, not readable) -/
def reported (st : St) : Option Val := if st.props.readable then some st.value else none

/-! ### What the property demands -/

/-- `lo ≤ v ≤ hi` for the declared bounds (a NaN is inside no declared bound) -/
def inBounds (p : Props) (v : Val) : Bool :=
  (match p.minV with | some lo => lo.le v | none => true) &&
  (match p.maxV with | some hi => v.le hi | none => true)

/-- membership in the declared valid values, unless none are declared or the application opted
    in to invalid controller values -/
def inValid (cfg : Cfg) (p : Props) (v : Val) : Bool :=
  p.vv.isEmpty || cfg.allowInvalid || v.memInts p.vv

/-- numeric formats: an `int` inside the bounds for integer formats, any number inside the
    bounds for `float` -/
def confNum (p : Props) (v : Val) : Bool :=
  if p.fmt.isInteger then (match v with | .int _ => inBounds p v | _ => false)
  else v.isNumeric && inBounds p v

/-- format, type and range part of conformance: a string no longer than `maxLen` (64 when not
    declared), a boolean, an `int` inside the bounds for integer formats, a number inside the
    bounds for `float`; nothing is demanded of tlv8 / data / array / dictionary values -/
def confBase (p : Props) (v : Val) : Bool :=
  match p.fmt with
  | .string => (match v with | .str s => decide (s.length ≤ p.maxLen.getD 64) | _ => false)
  | .bool => (match v with | .bool _ => true | _ => false)
  | f => if f.isNumeric then confNum p v else true

/-- `v` satisfies the constraints declared by `p`, according to the format. -/
def confFmt (cfg : Cfg) (p : Props) (v : Val) : Bool := confBase p v && inValid cfg p v

/-- conformance; `null` is the specified value of the always-null type -/
def conf (cfg : Cfg) (p : Props) (v : Val) : Bool :=
  (cfg.alwaysNull && v == .null) || confFmt cfg p v

/-- a finite `int`/`float` (what a JSON number is) -/
def isFinNum : Val → Bool
  | .int _ => true
  | .float (.fin _) => true
  | _ => false

def isIntegralVal : Val → Bool
  | .int _ => true
  | .float x => x.isIntegral
  | _ => false

def optAll (f : Val → Bool) : Option Val → Bool
  | some v => f v
  | none => true

/-- A property set that admits conforming values at all: finite bounds with `min ≤ max`,
    integral bounds for integer formats, valid values only on numeric formats and inside the
    bounds, `maxLen ≤ 256`. -/
def consistent (p : Props) : Bool :=
  (match p.maxLen with | some n => decide (n ≤ absMaxLen) | none => true) &&
  (if p.fmt.isNumeric then
    optAll isFinNum p.minV && optAll isFinNum p.maxV &&
    (match p.minV, p.maxV with | some lo, some hi => lo.le hi | _, _ => true) &&
    (!p.fmt.isInteger || (optAll isIntegralVal p.minV && optAll isIntegralVal p.maxV)) &&
    p.vv.all (fun i => inBounds p (.int i))
  else p.vv.isEmpty)

/-- every property set along a history is consistent (the initial one and the one after each
    override) -/
def AllConsistent (E : Ext) (L : Variant) (cfg : Cfg) : St → List Op → Prop
  | st, [] => consistent st.props = true
  | st, op :: ops => consistent st.props = true ∧ AllConsistent E L cfg (step E L cfg st op).st ops

instance AllConsistent.dec (E : Ext) (L : Variant) (cfg : Cfg) :
    ∀ (st : St) (ops : List Op), Decidable (AllConsistent E L cfg st ops)
  | st, [] => inferInstanceAs (Decidable (consistent st.props = true))
  | st, op :: ops =>
    have := AllConsistent.dec E L cfg (step E L cfg st op).st ops
    inferInstanceAs (Decidable (consistent st.props = true ∧ _))

/-- no override / configure in the history (the property set stays the declared one) -/
def noOverride : List Op → Bool
  | [] => true
  | .override _ _ :: _ => false
  | .configure _ _ _ :: _ => false
  | _ :: ops => noOverride ops

end Hap.Char
