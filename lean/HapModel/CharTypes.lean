/-
  Value / number / property-set types of the Characteristic layer (pyhap/characteristic.py).
  No Mathlib import: loaded by the line-protocol driver.

  Python values that can reach a characteristic are modelled by `Val`; the distinction between
  `int`, `float` and `bool` is kept (it is observable through `str()`, `int()` and JSON), while
  all comparisons are Python's numeric comparisons (`1 == 1.0 == True`).  Floats are exact
  rationals or one of the three IEEE specials; the sign of zero is not modelled.
-/
namespace Hap.Char

/-- A Python `float` (or the numeric value of an `int`/`bool`). -/
inductive Num where
  | fin (q : Rat)
  | posInf
  | negInf
  | nan
  deriving DecidableEq, Repr

namespace Num

/-- Python `a < b` on floats / ints (exact; every comparison with NaN is false). -/
def lt : Num → Num → Bool
  | .nan, _ => false
  | _, .nan => false
  | .fin a, .fin b => decide (a < b)
  | .fin _, .posInf => true
  | .fin _, .negInf => false
  | .posInf, _ => false
  | .negInf, .negInf => false
  | .negInf, _ => true

/-- Python `a <= b`. -/
def le : Num → Num → Bool
  | .nan, _ => false
  | _, .nan => false
  | .fin a, .fin b => decide (a ≤ b)
  | .fin _, .posInf => true
  | .fin _, .negInf => false
  | .posInf, .posInf => true
  | .posInf, _ => false
  | .negInf, _ => true

/-- Python `a == b` (NaN differs from everything, itself included). -/
def eq : Num → Num → Bool
  | .nan, _ => false
  | _, .nan => false
  | a, b => decide (a = b)

def isFin : Num → Bool
  | .fin _ => true
  | _ => false

/-- the value is a finite integer -/
def isIntegral : Num → Bool
  | .fin q => decide (q.den = 1)
  | _ => false

end Num

/-- Exception classes that can escape the modelled functions. -/
inductive Exn where
  | valueError
  | overflowError
  | typeError
  | other
  deriving DecidableEq, Repr

/-- A Python number whose class (`int` or `float`) is known: result type of the step-rounding
    expression. -/
inductive PNum where
  | int (i : Int)
  | float (x : Num)
  deriving DecidableEq, Repr

/-- A Python value handed to / stored in a characteristic.  `other` stands for lists and dicts
    (identified by their `str()`, with their truthiness). -/
inductive Val where
  | int (i : Int)
  | float (x : Num)
  | bool (b : Bool)
  | str (s : List Char)
  | null
  | other (repr : List Char) (truthy : Bool)
  deriving DecidableEq, Repr

def PNum.toVal : PNum → Val
  | .int i => .int i
  | .float x => .float x

namespace Val

/-- numeric value when `isinstance(v, (int, float))` (bool is an int) -/
def num : Val → Option Num
  | .int i => some (.fin i)
  | .float x => some x
  | .bool b => some (.fin (if b then 1 else 0))
  | _ => none

/-- `isinstance(v, (int, float))` -/
def isNumeric (v : Val) : Bool := v.num.isSome

/-- Python truthiness (`if v`, `bool(v)`). -/
def truthy : Val → Bool
  | .int i => decide (i ≠ 0)
  | .float x => decide (x ≠ .fin 0)
  | .bool b => b
  | .str s => !s.isEmpty
  | .null => false
  | .other _ t => t

/-- `a < b` (only used on numeric operands; anything else compares false). -/
def lt (a b : Val) : Bool :=
  match a.num, b.num with
  | some x, some y => x.lt y
  | _, _ => false

/-- `a <= b` on numeric operands. -/
def le (a b : Val) : Bool :=
  match a.num, b.num with
  | some x, some y => x.le y
  | _, _ => false

/-- Python `a == b`. -/
def pyEq (a b : Val) : Bool :=
  match a.num, b.num with
  | some x, some y => x.eq y
  | none, none => decide (a = b)
  | _, _ => false

/-- Python `min(a, b)`: `a` unless `b < a`. -/
def pyMin (a b : Val) : Val := if lt b a then b else a

/-- Python `max(a, b)`: `a` unless `b > a`. -/
def pyMax (a b : Val) : Val := if lt a b then b else a

/-- `v in dict.values()` for a dict of ints (membership by `==`). -/
def memInts (v : Val) (vs : List Int) : Bool :=
  match v.num with
  | some x => vs.any fun i => x.eq (.fin i)
  | none => false

end Val

/-- `int(q)` truncates towards zero. -/
def truncRat (q : Rat) : Int := if 0 ≤ q then q.floor else q.ceil

/-- Python `int(v)` for a numeric `v`. -/
def toInt : Val → Except Exn Int
  | .int i => .ok i
  | .bool b => .ok (if b then 1 else 0)
  | .float (.fin q) => .ok (truncRat q)
  | .float .nan => .error .valueError
  | .float _ => .error .overflowError
  | _ => .error .typeError

/-- HAP formats (`HAP_FORMAT_*`). -/
inductive Fmt where
  | bool | int | float | string | array | dictionary
  | uint8 | uint16 | uint32 | uint64 | data | tlv8
  deriving DecidableEq, Repr

namespace Fmt

/-- `prop_format in HAP_FORMAT_NUMERICS` -/
def isNumeric : Fmt → Bool
  | .int | .float | .uint8 | .uint16 | .uint32 | .uint64 => true
  | _ => false

/-- numeric and not float: the result goes through `int()` -/
def isInteger : Fmt → Bool
  | .int | .uint8 | .uint16 | .uint32 | .uint64 => true
  | _ => false

end Fmt

/-- The part of `Characteristic._properties` that matters for values. -/
structure Props where
  fmt : Fmt
  minV : Option Val := none
  maxV : Option Val := none
  minStep : Option Val := none
  /-- `ValidValues` dict values in dict order (`[]`: key absent or empty dict, both falsy) -/
  vv : List Int := []
  maxLen : Option Nat := none
  /-- `"pr" in Permissions` -/
  readable : Bool := true
  deriving DecidableEq, Repr

/-- Per-characteristic configuration that is not part of the property dict. -/
structure Cfg where
  /-- `type_id in ALWAYS_NULL` -/
  alwaysNull : Bool := false
  allowInvalid : Bool := false
  deriving DecidableEq, Repr

/-- One shipped definition (row of characteristics.json). -/
structure Def where
  name : String
  props : Props
  alwaysNull : Bool
  deriving Repr

end Hap.Char
