/-
  Model of the attribute database: pyhap/characteristic.py (the representation caches and
  every mutator's invalidation, `to_HAP`, `get_value`), pyhap/service.py (`add_characteristic`,
  `to_HAP`), pyhap/accessory.py (`Accessory.add_service / to_HAP / get_characteristic / publish`,
  `Bridge.add_accessory / to_HAP / get_characteristic`), pyhap/accessory_driver.py
  (`get_accessories`, `get_characteristics`, the resolution step of `set_characteristics`) and
  the 200/207 selection of `HAPServerHandler.handle_get_characteristics`.

  Conventions
  * Objects (services, characteristics) are opaque identities `Nat`, allocated fresh
    (`Db.nextObj`); a characteristic's mutable state lives where the object sits in the
    structure, so "reaching the object" = reaching that identity.
  * `V` = value type, `P` = properties-dict type.  Value validation (`to_valid_value`,
    `valid_value_or_raise`, checked under C09) and the application's getter callbacks are
    *parameters*: every operation carries the outcome of the validation / of the getter call
    (`none` = it raised), and the theorems hold for all outcomes.
  * `PropsLike.readable p` = `"pr" in p["Permissions"]`.
  * `default : V` is Python's `None` (used by `_always_null` characteristics).
-/
import HapModel.Iid
namespace Hap.Db
open Hap

class PropsLike (P : Type) where
  readable : P → Bool

/-- what `Characteristic.to_HAP` returns.  Everything derived from the properties dict
    (perms, format, numeric members, valid-values, maxLen) is a function of `props`, so the
    snapshot of `props` stands for those members. `desc = none`: no `description` member;
    `value = none`: no `value` member. -/
structure CharRep (V P : Type) where
  iid : Option Nat
  typ : String
  props : P
  desc : Option (Option String)
  value : Option V
  deriving DecidableEq

/-- `Characteristic` -/
structure Char (V P : Type) where
  obj : Nat
  typ : String
  props : P
  loaderName : Option String
  display : Option String
  value : V
  alwaysNull : Bool
  /-- `getter_callback` is set (what it returns is a parameter of each read) -/
  getter : Bool
  /-- `_to_hap_cache_with_value` -/
  cacheV : Option (CharRep V P)
  /-- `_to_hap_cache` -/
  cacheN : Option (CharRep V P)

namespace Char
variable {V P : Type} [PropsLike P] [Inhabited V]

/-- `_clear_cache` -/
def clearCache (c : Char V P) : Char V P := { c with cacheV := none, cacheN := none }

/-- the `value` property setter: `self._value = value; self._clear_cache()` -/
def setVal (c : Char V P) (v : V) : Char V P := clearCache { c with value := v }

/-- the `display_name` property setter -/
def setDisplay (c : Char V P) (n : Option String) : Char V P := clearCache { c with display := n }

/-- plain attribute assignment `char.getter_callback = f` / `= None` (no invalidation) -/
def setGetter (c : Char V P) (b : Bool) : Char V P := { c with getter := b }

/-- `set_value(value)`: `vres` = outcome of `to_valid_value` + `valid_value_or_raise`
    (`none` = ValueError before any assignment). -/
def setValue (c : Char V P) (vres : Option V) : Char V P :=
  match vres with
  | none => c
  | some v =>
    let c := c.setVal v
    if c.alwaysNull then c.setVal default else c

/-- `client_update_value(value)`: validation outcome `vres`; `cbRaises` = the setter callback
    raised (after the value was stored; the always-null reset is then skipped). -/
def clientUpdate (c : Char V P) (vres : Option V) (cbRaises : Bool) : Char V P :=
  match vres with
  | none => c
  | some v =>
    let c := c.setVal v
    if cbRaises then c else if c.alwaysNull then c.setVal default else c

/-- outcome parameters of `override_properties` -/
inductive Override (V P : Type) where
  /-- neither argument given: ValueError before anything happens -/
  | noArgs
  /-- `_validate_properties` raised (after `_clear_cache()`, before any update) -/
  | invalid
  /-- the dict updates `upd`, then the re-validation stored `newVal`
      (`none` = it raised something other than ValueError: value left as it was) -/
  | done (upd : P → P) (newVal : Option V)

/-- `override_properties` -/
def overrideProps (c : Char V P) : Override V P → Char V P
  | .noArgs => c
  | .invalid => c.clearCache
  | .done upd nv =>
    let c := { c.clearCache with props := upd c.props }
    match nv with
    | none => c
    | some v => c.setVal v

/-- the `description` member: present unless the name is still the loader's -/
def descOf (c : Char V P) : Option (Option String) :=
  match c.loaderName with
  | none => some c.display
  | some l => if l = "" ∨ some l ≠ c.display then some c.display else none

/-- the representation without a `value` member -/
def baseRep (c : Char V P) (iid : Option Nat) : CharRep V P :=
  { iid := iid, typ := c.typ, props := c.props, desc := c.descOf, value := none }

/-- `get_value()`; `gout` = outcome of `to_valid_value(getter_callback())` followed by
    `valid_value_or_raise` (`none` = the callback, the conversion or the valid-values check raised).
    With a getter the result is written through the `value` setter (clearing the caches). -/
def getValue (c : Char V P) (gout : Option V) : Option V × Char V P :=
  if c.getter then
    match gout with
    | none => (none, c)
    | some v => (some v, c.setVal v)
  else (some c.value, c)

/-- the body of `to_HAP` after the cache tests.
    (The guard added for C20 — drop the with-value cache again when `hap_rep["value"] is not
    self._value` — never fires in a single-threaded history: the rendered value *is* the object
    `get_value()` returned, i.e. `self._value`; the threaded window is C20's subject.) -/
def build (c : Char V P) (iid : Option Nat) (incl : Bool) (gout : Option V) :
    Option (CharRep V P) × Char V P :=
  let rep := c.baseRep iid
  if incl && PropsLike.readable c.props then
    match c.getValue gout with
    | (none, c') => (none, c')
    | (some v, c') =>
      let rep := { rep with value := some v }
      if c'.getter then (some rep, c') else (some rep, { c' with cacheV := some rep })
  else if !incl then (some rep, { c with cacheN := some rep })
  else if c.getter then (some rep, c)
  else (some rep, { c with cacheV := some rep })

/-- `Characteristic.to_HAP(include_value)` with its two caches; `iid` is what
    `self.broker.iid_manager.get_iid(self)` returns. Result `none` = an exception escaped. -/
def toHap (c : Char V P) (iid : Option Nat) (incl : Bool) (gout : Option V) :
    Option (CharRep V P) × Char V P :=
  if incl then
    match c.cacheV with
    | some r => if c.getter then c.build iid incl gout else (some r, c)
    | none => c.build iid incl gout
  else
    match c.cacheN with
    | some r => (some r, c)
    | none => c.build iid incl gout

/-- from-scratch rendering of the current state: never looks at a cache field -/
def toHapFresh (c : Char V P) (iid : Option Nat) (incl : Bool) (gout : Option V) :
    Option (CharRep V P) × Char V P :=
  let rep := c.baseRep iid
  if incl && PropsLike.readable c.props then
    match c.getValue gout with
    | (none, c') => (none, c')
    | (some v, c') => (some { rep with value := some v }, c')
  else (some rep, c)

/-- the rendering of the stored state with a value member -/
def repV (c : Char V P) (iid : Option Nat) : CharRep V P :=
  { c.baseRep iid with value := if PropsLike.readable c.props then some c.value else none }

/-- each cache field is empty or equals the from-scratch rendering of the current state -/
def CacheOk (c : Char V P) (iid : Option Nat) : Prop :=
  (c.cacheN = none ∨ c.cacheN = some (c.baseRep iid)) ∧
  (c.cacheV = none ∨ c.cacheV = some (c.repV iid))

end Char

/-- `Service` -/
structure Service (V P : Type) where
  obj : Nat
  typ : String
  chars : List (Char V P)
  primary : Option Bool
  /-- `linked_services`: the linked service objects, in the order they were linked -/
  linked : List Nat := []

structure SvcRep (V P : Type) where
  iid : Option Nat
  typ : String
  chars : List (CharRep V P)
  primary : Option Bool
  /-- the `linked` member: the current iids of the linked services (`[]` = no such member) -/
  linked : List (Option Nat) := []
  deriving DecidableEq

/-- `Accessory` (a bridged one, or the top-level one) -/
structure Accessory (V P : Type) where
  aid : Option Nat
  services : List (Service V P)
  iidm : Iid
  available : Bool

structure AccRep (V P : Type) where
  aid : Option Nat
  services : List (SvcRep V P)
  deriving DecidableEq

/-- The driver's accessory: `main` (aid 1, a `Bridge` iff `isBridge`) and the bridge's
    `accessories` dict in insertion order. -/
structure Db (V P : Type) where
  main : Accessory V P
  isBridge : Bool
  bridged : List (Nat × Accessory V P)
  nextObj : Nat

/-- a list comprehension whose body may raise: effects on the elements visited so far stay -/
def traverse {α β : Type} (f : α → Option β × α) : List α → Option (List β) × List α
  | [] => (some [], [])
  | a :: as =>
    match f a with
    | (none, a') => (none, a' :: as)
    | (some b, a') =>
      match traverse f as with
      | (none, as') => (none, a' :: as')
      | (some bs, as') => (some (b :: bs), a' :: as')

/-- the characteristic-level rendering function used by a rendering pass -/
abbrev CharFn (V P : Type) := Char V P → Option Nat → Bool → Option V → Option (CharRep V P) × Char V P

section render
variable {V P : Type} [PropsLike P] [Inhabited V]

/-- `Service.to_HAP` (not cached) -/
def Service.toHap (cf : CharFn V P) (iids : Nat → Option Nat) (incl : Bool) (g : Nat → Option V)
    (sv : Service V P) : Option (SvcRep V P) × Service V P :=
  match traverse (fun c => cf c (iids c.obj) incl (g c.obj)) sv.chars with
  | (none, cs) => (none, { sv with chars := cs })
  | (some rs, cs) =>
    (some { iid := iids sv.obj, typ := sv.typ, chars := rs, primary := sv.primary,
            linked := sv.linked.map iids }, { sv with chars := cs })

/-- `Accessory.to_HAP` (not cached) -/
def Accessory.toHap (cf : CharFn V P) (incl : Bool) (g : Nat → Option V) (a : Accessory V P) :
    Option (AccRep V P) × Accessory V P :=
  match traverse (Service.toHap cf a.iidm.iids incl g) a.services with
  | (none, ss) => (none, { a with services := ss })
  | (some rs, ss) => (some { aid := a.aid, services := rs }, { a with services := ss })

/-- `AccessoryDriver.get_accessories` = `Bridge.to_HAP` / `[Accessory.to_HAP]`:
    the top-level accessory first, then the bridged ones in dict order.
    `g o` = outcome of the getter of characteristic object `o` during this request. -/
def Db.renderWith (cf : CharFn V P) (s : Db V P) (incl : Bool) (g : Nat → Option V) :
    Option (List (AccRep V P)) × Db V P :=
  match Accessory.toHap cf incl g s.main with
  | (none, m) => (none, { s with main := m })
  | (some r, m) =>
    match traverse (fun ka : Nat × Accessory V P =>
        match Accessory.toHap cf incl g ka.2 with
        | (r, a) => (r, (ka.1, a))) s.bridged with
    | (none, b) => (none, { s with main := m, bridged := b })
    | (some rs, b) => (some (r :: rs), { s with main := m, bridged := b })

/-- what the code does: rendering through the caches -/
def Db.renderCached (s : Db V P) := s.renderWith Char.toHap
/-- from-scratch rendering of the current state -/
def Db.render (s : Db V P) := s.renderWith Char.toHapFresh

/-! ### locating and mutating characteristic objects -/

def Service.modChar (sv : Service V P) (o : Nat) (f : Char V P → Char V P) : Service V P :=
  { sv with chars := sv.chars.map (fun c => if c.obj = o then f c else c) }

def Accessory.modChar (a : Accessory V P) (o : Nat) (f : Char V P → Char V P) : Accessory V P :=
  { a with services := a.services.map (fun sv => sv.modChar o f) }

def Accessory.chars (a : Accessory V P) : List (Char V P) := a.services.flatMap (·.chars)

def Accessory.findChar (a : Accessory V P) (o : Nat) : Option (Char V P) :=
  a.chars.find? (fun c => c.obj == o)

def Db.mapAccs (s : Db V P) (f : Accessory V P → Accessory V P) : Db V P :=
  { s with main := f s.main, bridged := s.bridged.map (fun ka => (ka.1, f ka.2)) }

/-- every accessory: the top-level one, then the bridged ones -/
def Db.accList (s : Db V P) : List (Accessory V P) := s.main :: s.bridged.map (·.2)

/-- apply a mutator to characteristic object `o` wherever it sits -/
def Db.modChar (s : Db V P) (o : Nat) (f : Char V P → Char V P) : Db V P :=
  s.mapAccs (fun a => a.modChar o f)

/-- `dict.get` on the bridge's `accessories` -/
def lookup {α : Type} (k : Nat) : List (Nat × α) → Option α
  | [] => none
  | (k', a) :: rest => if k' = k then some a else lookup k rest

def Db.setBridged (s : Db V P) (aid : Nat) (a : Accessory V P) : Db V P :=
  { s with bridged := s.bridged.map (fun ka => if ka.1 = aid then (ka.1, a) else ka) }

/-! ### the read path: `get_characteristics` + the handler's 200/207 selection -/

def SUCCESS : Int := 0
def COMM_FAILURE : Int := -70402
def STANDALONE_AID : Nat := 1

/-- one entry of the `characteristics` list of a read response -/
structure Entry (V : Type) where
  aid : Nat
  iid : Nat
  status : Option Int
  value : Option V

/-- `char = acc.iid_manager.get_obj(iid); char.get_value()`; `none` = an exception
    (`None`/a `Service` has no `get_value`, or the getter / validation raised).
    An identity that is no characteristic of this accessory's structure counts as "not a
    characteristic" (fresh-object histories never produce another case). -/
def Accessory.read (a : Accessory V P) (iid : Nat) (gout : Option V) : Option V × Accessory V P :=
  match a.iidm.getObj iid with
  | none => (none, a)
  | some o =>
    match a.findChar o with
    | none => (none, a)
    | some c => ((c.getValue gout).1, a.modChar o (fun c => (c.getValue gout).2))

def okEntry {V : Type} (aid iid : Nat) (v : V) : Entry V := ⟨aid, iid, some SUCCESS, some v⟩
def failEntry {V : Type} (aid iid : Nat) : Entry V := ⟨aid, iid, some COMM_FAILURE, none⟩

/-- one iteration of the loop in `get_characteristics`; `none` = `continue` (no entry) -/
def Db.readOne (s : Db V P) (aid iid : Nat) (gout : Option V) : Option (Entry V) × Db V P :=
  if aid = STANDALONE_AID then
    match s.main.read iid gout with
    | (some v, m) => (some (okEntry aid iid v), { s with main := m })
    | (none, m) => (some (failEntry aid iid), { s with main := m })
  else if !s.isBridge then
    -- `self.accessory.accessories` on a plain Accessory: AttributeError, caught, entry kept
    (some (failEntry aid iid), s)
  else
    match lookup aid s.bridged with
    | none => (none, s)
    | some a =>
      if !a.available then (some (failEntry aid iid), s)
      else
        match a.read iid gout with
        | (some v, a') => (some (okEntry aid iid v), s.setBridged aid a')
        | (none, a') => (some (failEntry aid iid), s.setBridged aid a')

/-- `AccessoryDriver.get_characteristics(ids)`; `g k` = outcome of the getter consulted for
    the `k`-th requested id. -/
def Db.getChars (s : Db V P) (g : Nat → Option V) : List (Nat × Nat) → Nat → List (Entry V) × Db V P
  | [], _ => ([], s)
  | (aid, iid) :: rest, k =>
    match s.readOne aid iid (g k) with
    | (e, s1) =>
      match Db.getChars s1 g rest (k + 1) with
      | (es, s2) => ((match e with | none => es | some e => e :: es), s2)

structure ReadResp (V : Type) where
  code : Nat
  entries : List (Entry V)

/-- `handle_get_characteristics`: 207 and the entries as they are if any status is not
    SUCCESS, else 200 and the status members deleted -/
def selectStatus {V : Type} (es : List (Entry V)) : ReadResp V :=
  if es.any (fun e => e.status != some SUCCESS) then ⟨207, es⟩
  else ⟨200, es.map (fun e => { e with status := none })⟩

def Db.handleGet (s : Db V P) (ids : List (Nat × Nat)) (g : Nat → Option V) : ReadResp V × Db V P :=
  match s.getChars g ids 0 with
  | (es, s') => (selectStatus es, s')

/-! ### resolution paths (C17) -/

/-- the object reached by a read: `get_characteristics` -/
def Db.resolveRead (s : Db V P) (aid iid : Nat) : Option Nat :=
  if aid = STANDALONE_AID then s.main.iidm.getObj iid
  else if !s.isBridge then none
  else (lookup aid s.bridged).bind (fun a => a.iidm.getObj iid)

/-- `Accessory.get_characteristic(aid, iid)` -/
def Accessory.getCharacteristic (a : Accessory V P) (aid iid : Nat) : Option Nat :=
  if a.aid ≠ some aid then none else a.iidm.getObj iid

/-- the object reached by a write: `set_characteristics` → `acc.get_characteristic(aid, iid)`
    (`Bridge.get_characteristic` for the top-level bridge) -/
def Db.resolveWrite (s : Db V P) (aid iid : Nat) : Option Nat :=
  if s.main.aid = some aid then
    -- acc = primary accessory; both get_characteristic variants answer from its manager
    s.main.iidm.getObj iid
  else if !s.isBridge then none
  else (lookup aid s.bridged).bind (fun a => a.getCharacteristic aid iid)

def Service.objList (sv : Service V P) : List Nat := sv.obj :: sv.chars.map (·.obj)
def Accessory.objList (a : Accessory V P) : List Nat := a.services.flatMap Service.objList

/-- `Accessory.publish(value, sender)`: the (aid, iid) an event for object `o` carries
    (`sender.broker` is the accessory whose structure holds `o`) -/
def Db.eventId (s : Db V P) (o : Nat) : Option (Option Nat × Option Nat) :=
  (s.accList.find? (fun a => a.objList.contains o)).map (fun a => (a.aid, a.iidm.getIid o))

/-! ### construction (C17) -/

/-- what the loader knows about a characteristic / service -/
structure CharDef (V P : Type) where
  typ : String
  props : P
  name : Option String
  value : V
  alwaysNull : Bool

structure SvcDef (V P : Type) where
  typ : String
  chars : List (CharDef V P)

/-- `Service.add_characteristic` on definitions: a characteristic whose type is already
    present is dropped -/
def addCharDef (kept : List (CharDef V P)) (d : CharDef V P) : List (CharDef V P) :=
  if kept.any (fun k => k.typ == d.typ) then kept else kept ++ [d]

def keptDefs (ds : List (CharDef V P)) : List (CharDef V P) := ds.foldl addCharDef []

def mkChar (o : Nat) (d : CharDef V P) : Char V P :=
  { obj := o, typ := d.typ, props := d.props, loaderName := d.name, display := d.name,
    value := d.value, alwaysNull := d.alwaysNull, getter := false, cacheV := none, cacheN := none }

def numberFrom : Nat → List (CharDef V P) → List (Char V P)
  | _, [] => []
  | o, d :: ds => mkChar o d :: numberFrom (o + 1) ds

/-- a fresh service object `o` with fresh characteristic objects `o+1 …` -/
def mkService (o : Nat) (d : SvcDef V P) : Service V P :=
  { obj := o, typ := d.typ, chars := numberFrom (o + 1) (keptDefs d.chars), primary := none }

/-- `Accessory.add_service(s)`: append, assign the service, then each characteristic -/
def Accessory.addService (a : Accessory V P) (sv : Service V P) : Accessory V P :=
  { a with services := a.services ++ [sv],
           iidm := (sv.chars.map (·.obj)).foldl Iid.assign (a.iidm.assign sv.obj) }

/-- a new accessory with the given services added in order, objects numbered from `o`;
    returns the next free object number -/
def mkAccessory (aid : Option Nat) : Nat → List (SvcDef V P) → Accessory V P → Accessory V P × Nat
  | o, [], a => ({ a with aid := aid }, o)
  | o, d :: ds, a =>
    let sv := mkService o d
    mkAccessory aid (o + 1 + sv.chars.length) ds (a.addService sv)

def emptyAccessory : Accessory V P := { aid := none, services := [], iidm := Iid.empty, available := true }

/-- `next(aid for aid in itertools.count(2) if aid != 7 and aid not in self.accessories)`
    as a bounded search (`findAid_spec` shows the bound is never reached) -/
def findAidFrom (keys : List Nat) : Nat → Nat → Option Nat
  | _, 0 => none
  | a, fuel + 1 => if a ≠ 7 ∧ ¬ a ∈ keys then some a else findAidFrom keys (a + 1) fuel

def findAid (keys : List Nat) : Option Nat := findAidFrom keys 2 (keys.length + 2)

inductive Res where
  /-- the call returned (with the assigned aid / the removed iid / object, when it has one) -/
  | ok (n : Option Nat)
  | valueError
  | keyError
  /-- the script named an accessory that does not exist (not a pyhap behaviour) -/
  | badTarget
  deriving Repr, DecidableEq

def Db.keys (s : Db V P) : List Nat := s.bridged.map (·.1)

/-- `Bridge.add_accessory(acc)` for a fresh accessory built from `defs`
    (`aid = none`: automatic assignment; `catBridge`: the new accessory is itself a bridge) -/
def Db.addAccessory (s : Db V P) (aid : Option Nat) (catBridge : Bool) (defs : List (SvcDef V P)) :
    Db V P × Res :=
  if !s.isBridge then (s, .badTarget)
  else if catBridge then (s, .valueError)
  else
    let (acc, next) := mkAccessory aid s.nextObj defs emptyAccessory
    match aid with
    | none =>
      match findAid s.keys with
      | none => (s, .badTarget)
      | some k => ({ s with bridged := s.bridged ++ [(k, { acc with aid := some k })], nextObj := next }, .ok (some k))
    | some k =>
      if some k = s.main.aid ∨ k ∈ s.keys then (s, .valueError)
      else ({ s with bridged := s.bridged ++ [(k, acc)], nextObj := next }, .ok (some k))

/-- `bridge.accessories.pop(aid, None)` -/
def Db.removeAccessory (s : Db V P) (aid : Nat) : Db V P :=
  { s with bridged := s.bridged.filter (fun ka => ka.1 ≠ aid) }

/-- apply `f` to the accessory a script names (1 = top level) -/
def Db.onAcc (s : Db V P) (aid : Nat) (f : Accessory V P → Option (Accessory V P × Res)) : Db V P × Res :=
  if aid = STANDALONE_AID then
    match f s.main with
    | none => (s, .keyError)
    | some (m, r) => ({ s with main := m }, r)
  else
    match lookup aid s.bridged with
    | none => (s, .badTarget)
    | some a =>
      match f a with
      | none => (s, .keyError)
      | some (a', r) => (s.setBridged aid a', r)

/-- The repaired `IIDManager.assign / remove_obj / remove_iid` drop the cached representations
    of the object whose iid changes (a characteristic's cached `to_HAP` dict contains its iid).
    The code does so only when the maps really change; dropping a valid cache is not observable,
    so the model drops unconditionally.  An object that is no characteristic of this accessory's
    structure has no rendering under this manager: nothing to drop. -/
def Accessory.forget (a : Accessory V P) (o : Nat) : Accessory V P := a.modChar o Char.clearCache

def Accessory.forget? (a : Accessory V P) : Option Nat → Accessory V P
  | none => a
  | some o => a.forget o

inductive Op (V P : Type) where
  /-- `acc.add_service(<fresh service>)` on accessory `aid` -/
  | addService (aid : Nat) (d : SvcDef V P)
  /-- build a fresh accessory (explicit or automatic aid) and `bridge.add_accessory` it -/
  | addAccessory (aid : Option Nat) (catBridge : Bool) (defs : List (SvcDef V P))
  | removeAccessory (aid : Nat)
  | assign (aid : Nat) (o : Nat)
  | removeObj (aid : Nat) (o : Nat)
  | removeIid (aid : Nat) (i : Nat)

def Db.step (s : Db V P) : Op V P → Db V P × Res
  | .addService aid d =>
    let sv := mkService s.nextObj d
    match s.onAcc aid (fun a => some (a.addService sv, .ok none)) with
    | (s', .ok n) => ({ s' with nextObj := s.nextObj + 1 + sv.chars.length }, .ok n)
    | (_, r) => (s, r)
  | .addAccessory aid cb defs => s.addAccessory aid cb defs
  | .removeAccessory aid => (s.removeAccessory aid, .ok none)
  | .assign aid o =>
    s.onAcc aid (fun a => some (({ a with iidm := a.iidm.assign o } : Accessory V P).forget o, .ok none))
  | .removeObj aid o =>
    s.onAcc aid (fun a => (a.iidm.removeObj o).map
      (fun mr => (({ a with iidm := mr.1 } : Accessory V P).forget o, .ok mr.2)))
  | .removeIid aid i =>
    s.onAcc aid (fun a => (a.iidm.removeIid i).map
      (fun mr => (({ a with iidm := mr.1 } : Accessory V P).forget? mr.2, .ok mr.2)))

def Db.run (s : Db V P) : List (Op V P) → Db V P
  | [] => s
  | op :: rest => Db.run (s.step op).1 rest

/-- construction histories with reads in between: GET /accessories through the caches -/
inductive Op17 (V P : Type) where
  | con (op : Op V P)
  | read (incl : Bool) (g : Nat → Option V)

def Db.step17 (s : Db V P) : Op17 V P → Db V P
  | .con op => (s.step op).1
  | .read incl g => (s.renderCached incl g).2

def Db.run17 (s : Db V P) : List (Op17 V P) → Db V P
  | [] => s
  | op :: rest => Db.run17 (s.step17 op) rest

/-- the driver's top-level accessory right after construction: `defs` are its services
    (`AccessoryInformation`, `HAPProtocolInformation`, then the application's) -/
def Db.init (isBridge : Bool) (defs : List (SvcDef V P)) : Db V P :=
  let (m, next) := mkAccessory (some STANDALONE_AID) 0 defs emptyAccessory
  { main := m, isBridge := isBridge, bridged := [], nextObj := next }

/-- (aid, iid, object) for every service and characteristic in structure order -/
def Accessory.listing (a : Accessory V P) : List ((Option Nat × Option Nat) × Nat) :=
  a.objList.map (fun o => ((a.aid, a.iidm.getIid o), o))

def Db.listing (s : Db V P) : List ((Option Nat × Option Nat) × Nat) :=
  s.accList.flatMap Accessory.listing

/-- the (aid, iid) pairs of a rendering, services and characteristics, in order -/
def AccRep.pairs (r : AccRep V P) : List (Option Nat × Option Nat) :=
  r.services.flatMap (fun sv => (r.aid, sv.iid) :: sv.chars.map (fun c => (r.aid, c.iid)))

end render

/-! ### C11 histories -/

section c11
variable {V P : Type} [PropsLike P] [Inhabited V]

/-- `set_primary_service`: every service's flag := (its type = the chosen type) -/
def Accessory.setPrimary (a : Accessory V P) (typ : String) : Accessory V P :=
  { a with services := a.services.map (fun sv => { sv with primary := some (sv.typ == typ) }) }

/-- `svc.add_linked_service(other)` for two services of this accessory: `other` is appended
    unless a service with the same iid (under this accessory's manager) is already linked -/
def Accessory.addLinked (a : Accessory V P) (svc other : Nat) : Accessory V P :=
  { a with services := a.services.map (fun sv =>
      if sv.obj = svc then
        if sv.linked.any (fun l => a.iidm.getIid l == a.iidm.getIid other) then sv
        else { sv with linked := sv.linked ++ [other] }
      else sv) }

/-- apply `f` to the accessory a script names (1 = top level, else the bridge's dict key) -/
def Db.modAcc (s : Db V P) (aid : Nat) (f : Accessory V P → Accessory V P) : Db V P :=
  if aid = STANDALONE_AID then { s with main := f s.main }
  else { s with bridged := s.bridged.map (fun ka => if ka.1 = aid then (ka.1, f ka.2) else ka) }

inductive Op11 (V P : Type) where
  | setValue (o : Nat) (vres : Option V)
  /-- plain assignment through the public `value` property: `char.value = v` (no validation) -/
  | assignValue (o : Nat) (v : V)
  | clientUpdate (o : Nat) (vres : Option V) (cbRaises : Bool)
  | overrideProps (o : Nat) (ov : Char.Override V P)
  | setDisplay (o : Nat) (n : Option String)
  | setGetter (o : Nat) (b : Bool)
  | setAvailable (aid : Nat) (b : Bool)
  /-- `acc.set_primary_service(svc)` with a service of type `typ` -/
  | setPrimary (aid : Nat) (typ : String)
  /-- `svc.add_linked_service(other)`, both services of accessory `aid` -/
  | addLinked (aid : Nat) (svc other : Nat)
  /-- GET /accessories (`get_accessories(include_value)`) -/
  | readAll (incl : Bool) (g : Nat → Option V)
  /-- GET /characteristics?id=… -/
  | readChars (ids : List (Nat × Nat)) (g : Nat → Option V)

inductive Out11 (V P : Type) where
  | none
  | accessories (r : Option (List (AccRep V P)))
  | chars (r : ReadResp V)

def Db.step11 (s : Db V P) : Op11 V P → Db V P × Out11 V P
  | .setValue o vres => (s.modChar o (·.setValue vres), .none)
  | .assignValue o v => (s.modChar o (·.setVal v), .none)
  | .clientUpdate o vres cb => (s.modChar o (·.clientUpdate vres cb), .none)
  | .overrideProps o ov => (s.modChar o (·.overrideProps ov), .none)
  | .setDisplay o n => (s.modChar o (·.setDisplay n), .none)
  | .setGetter o b => (s.modChar o (·.setGetter b), .none)
  | .setAvailable aid b => (s.modAcc aid (fun a => { a with available := b }), .none)
  | .setPrimary aid typ => (s.modAcc aid (·.setPrimary typ), .none)
  | .addLinked aid svc other => (s.modAcc aid (·.addLinked svc other), .none)
  | .readAll incl g => match s.renderCached incl g with | (r, s') => (s', .accessories r)
  | .readChars ids g => match s.handleGet ids g with | (r, s') => (s', .chars r)

def Db.run11 (s : Db V P) : List (Op11 V P) → Db V P
  | [] => s
  | op :: rest => Db.run11 (s.step11 op).1 rest

/-! ### the read specification: what a characteristic read must answer, as a pure function of
    the state in which the request arrives (no cache, no state threaded from id to id) -/

/-- the accessory an aid names for a read: the top-level one for aid 1, else an entry of the
    bridge's dict (`none`: no such accessory, or the top-level accessory is no bridge) -/
def Db.accFor (s : Db V P) (aid : Nat) : Option (Accessory V P) :=
  if aid = STANDALONE_AID then some s.main
  else if !s.isBridge then none
  else lookup aid s.bridged

/-- the current value of the characteristic `iid` names in accessory `a`: the (validated) result
    of its getter callback when one is installed (`gout`; `none` = it raised), else the stored
    value; `none` when `iid` names no characteristic of the accessory -/
def Accessory.valueSpec (a : Accessory V P) (iid : Nat) (gout : Option V) : Option V :=
  match (a.iidm.getObj iid).bind a.findChar with
  | none => none
  | some c => if c.getter then gout else some c.value

def mkEntry {V : Type} (aid iid : Nat) : Option V → Entry V
  | some v => okEntry aid iid v
  | none => failEntry aid iid

/-- the entry a read of (aid, iid) must produce in state `s` (`none` = no entry) -/
def Db.entrySpec (s : Db V P) (aid iid : Nat) (gout : Option V) : Option (Entry V) :=
  if aid = STANDALONE_AID then some (mkEntry aid iid (s.main.valueSpec iid gout))
  else if !s.isBridge then some (failEntry aid iid)
  else
    match lookup aid s.bridged with
    | none => none
    | some a => if !a.available then some (failEntry aid iid) else some (mkEntry aid iid (a.valueSpec iid gout))

/-- the entries of a whole request: every id is judged against the SAME state `s` -/
def Db.readSpec (s : Db V P) (g : Nat → Option V) : List (Nat × Nat) → Nat → List (Entry V)
  | [], _ => []
  | (aid, iid) :: rest, k =>
    match s.entrySpec aid iid (g k) with
    | none => Db.readSpec s g rest (k + 1)
    | some e => e :: Db.readSpec s g rest (k + 1)

/-- what a from-scratch implementation answers to a read in state `s`: the rendering that never
    looks at a cache field, resp. the read specification above -/
def Db.freshOut (s : Db V P) : Op11 V P → Out11 V P
  | .readAll incl g => .accessories (s.render incl g).1
  | .readChars ids g => .chars (selectStatus (s.readSpec g ids 0))
  | _ => .none

/-! ### unified histories: construction, mutation and reads in any order -/

inductive OpU (V P : Type) where
  /-- a construction operation (C17's alphabet) -/
  | con (op : Op V P)
  /-- a value / metadata mutation or a read (C11's alphabet) -/
  | db (op : Op11 V P)

inductive OutU (V P : Type) where
  | res (r : Res)
  | out (o : Out11 V P)

def Db.stepU (s : Db V P) : OpU V P → Db V P × OutU V P
  | .con op => match s.step op with | (s', r) => (s', .res r)
  | .db op => match s.step11 op with | (s', o) => (s', .out o)

def Db.runU (s : Db V P) : List (OpU V P) → Db V P
  | [] => s
  | op :: rest => Db.runU (s.stepU op).1 rest

end c11
end Hap.Db
