/-
  Model of `HAPServerHandler.dispatch` (pyhap/hap_handler.py) with the per-handler privilege
  guards.  Serves C03 (unverified connections are refused) and C19 (no exception leaves dispatch).

  What is mirrored literally
  * the order of `dispatch`: fresh `HAPResponse()` (500), then — inside the protected region of the
    REPAIRED code — `request.target.decode()`, `request.method.decode()`, header decoding,
    `urlparse(self.path)`, `self.HANDLERS[self.command][path]`, the handler call; then
    `except UnprivilegedRequestException` (401 / -70401) and `except Exception` (500 / -70402);
  * `send_response_with_status`: overwrite status, *append* the JSON content type to whatever
    headers the handler had already added, replace the body; flags set on the response object
    before the exception (`task`, `shared_key`, `pairing_changed`) survive;
  * each handler = its *guard shape* (extracted from the source into `Gen/Routes.lean`) followed by
    an ARBITRARY body (`Params.body`), which may change the world, edit the response and raise.
  `dispatchLegacy` is the code before the repair (decoding and `urlparse` outside the `try`).

  External behaviour is a parameter (`Params`): `urlparse`, `State.is_admin`, the handler bodies.
  `decodeUtf8` (Python's strict UTF-8 `bytes.decode()`) is implemented concretely; a Python `str` is
  represented by its (valid) UTF-8 encoding.
  No Mathlib import: this file is loaded by the line-protocol drivers.
-/
import HapModel.Bytes
namespace Hap.Http
open Hap

/-- ASCII string literal as bytes (reduces in the kernel, unlike `String.toUTF8`). -/
def asc (s : String) : Bytes := s.toList.map (fun c => UInt8.ofNat c.toNat)

/-! ### routing table row (generated: `HapModel/Gen/Routes.lean`) -/

/-- The first effectful statement(s) of a handler method. -/
inductive Guard
  /-- anything else (also: whatever the extractor could not classify) -/
  | none
  /-- `if not self.is_encrypted: raise UnprivilegedRequestException` -/
  | raiseUnpriv
  /-- `if not self.is_encrypted: …; self.send_response(HTTPStatus.UNAUTHORIZED); return` -/
  | send401
  /-- `[assert self.client_uuid is not None]`
      `if not self.is_encrypted or not self.state.is_admin(self.client_uuid):`
      `    self._send_authentication_error_tlv_response(<seq>); return` -/
  | adminAuthErr (assertUuid : Bool) (seq : UInt8)
  deriving DecidableEq, Repr

structure Route where
  /-- "METHOD /path", for messages only -/
  name : String
  method : Bytes
  path : Bytes
  /-- name of the handler method -/
  handler : String
  guard : Guard
  /-- the handler (transitively, through `self.<method>()` calls) contains an assignment to
      `self.is_encrypted` -/
  setsVerified : Bool
  deriving DecidableEq, Repr

def PAIR_SETUP : Bytes := asc "/pair-setup"
def PAIR_VERIFY : Bytes := asc "/pair-verify"

/-- The two routes the property exempts. -/
def Route.exempt (r : Route) : Bool := r.path == PAIR_SETUP || r.path == PAIR_VERIFY

/-! ### Python exceptions (all subclasses of `Exception`) -/

inductive Exn
  | unprivileged      -- UnprivilegedRequestException
  | assertion         -- AssertionError
  | key               -- KeyError
  | value             -- ValueError
  | unicodeDecode     -- UnicodeDecodeError
  | attribute         -- AttributeError
  | type              -- TypeError
  | localProtocol     -- h11.LocalProtocolError (only where nothing catches it)
  | other (n : Nat)   -- any other subclass of Exception
  deriving DecidableEq, Repr

/-! ### strict UTF-8 (`bytes.decode()`), Unicode table 3-7 as an automaton -/

/-- state: 0 start; 1/2/5 = one/two/three generic continuation bytes to go;
    3 after E0; 4 after ED; 6 after F0; 7 after F4. -/
def utf8Step (st : Nat) (b : UInt8) : Option Nat :=
  let cont := 0x80 ≤ b && b ≤ 0xBF
  match st with
  | 0 =>
    if b ≤ 0x7F then some 0
    else if 0xC2 ≤ b && b ≤ 0xDF then some 1
    else if b == 0xE0 then some 3
    else if b == 0xED then some 4
    else if 0xE1 ≤ b && b ≤ 0xEF then some 2
    else if b == 0xF0 then some 6
    else if 0xF1 ≤ b && b ≤ 0xF3 then some 5
    else if b == 0xF4 then some 7
    else none
  | 1 => if cont then some 0 else none
  | 2 => if cont then some 1 else none
  | 3 => if 0xA0 ≤ b && b ≤ 0xBF then some 1 else none
  | 4 => if 0x80 ≤ b && b ≤ 0x9F then some 1 else none
  | 5 => if cont then some 2 else none
  | 6 => if 0x90 ≤ b && b ≤ 0xBF then some 2 else none
  | 7 => if 0x80 ≤ b && b ≤ 0x8F then some 2 else none
  | _ => none

def utf8Run : Nat → Bytes → Option Nat
  | st, [] => some st
  | st, b :: rest =>
    match utf8Step st b with
    | some st' => utf8Run st' rest
    | none => none

def validUtf8 (b : Bytes) : Bool := utf8Run 0 b == some 0

/-- `b.decode()`: the string (kept as its UTF-8 bytes) or `UnicodeDecodeError`. -/
def decodeUtf8 (b : Bytes) : Except Exn Bytes :=
  if validUtf8 b then .ok b else .error .unicodeDecode

/-! ### requests, responses, the world -/

/-- An `h11.Request` (only what `dispatch` reads). -/
structure Req where
  method : Bytes
  target : Bytes
  headers : List (Bytes × Bytes)
  deriving DecidableEq, Repr

/-- What a handler body can read of the request (`self.path`, `self.command`, `self.headers`,
    `self.request_body`, `self.parsed_url.path`). -/
structure ReqCtx where
  path : Bytes
  command : Bytes
  headers : List (Bytes × Bytes)
  body : Bytes
  urlPath : Bytes
  deriving DecidableEq, Repr

/-- `HAPResponse`. `task` = a delayed (snapshot) task is attached. -/
structure Resp where
  status : Nat := 500
  headers : List (String × String) := []
  body : Bytes := []
  task : Bool := false
  sharedKey : Bool := false
  pairingChanged : Bool := false
  /-- a remove-pairing request succeeded: sessions of controllers that are no longer paired
      are torn down after the response has been sent -/
  pairingRemoved : Bool := false
  deriving DecidableEq, Repr

/-- Everything a handler body can read or change: `st` = accessory values, topics, prepared
    writes, pairings, snapshot callbacks, SRP/verify contexts, other connections …; the two
    per-connection privilege fields are explicit. -/
structure World (σ : Type) where
  st : σ
  /-- `handler.is_encrypted` -/
  verified : Bool
  /-- `handler.client_uuid` -/
  clientUuid : Option Nat
  deriving DecidableEq

structure Params (σ : Type) where
  /-- `urlparse(path).path`, or the exception `urlparse` raises -/
  urlparse : Bytes → Except Exn Bytes
  /-- `self.state.is_admin(self.client_uuid)` -/
  isAdmin : σ → Option Nat → Bool
  /-- the statements of handler `name` after its guard: new world, the response object as the
      body left it, and the exception it raised (if any) -/
  body : String → World σ → ReqCtx → World σ × Resp × Option Exn

def CT_JSON : String × String := ("Content-Type", "application/hap+json")
def CT_TLV : String × String := ("Content-Type", "application/pairing+tlv8")
/-- `to_hap_json({"status": -70401})` -/
def JSON_INSUFFICIENT : Bytes := asc "{\"status\":-70401}"
/-- `to_hap_json({"status": -70402})` -/
def JSON_COMM_FAILURE : Bytes := asc "{\"status\":-70402}"

/-- `tlv.encode(SEQUENCE_NUM, seq, ERROR_CODE, AUTHENTICATION)` -/
def authErrTlv (seq : UInt8) : Bytes := [6, 1, seq, 7, 1, 2]

/-- `_send_authentication_error_tlv_response(seq)` on a fresh response -/
def authErrResp (seq : UInt8) : Resp := { status := 200, headers := [CT_TLV], body := authErrTlv seq }

/-- `send_response_with_status(code, hap_status)` applied to the response object -/
def withStatus (r : Resp) (code : Nat) (json : Bytes) : Resp :=
  { r with status := code, headers := r.headers ++ [CT_JSON], body := json }

/-- The guard of a handler: `some (response so far, raised exception)` when it refuses
    (the body is then never entered), `none` when control reaches the body. -/
def guardRefusal (P : Params σ) : Guard → World σ → Option (Resp × Option Exn)
  | .none, _ => none
  | .raiseUnpriv, w => if w.verified then none else some ({}, some .unprivileged)
  | .send401, w => if w.verified then none else some ({ status := 401 }, none)
  | .adminAuthErr a seq, w =>
    if a && w.clientUuid.isNone then some ({}, some .assertion)
    else if !w.verified || !P.isAdmin w.st w.clientUuid then some (authErrResp seq, none)
    else none

/-- `getattr(self, name)()`: guard, then the arbitrary body. A handler without an assignment to
    `self.is_encrypted` cannot change the flag. -/
def runHandler (P : Params σ) (r : Route) (w : World σ) (ctx : ReqCtx) : World σ × Resp × Option Exn :=
  match guardRefusal P r.guard w with
  | some (resp, e) => (w, resp, e)
  | none =>
    match P.body r.handler w ctx with
    | (w', resp, e) =>
      ({ w' with verified := if r.setsVerified then w'.verified else w.verified }, resp, e)

/-- `self.HANDLERS[self.command][path]` (`none` = KeyError) -/
def lookup (routes : List Route) (command path : Bytes) : Option Route :=
  routes.find? (fun r => r.method == command && r.path == path)

/-- `{k.decode(): v.decode() for k, v in request.headers}` (first failure wins; all are the same class) -/
def decodeHeaders : List (Bytes × Bytes) → Except Exn (List (Bytes × Bytes))
  | [] => .ok []
  | (k, v) :: rest => do
    let k' ← decodeUtf8 k
    let v' ← decodeUtf8 v
    let r ← decodeHeaders rest
    pure ((k', v') :: r)

/-- `self.path = …; self.command = …; self.headers = …` -/
def decodeReq (rq : Req) : Except Exn (Bytes × Bytes × List (Bytes × Bytes)) := do
  let path ← decodeUtf8 rq.target
  let command ← decodeUtf8 rq.method
  let headers ← decodeHeaders rq.headers
  pure (path, command, headers)

/-- Decoding, `urlparse`, table lookup: `.ok (route, ctx)` or the exception raised. -/
def resolve (routes : List Route) (P : Params σ) (req : Option Req) (body : Bytes) :
    Except Exn (Route × ReqCtx) :=
  match req with
  | none => .error .attribute                 -- `None.target`
  | some rq =>
    match decodeReq rq with
    | .error e => .error e
    | .ok (path, command, headers) =>
      match P.urlparse path with
      | .error e => .error e
      | .ok upath =>
        match lookup routes command upath with
        | none => .error .key
        | some r => .ok (r, { path, command, headers, body, urlPath := upath })

/-- The protected region (`try:` block) of the repaired `dispatch`. -/
def protectedRegion (routes : List Route) (P : Params σ) (w : World σ) (req : Option Req) (body : Bytes) :
    World σ × Resp × Option Exn :=
  match resolve routes P req body with
  | .error e => (w, {}, some e)
  | .ok (r, ctx) => runHandler P r w ctx

/-- The `except` clauses of `dispatch`. -/
def finishResp : Resp → Option Exn → Resp
  | resp, none => resp
  | resp, some .unprivileged => withStatus resp 401 JSON_INSUFFICIENT
  | resp, some _ => withStatus resp 500 JSON_COMM_FAILURE

/-- `HAPServerHandler.dispatch` (repaired): total, always returns a response. -/
def dispatch (routes : List Route) (P : Params σ) (w : World σ) (req : Option Req) (body : Bytes) :
    World σ × Resp :=
  match protectedRegion routes P w req body with
  | (w', resp, e) => (w', finishResp resp e)

/-- `dispatch` before the repair: decoding and `urlparse` run before the `try`, so their
    exceptions propagate to the caller. -/
def dispatchLegacy (routes : List Route) (P : Params σ) (w : World σ) (req : Option Req) (body : Bytes) :
    Except Exn (World σ × Resp) :=
  match req with
  | none => .error .attribute
  | some rq =>
    match decodeReq rq with
    | .error e => .error e
    | .ok (path, command, headers) =>
      match P.urlparse path with
      | .error e => .error e
      | .ok upath =>
        match lookup routes command upath with
        | none => .ok (w, finishResp {} (some .key))
        | some r =>
          match runHandler P r w { path, command, headers, body, urlPath := upath } with
          | (w', resp, e) => .ok (w', finishResp resp e)

/-- The external calls one `dispatch` makes, in order (used by the transcript replay):
    `urlparse` if decoding succeeded, then the handler method if the lookup succeeded. -/
def dispatchCalls (routes : List Route) (P : Params σ) (req : Option Req) : List String :=
  match req with
  | none => []
  | some rq =>
    match decodeReq rq with
    | .error _ => []
    | .ok (path, command, _) =>
      match P.urlparse path with
      | .error _ => ["urlparse"]
      | .ok upath =>
        match lookup routes command upath with
        | none => ["urlparse"]
        | some r => ["urlparse", r.handler]

/-! ### refusal (what C03 demands of a response) -/

/-- a pairing-TLV authentication error: `06 01 <seq> 07 01 02` -/
def isAuthErrTlv (b : Bytes) : Bool :=
  match b with
  | [6, 1, _, 7, 1, 2] => true
  | _ => false

/-- status ∉ 2xx, or a pairing-TLV authentication error; and nothing deferred, no session key, and
    none of the flags by which a response makes the protocol act beyond this request (session
    teardown of other controllers, advertisement refresh) -/
def Resp.refusal (r : Resp) : Bool :=
  (r.status < 200 || 300 ≤ r.status || isAuthErrTlv r.body) && !r.task && !r.sharedKey &&
  !r.pairingRemoved && !r.pairingChanged

/-! ### a sequence of requests on one connection -/

/-- Run requests in order, collecting the responses. -/
def runReqs (routes : List Route) (P : Params σ) : World σ → List (Option Req × Bytes) → World σ × List Resp
  | w, [] => (w, [])
  | w, (rq, b) :: rest =>
    match dispatch routes P w rq b with
    | (w1, r) =>
      match runReqs routes P w1 rest with
      | (w2, rs) => (w2, r :: rs)

end Hap.Http
