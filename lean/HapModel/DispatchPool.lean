/-
  Several connections on one accessory (C03, cross-connection histories).

  A `Pool` is the shared accessory state plus, per connection id, the two privilege fields of that
  connection's handler.  One step = one request dispatched on connection `i`:
  `HAPServerHandler.dispatch` runs on `i`'s view of the pool and writes back ONLY `i`'s fields and
  the shared state; if the response carries `pairing_removed`, `_close_unpaired_sessions` then
  visits every connection of the pool and may CLEAR flags (`lower`, arbitrary) — it never sets one.
  That a connection's flag is written by nothing else is tied to the source by the extracted
  writer table (`Gen.verifiedWriters`, `C03_only_setter_table`): the only assignments to an
  attribute `is_encrypted` in pyhap are `False` in the handler's constructor, `True` in code reached
  only from the `/pair-verify` route (own handler) and `False` in the protocol's session teardown
  (other handlers).
-/
import HapModel.Dispatch
namespace Hap.Http

structure Pool (σ : Type) where
  st : σ
  verified : Nat → Bool
  uuid : Nat → Option Nat

/-- connection `i`'s handler and what it can reach -/
def Pool.view (p : Pool σ) (i : Nat) : World σ :=
  { st := p.st, verified := p.verified i, clientUuid := p.uuid i }

/-- one request on connection `i` -/
def stepConn (routes : List Route) (P : Params σ) (lower : σ → Nat → Bool) (p : Pool σ) (i : Nat)
    (req : Option Req) (body : Bytes) : Pool σ × Resp :=
  match dispatch routes P (p.view i) req body with
  | (w', r) =>
    let p1 : Pool σ :=
      { st := w'.st,
        verified := fun j => if j = i then w'.verified else p.verified j,
        uuid := fun j => if j = i then w'.clientUuid else p.uuid j }
    let p2 : Pool σ :=
      if r.pairingRemoved then { p1 with verified := fun j => p1.verified j && !(lower p1.st j) } else p1
    (p2, r)

/-- an interleaved history: (connection, request, body) in order -/
def runPool (routes : List Route) (P : Params σ) (lower : σ → Nat → Bool) :
    Pool σ → List (Nat × Option Req × Bytes) → Pool σ × List (Nat × Resp)
  | p, [] => (p, [])
  | p, (i, rq, b) :: rest =>
    match stepConn routes P lower p i rq b with
    | (p1, r) =>
      match runPool routes P lower p1 rest with
      | (p2, rs) => (p2, (i, r) :: rs)

end Hap.Http
