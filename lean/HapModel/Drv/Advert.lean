import HapModel.Drv.Util
import HapModel.Advert
import HapModel.AdvertSys
import HapModel.AdvertLife
import Proofs.Advert   -- core only: the specification-side decoders / validity predicates
namespace Hap.Drv.Advert
open Lean Hap Hap.Drv Hap.Advert Hap.AdvertSys

def jstr (l : List Char) : Json := Json.str (String.ofList l)

/-- a Python `str` crosses the line protocol as its list of code points -/
def charsOf (a : Array Json) : R (List Char) :=
  a.toList.mapM fun j => do pure (Char.ofNat (← asNat j))

def getChars (j : Json) (k : String) : R (List Char) := do charsOf (← getArr j k)

def optStr (j : Json) (k : String) : R (Option String) := do
  match j.getObjVal? k with
  | .ok (.str s) => pure (some s)
  | _ => pure none

def cfgOps (st : Cfg String) : List Json → R (List Json × Cfg String)
  | [] => pure ([], st)
  | op :: rest => do
    match op with
    | .arr #[.str "incr"] =>
      let st' := incr st
      let (out, fin) ← cfgOps st' rest
      pure (Json.arr #[Json.num st'.cfg, Json.null] :: out, fin)
    | .arr #[.str "set", .str h] =>
      let (st', b) := setHash st h
      let (out, fin) ← cfgOps st' rest
      pure (Json.arr #[Json.num st'.cfg, Json.bool b] :: out, fin)
    | _ => throw "cfg op must be [\"incr\"] or [\"set\", hash]"

/-! value-free rendering: metadata and values are opaque strings -/
def chrOf (j : Json) : R (Chr String String) := do
  pure { iid := ← getNat j "iid", mta := ← getStr j "meta", value := ← getStr j "value" }
def svcOf (j : Json) : R (Svc String String) := do
  pure { iid := ← getNat j "iid", mta := ← getStr j "meta",
         chars := ← (← getArr j "chars").toList.mapM chrOf }
def accOf (j : Json) : R (Acc String String) := do
  pure { aid := ← getNat j "aid", services := ← (← getArr j "services").toList.mapM svcOf }

def jnoval (r : NoVal String) : Json :=
  Json.arr (r.map fun (aid, svcs) =>
    Json.arr #[Json.num aid, Json.arr (svcs.map fun (siid, smeta, chars) =>
      Json.arr #[Json.num siid, Json.str smeta, Json.arr (chars.map fun (ciid, cmeta) =>
        Json.arr #[Json.num ciid, Json.str cmeta]).toArray]).toArray]).toArray

def valOpOf (j : Json) : R (Nat × Nat × (String → String)) := do
  match j with
  | .arr #[a, i, .str v] => pure (← asNat a, ← asNat i, fun _ => v)
  | _ => throw "value op must be [aid, iid, value]"

/-- the driver's stand-in for SHA-512 over the sorted JSON: the compact JSON text of the
    value-free rendering (distinct renderings give distinct texts) -/
def renderHash (r : NoVal String) : String := (jnoval r).compress

/-- one operation of an accessory's life: ["restart", db] | ["value", aid, iid, v] | ["mutate", db] |
    ["configChanged"] | ["persist"] -/
def lifeOpOf (j : Json) : R (Hap.AdvertLife.Op String String) := do
  match j with
  | .arr #[.str "restart", .arr db] => pure (.restart (← db.toList.mapM accOf))
  | .arr #[.str "mutate", .arr db] => do
    let d ← db.toList.mapM accOf
    pure (.mutate fun _ => d)
  | .arr #[.str "value", a, i, .str v] => pure (.value (← asNat a) (← asNat i) fun _ => v)
  | .arr #[.str "configChanged"] => pure .configChanged
  | .arr #[.str "persist"] => pure .persist
  | _ => throw "life op must be [restart, db] | [value, aid, iid, v] | [mutate, db] | [configChanged] | [persist]"

/-- the life run op by op; per op: live c#, c# in the file, "file hash = live hash", and the
    value-free rendering of the live database (compared with the real hash by equality classes) -/
def lifeRun (l : Hap.AdvertLife.Life String String String) :
    List (Hap.AdvertLife.Op String String) → List Json
  | [] => []
  | op :: rest =>
    let l' := Hap.AdvertLife.step renderHash l op
    Json.mkObj [("cfg", Json.num l'.st.cfg),
                ("disk_cfg", jopt (fun (d : Cfg String) => Json.num d.cfg) l'.disk),
                ("disk_synced", Json.bool (l'.disk.map (·.hsh) == some l'.st.hsh)),
                ("hash_is_live", Json.bool (l'.st.hsh == some (renderHash (renderNoVal l'.db))))] :: lifeRun l' rest

def clientOpt (j : Json) (k : String) : R (Option Nat) := do
  match j.getObjVal? k with
  | .ok (.num _) => pure (some (← getNat j k))
  | _ => pure none

def reqOf (j : Json) : R Req := do
  let kind ← getStr j "req"
  match kind with
  | "m5" => pure (.pairSetupM5 (← getNat j "client") (← getBool j "ok"))
  | "v3" => pure (.pairVerifyM3 (← getBool j "ok"))
  | "add" => pure (.addPairing (← getNat j "client") (← getBool j "admin"))
  | "remove" => pure (.removePairing (← getNat j "client"))
  | "resource" => pure .resource
  | "other" => pure .other
  | _ => throw s!"unknown req {kind}"

def stepOf (j : Json) : R Step := do
  let kind ← getStr j "step"
  match kind with
  | "request" => pure (.request (← getNat j "conn") (← reqOf j))
  | "taskDone" => pure (.taskDone (← getNat j "i"))
  | "execRun" => pure (.execRun (← getNat j "i"))
  | "loopRun" => pure (.loopRun (← getNat j "i"))
  | "configChanged" => pure .configChanged
  | "appRefresh" => pure .appRefresh
  | "appUnpair" => pure (.appUnpair (← getNat j "client"))
  | _ => throw s!"unknown step {kind}"

def jtxt (txt : List (String × String)) : Json :=
  Json.arr (txt.map fun (k, v) => Json.arr #[Json.str k, Json.str v]).toArray

def jobs (o : Obs) : Json :=
  match o with
  | .write c r => Json.arr #["write", Json.num c, Json.num r]
  | .cipher c r => Json.arr #["cipher", Json.num c, Json.num r]
  | .publish r txt =>
    -- the whole TXT record of the refresh, and its cause (request id / null = application)
    Json.arr #["publish", jopt (fun (n : Nat) => Json.num n) r, jtxt txt]

def infoOf (j : Json) : R Info := do
  let mac := (← getStr j "mac").toList
  pure { display := ← getChars j "name", category := ← getNat j "category",
         mac := mac, cfg := ← getNat j "cfg",
         paired := ← getBool j "paired", setupHash := setupHash (← getStr j "setup_id").toList mac }

def handle (j : Json) : R Json := do
  let op ← getStr j "op"
  match op with
  | "cfg" =>
    let st : Cfg String := { cfg := ← getNat j "cfg", hsh := ← optStr j "hash" }
    let (out, fin) ← cfgOps st (← getArr j "ops").toList
    pure (Json.mkObj [("ok", Json.arr out.toArray), ("cfg", Json.num fin.cfg),
                      ("hash", jopt Json.str fin.hsh)])
  | "names" =>
    let name ← getChars j "name"
    let mac := (← getStr j "mac").toList
    let vn := validName name
    let vh := validHostName name
    pure (Json.mkObj [("vn", jstr vn), ("vh", jstr vh),
                      ("inst", jstr (instanceLabel vn mac)), ("host", jstr (hostLabel vh mac))])
  | "names_legacy" =>
    -- the sanitisers as they were before the repair (used when the tree under check lacks it)
    let name ← getChars j "name"
    let mac := (← getStr j "mac").toList
    let vn := validNameLegacy name
    let vh := validHostNameLegacy name
    pure (Json.mkObj [("vn", jstr vn), ("vh", jstr vh),
                      ("inst", jstr (instanceLabel vn mac)), ("host", jstr (hostLabel vh mac))])
  | "advert" =>
    let i ← infoOf j
    pure (Json.mkObj [("ok", Json.arr ((advertData i).map fun (k, v) => Json.arr #[Json.str k, Json.str v]).toArray)])
  | "xhm" =>
    let cat ← getNat j "category"
    let pin := (← getStr j "pin").toList
    let sid := (← getStr j "setup_id").toList
    pure (Json.mkObj [("ok", jstr (xhmUri cat (pinValue pin) sid)), ("code", Json.num (pinValue pin))])
  | "render" =>
    let db ← (← getArr j "db").toList.mapM accOf
    let ops ← (← getArr j "ops").toList.mapM valOpOf
    pure (Json.mkObj [("before", jnoval (renderNoVal db)),
                      ("after", jnoval (renderNoVal (valueOps ops db)))])
  | "sys" =>
    let paired ← (← getArr j "paired").toList.mapM fun e => do
      match e with
      | .arr #[c, .bool a] => pure (← asNat c, a)
      | _ => throw "paired entry must be [client, admin]"
    let steps ← (← getArr j "steps").toList.mapM stepOf
    -- the accessory the script runs on (name, category, mac, configuration number at start, setup hash)
    let mac := (← getStr j "mac").toList
    let info : Info := { display := ← getChars j "name", category := ← getNat j "category",
                         mac := mac, cfg := ← getNat j "cfg", paired := false,
                         setupHash := setupHash (← getStr j "setup_id").toList mac }
    -- verified controller per connection: [[conn, client], ...]
    let sessions ← (← getArr j "sessions").toList.mapM fun e => do
      match e with
      | .arr #[k, c] => pure (← asNat k, ← asNat c)
      | _ => throw "sessions entry must be [conn, client]"
    let safe := match j.getObjVal? "safe" with
      | .ok (.bool b) => b
      | _ => false
    let s := run (init info paired sessions safe) steps
    pure (Json.mkObj [("log", Json.arr (s.log.reverse.map jobs).toArray),
                      ("paired", Json.arr (s.paired.map fun (c, a) => Json.arr #[Json.num c, Json.bool a]).toArray),
                      ("pending", Json.num (s.execQ.length + s.loopQ.length)),
                      ("closed", Json.arr (s.closed.map fun (k : Nat) => Json.num k).toArray),
                      ("cfg", Json.num s.info.cfg),
                      ("registered", jtxt (initialRecord info paired)),
                      ("adv", jtxt (advertised (initialRecord info paired) s.log)),
                      ("adv_sf", jopt Json.str (advertisedSf (initialRecord info paired) s.log))])
  | "life" =>
    -- the hash is the JSON text of the value-free rendering (collision-free)
    let ops ← (← getArr j "ops").toList.mapM lifeOpOf
    -- "cfg0": an earlier life left this number (and no hash) in the file; reachable from `life0`
    -- by cfg0 - 1 `config_changed` calls
    let l0 : Hap.AdvertLife.Life String String String :=
      match j.getObjVal? "cfg0" with
      | .ok (.num n) => { Hap.AdvertLife.life0 with disk := some { cfg := n.mantissa.toNat, hsh := none } }
      | _ => Hap.AdvertLife.life0
    pure (Json.mkObj [("ok", Json.arr (lifeRun l0 ops).toArray)])
  | "spec" =>
    -- the specification-side definitions the theorems are stated with (Proofs/Advert.lean), run
    -- on concrete labels / URIs so that they can be compared with the independent Python
    -- validators (harness/ref/dnslabel.py, harness/ref/xhm.py)
    let inst ← getChars j "inst"
    let host ← getChars j "host"
    let uri := (← getStr j "uri").toList
    let d := match xhmDecode uri with
      | some f => Json.mkObj [("version", Json.num f.version), ("reserved", Json.num f.reserved),
                              ("category", Json.num f.category), ("flags", Json.num f.flags),
                              ("code", Json.num f.code), ("setup_id", jstr f.setupId)]
      | none => Json.null
    pure (Json.mkObj [("inst_ok", Json.bool (decide (ValidInstanceLabel inst))),
                      ("host_ok", Json.bool (decide (ValidHostLabel host))), ("xhm", d)])
  | "ident" =>
    -- the hypotheses of C18_names_valid_mac_tail / C18_xhm_pin_roundtrip on a generated identity
    let mac := (← getStr j "mac").toList
    let pin := (← getStr j "pin").toList
    pure (Json.mkObj [("mac_ok", Json.bool (decide (MacTailOk mac))),
                      ("pin_ok", Json.bool (decide (PinShape pin))), ("code", Json.num (pinValue pin))])
  | "consts" =>
    -- the constants the model fixes, for comparison with the ones in the source
    pure (Json.mkObj [("MAX_CONFIG_VERSION", Json.num MAX_CONFIG_VERSION),
                      ("DEFAULT_CONFIG_VERSION", Json.num DEFAULT_CONFIG_VERSION),
                      ("MAX_MDNS_NAME_LENGTH", Json.num MAX_MDNS_NAME_LENGTH),
                      ("DEFAULT_MDNS_NAME", jstr DEFAULT_MDNS_NAME),
                      ("VALID_MDNS_REGEX", "[^A-Za-z0-9\\-]+"),
                      ("LEADING_TRAILING_SPACE_DASH", "^[ -]+|[ -]+$"),
                      ("DASH_REGEX", "[-]+"),
                      ("HAP_SERVICE_TYPE", "_hap._tcp.local."),
                      -- the handlers whose response carries a task (`Req.resource` only, cf. `handle`)
                      ("TASK_HANDLERS", Json.arr #["handle_resource"]),
                      ("HAP_PROTOCOL_SHORT_VERSION", (Hap.Advert.lookup "pv" (advertData
                        { display := [], category := 0, mac := [], cfg := 0, paired := false, setupHash := "" })).getD "?")])
  | _ => throw s!"advert: unknown op {op}"

end Hap.Drv.Advert
