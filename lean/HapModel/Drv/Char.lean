/-
  Line-protocol handler for the Characteristic layer.
  One line = one whole script: a property set, the configuration, the operations, and the
  harness-computed values of the two external parameters on the concrete arguments
  (`sr`: step rounding, `fr`: `str(float)`).

  values: ["i", n] | ["f", num, den] | ["f", "nan"|"inf"|"-inf"] | ["b", bool] | ["s", text]
          | ["n"] | ["o", repr, truthy]
-/
import HapModel.Drv.Util
import HapModel.Char
namespace Hap.Drv.Char
open Lean Hap Hap.Drv Hap.Char

def asInt (j : Json) : R Int :=
  match j.getInt? with
  | .ok n => pure n
  | .error e => throw e

def valOf (j : Json) : R Val := do
  match j with
  | .arr a =>
    let tag ← match (a[0]? : Option Json) with
      | some (Json.str t) => pure t
      | _ => throw "value: missing tag"
    match tag, a.size with
    | "i", 2 => pure (.int (← asInt a[1]!))
    | "f", 3 =>
      let n ← asInt a[1]!
      let d ← asNat a[2]!
      pure (.float (.fin (mkRat n d)))
    | "f", 2 =>
      match a[1]! with
      | .str "nan" => pure (.float .nan)
      | .str "inf" => pure (.float .posInf)
      | .str "-inf" => pure (.float .negInf)
      | _ => throw "value: bad float special"
    | "b", 2 =>
      match a[1]! with
      | .bool b => pure (.bool b)
      | _ => throw "value: bad bool"
    | "s", 2 =>
      match a[1]! with
      | .str s => pure (.str s.toList)
      | _ => throw "value: bad str"
    | "n", 1 => pure .null
    | "o", 3 =>
      match a[1]!, a[2]! with
      | .str s, .bool t => pure (.other s.toList t)
      | _, _ => throw "value: bad other"
    | _, _ => throw s!"value: unknown tag {tag}"
  | _ => throw "value: expected array"

def jint (i : Int) : Json := Json.num (JsonNumber.fromInt i)

def jval : Val → Json
  | .int i => Json.arr #["i", jint i]
  | .float (.fin q) => Json.arr #["f", jint q.num, jint q.den]
  | .float .nan => Json.arr #["f", "nan"]
  | .float .posInf => Json.arr #["f", "inf"]
  | .float .negInf => Json.arr #["f", "-inf"]
  | .bool b => Json.arr #["b", Json.bool b]
  | .str s => Json.arr #["s", Json.str (String.ofList s)]
  | .null => Json.arr #["n"]
  | .other r t => Json.arr #["o", Json.str (String.ofList r), Json.bool t]

def optField (j : Json) (k : String) (f : Json → R α) : R (Option α) :=
  match j.getObjVal? k with
  | .ok .null => pure none
  | .ok v => do pure (some (← f v))
  | .error _ => pure none

def fmtOf (s : String) : R Fmt :=
  match s with
  | "bool" => pure .bool | "int" => pure .int | "float" => pure .float
  | "string" => pure .string | "array" => pure .array | "dictionary" => pure .dictionary
  | "uint8" => pure .uint8 | "uint16" => pure .uint16 | "uint32" => pure .uint32
  | "uint64" => pure .uint64 | "data" => pure .data | "tlv8" => pure .tlv8
  | _ => throw s!"unknown format {s}"

def asFmt (j : Json) : R Fmt :=
  match j with
  | .str s => fmtOf s
  | _ => throw "format: expected string"

def intsOf (j : Json) : R (List Int) :=
  match j with
  | .arr a => a.toList.mapM asInt
  | _ => throw "expected an int array"

def propsOf (j : Json) : R Props := do
  let fmt ← fmtOf (← getStr j "fmt")
  let vv ← match ← optField j "vv" intsOf with
    | some l => pure l
    | none => pure []
  pure {
    fmt := fmt
    minV := ← optField j "min" valOf
    maxV := ← optField j "max" valOf
    minStep := ← optField j "step" valOf
    vv := vv
    maxLen := ← optField j "maxLen" asNat
    readable := (← optField j "readable" (fun x => match x with | .bool b => pure b | _ => throw "bool")).getD true }

def updOf (j : Json) : R Upd := do
  pure {
    fmt := ← optField j "fmt" asFmt
    minV := ← optField j "min" valOf
    maxV := ← optField j "max" valOf
    minStep := ← optField j "step" valOf
    maxLen := ← optField j "maxLen" asNat
    vv := ← optField j "vv" intsOf
    readable := ← optField j "readable" (fun x => match x with | .bool b => pure b | _ => throw "bool")
    other := (← optField j "other" (fun x => match x with | .bool b => pure b | _ => throw "bool")).getD false }

def cfgOf (j : Json) : R Cfg := do
  pure { alwaysNull := ← getBool j "alwaysNull", allowInvalid := ← getBool j "allowInvalid" }

def exnOfName (s : String) : Exn :=
  match s with
  | "ValueError" => .valueError
  | "OverflowError" => .overflowError
  | "TypeError" => .typeError
  | _ => .other

/-- what the setter callback does: "absent" | "returns" | {"raises": class} -/
def cbOf (j : Json) : R Cb :=
  match j with
  | .str "absent" => pure .absent
  | .str "returns" => pure .returns
  | _ => match j.getObjVal? "raises" with
    | .ok (.str c) => pure (.raises (exnOfName c))
    | _ => throw "cb: expected absent | returns | {raises}"

/-- what the getter callback does: "absent" | {"returns": value} | {"raises": class} -/
def getterOf (j : Json) : R Getter :=
  match j with
  | .str "absent" => pure .absent
  | _ => match j.getObjVal? "returns" with
    | .ok v => do pure (.returns (← valOf v))
    | .error _ => match j.getObjVal? "raises" with
      | .ok (.str c) => pure (.raises (exnOfName c))
      | _ => throw "getter: expected absent | {returns} | {raises}"

def opOf (j : Json) : R Op := do
  match ← getStr j "op" with
  | "set" => pure (.set (← valOf (← getObj j "v")) (← getBool j "notify"))
  | "client" => pure (.client (← valOf (← getObj j "v")) (← cbOf (← getObj j "cb")))
  | "read" => pure (.read (← getterOf (← getObj j "g")) (← getBool j "hap"))
  | "override" =>
    let u ← updOf (← getObj j "u")
    let vv ← match ← optField j "vv" intsOf with
      | some l => pure l
      | none => pure []
    pure (.override u vv)
  | "configure" =>
    let u ← updOf (← getObj j "u")
    let vv ← match ← optField j "vv" intsOf with
      | some l => pure l
      | none => pure []
    pure (.configure u vv (← valOf (← getObj j "v")))
  | o => throw s!"char: unknown op {o}"

def exnName : Exn → String
  | .valueError => "ValueError"
  | .overflowError => "OverflowError"
  | .typeError => "TypeError"
  | .other => "Other"

def pnumOf (v : Val) : R PNum :=
  match v with
  | .int i => pure (.int i)
  | .float x => pure (.float x)
  | _ => throw "step result must be an int or a float"

abbrev SrTable := List ((Val × Val) × Except Exn PNum)
abbrev FrTable := List (Num × List Char)

def srOf (a : Array Json) : R SrTable :=
  a.toList.mapM fun e => do
    match e with
    | .arr #[v, s, r] =>
      let v ← valOf v
      let s ← valOf s
      match r.getObjVal? "ok" with
      | .ok x => pure ((v, s), .ok (← pnumOf (← valOf x)))
      | .error _ => pure ((v, s), .error (exnOfName (← getStr r "err")))
    | _ => throw "sr entry must be [value, step, result]"

def frOf (a : Array Json) : R FrTable :=
  a.toList.mapM fun e => do
    match e with
    | .arr #[v, .str s] =>
      match ← valOf v with
      | .float x => pure (x, s.toList)
      | _ => throw "fr key must be a float"
    | _ => throw "fr entry must be [float, str]"

/-- the external parameters, instantiated from the tables computed by the harness with real
    Python floats; a missing entry shows up as exception class `Other` / the text `?` -/
def extOf (sr : SrTable) (fr : FrTable) : Ext where
  stepRound v s := match sr.lookup (v, s) with
    | some r => r
    | none => .error .other
  reprF x := match fr.lookup x with
    | some s => s
    | none => ['?']

def jprops (p : Props) : Json :=
  let opt (k : String) (o : Option Val) : List (String × Json) :=
    match o with | some v => [(k, jval v)] | none => []
  Json.mkObj (
    [("fmt", Json.str (match p.fmt with
      | .bool => "bool" | .int => "int" | .float => "float" | .string => "string"
      | .array => "array" | .dictionary => "dictionary" | .uint8 => "uint8" | .uint16 => "uint16"
      | .uint32 => "uint32" | .uint64 => "uint64" | .data => "data" | .tlv8 => "tlv8"))]
    ++ opt "min" p.minV ++ opt "max" p.maxV ++ opt "step" p.minStep
    ++ (if p.vv.isEmpty then [] else [("vv", Json.arr (p.vv.map jint).toArray)])
    ++ (match p.maxLen with | some n => [("maxLen", Json.num n)] | none => [])
    ++ [("readable", Json.bool p.readable)])

def jevent : Event → Json
  | .notify v => Json.arr #["notify", jval v]
  | .callback v => Json.arr #["callback", jval v]

def jres (r : Res) : Json :=
  Json.mkObj [
    ("exn", match r.exn with | some e => Json.str (exnName e) | none => Json.null),
    ("value", jval r.st.value),
    ("props", jprops r.st.props),
    ("hap", match reported r.st with | some v => jval v | none => Json.str "absent"),
    ("out", Json.arr (r.out.map jevent).toArray)]

/-- a read additionally shows what it returned -/
def jstep (E : Ext) (L : Variant) (cfg : Cfg) (st : St) (op : Op) (r : Res) : Json :=
  match op with
  | .read g h =>
    (jres r).setObjVal! "ret" (match r.exn, readResult E L cfg st g h with
      | some _, _ => Json.str "raised"
      | none, some v => jval v
      | none, none => Json.str "absent")
  | _ => jres r

def runAll (E : Ext) (L : Variant) (cfg : Cfg) : St → List Op → List Json
  | _, [] => []
  | st, op :: ops =>
    let r := step E L cfg st op
    jstep E L cfg st op r :: runAll E L cfg r.st ops

/-- which proved variant of the code the script is run against: `repaired` (HEAD, default) or
    `strict` (HEAD + the candidate repair of `get_value`) -/
def variantOf (j : Json) : R Variant :=
  match j.getObjVal? "variant" with
  | .ok (.str "strict") => pure strict
  | .ok (.str "repaired") => pure repaired
  | .ok _ => throw "variant: expected repaired | strict"
  | .error _ => pure repaired

def handle (j : Json) : R Json := do
  match ← getStr j "op" with
  | "script" =>
    let p ← propsOf (← getObj j "props")
    let cfg ← cfgOf (← getObj j "cfg")
    let ops ← (← getArr j "ops").toList.mapM opOf
    let E := extOf (← srOf (← getArr j "sr")) (← frOf (← getArr j "fr"))
    let L ← variantOf j
    match init E cfg p with
    | .error e => pure (Json.mkObj [("init", Json.mkObj [("err", Json.str (exnName e))]), ("steps", Json.arr #[])])
    | .ok st =>
      pure (Json.mkObj [
        ("init", Json.mkObj [("ok", jval st.value), ("props", jprops st.props),
                             ("hap", match reported st with | some v => jval v | none => Json.str "absent")]),
        ("steps", Json.arr (runAll E L cfg st ops).toArray)])
  | "consistent" =>
    -- the model's notion of a consistent property set (cross-checked against the harness's)
    let p ← propsOf (← getObj j "props")
    pure (Json.mkObj [("ok", Json.bool (consistent p))])
  | "judge" =>
    -- the predicates the theorems talk about, on one (property set, configuration, value)
    let p ← propsOf (← getObj j "props")
    let cfg ← cfgOf (← getObj j "cfg")
    let v ← valOf (← getObj j "v")
    pure (Json.mkObj [("consistent", Json.bool (consistent p)), ("conf", Json.bool (conf cfg p v)),
                      ("strict", Json.bool (confStrict cfg p v)), ("base", Json.bool (confB cfg p v))])
  | o => throw s!"char: unknown op {o}"

end Hap.Drv.Char
