/-
  Line-protocol front end of the Db layer (C17 construction scripts, C11 histories).
  Instantiates the model with `V := Json` (values), `P := Json` (properties dict).
  The members `to_HAP` derives from the properties dict are computed here from the
  snapshot of the dict that a `CharRep` carries.
-/
import HapModel.Drv.Util
import HapModel.Db
import HapModel.Gen.Services
namespace Hap.Drv.Db
open Lean Hap Hap.Drv Hap.Db

instance : PropsLike Json where
  readable p :=
    match p.getObjValD "Permissions" with
    | .arr a => a.any (fun x => x == Json.str "pr")
    | _ => false

/-! ### JSON of a rendering -/

def numericFormats : List String := ["int", "float", "uint8", "uint16", "uint32", "uint64"]

def insertNum (x : Json) : List Json → List Json
  | [] => [x]
  | y :: ys =>
    match x, y with
    | .num a, .num b => if a < b then x :: y :: ys else y :: insertNum x ys
    | _, _ => x :: y :: ys

def sortNums (l : List Json) : List Json := l.foldr insertNum []

/-- the members `to_HAP` takes from the properties dict -/
def propsMembers (p : Json) : List (String × Json) :=
  let fmt := p.getObjValD "Format"
  let base := [("perms", p.getObjValD "Permissions"), ("format", fmt)]
  match fmt with
  | .str f =>
    if numericFormats.contains f then
      let nums := ["maxValue", "minValue", "minStep", "unit"].filterMap fun k =>
        match p.getObjVal? k with
        | .ok v => some (k, v)
        | _ => none
      let vv := match p.getObjVal? "ValidValues" with
        | .ok (.obj m) => [("valid-values", Json.arr (sortNums m.values).toArray)]
        | .ok _ => [("valid-values", Json.null)]
        | _ => []
      base ++ nums ++ vv
    else if f = "string" then
      match p.getObjVal? "maxLen" with
      | .ok v => if v == Json.num 64 then base else base ++ [("maxLen", v)]
      | _ => base
    else base
  | _ => base

def jnat? : Option Nat → Json
  | none => Json.null
  | some n => Json.num n

def jstr? : Option String → Json
  | none => Json.null
  | some s => Json.str s

def charRepJson (r : CharRep Json Json) : Json :=
  Json.mkObj <|
    [("iid", jnat? r.iid), ("type", Json.str r.typ)] ++ propsMembers r.props ++
    (match r.desc with | none => [] | some d => [("description", jstr? d)]) ++
    (match r.value with | none => [] | some v => [("value", v)])

def svcRepJson (r : SvcRep Json Json) : Json :=
  Json.mkObj <|
    [("iid", jnat? r.iid), ("type", Json.str r.typ),
     ("characteristics", Json.arr (r.chars.map charRepJson).toArray)] ++
    (match r.primary with | none => [] | some b => [("primary", Json.bool b)]) ++
    (if r.linked.isEmpty then [] else [("linked", Json.arr (r.linked.map jnat?).toArray)])

def accRepJson (r : AccRep Json Json) : Json :=
  Json.mkObj [("aid", jnat? r.aid), ("services", Json.arr (r.services.map svcRepJson).toArray)]

def entryJson (e : Entry Json) : Json :=
  Json.mkObj <|
    [("aid", Json.num e.aid), ("iid", Json.num e.iid)] ++
    (match e.status with | none => [] | some s => [("status", Json.num s)]) ++
    (match e.value with | none => [] | some v => [("value", v)])

/-! ### decoding helpers -/

def optField (j : Json) (k : String) : Option Json :=
  match j.getObjVal? k with
  | .ok .null => none
  | .ok v => some v
  | _ => none

/-- `{"v": x}` = outcome x, `null`/absent = raised -/
def outcome (j : Json) : Option Json :=
  match j.getObjVal? "v" with
  | .ok v => some v
  | _ => none

def optNat (j : Json) (k : String) : R (Option Nat) :=
  match optField j k with
  | none => pure none
  | some v => do pure (some (← asNat v))

def optStr (j : Json) (k : String) : R (Option String) :=
  match optField j k with
  | none => pure none
  | some (.str s) => pure (some s)
  | some _ => throw s!"{k}: string or null expected"

def pairOf (j : Json) : R (Nat × Nat) :=
  match j with
  | .arr #[a, b] => do pure (← asNat a, ← asNat b)
  | _ => throw "pair expected"

/-! ### C17: construction scripts over the shipped tables -/

def charUuid (name : String) : R String :=
  match Hap.Gen.characteristics.find? (·.1 == name) with
  | some (_, u) => pure u
  | none => throw s!"unknown characteristic {name}"

def cdef (typ : String) : CharDef Json Json :=
  { typ := typ, props := Json.null, name := none, value := Json.null, alwaysNull := false }

/-- `{"svc": name, "opt": [names]}`: `loader.get_service(name)` + optional characteristics
    (`add_preload_service(name, chars=opt)`); `{"raw": uuid, "charNames": [names]}`: a service
    built by hand. Types are full UUID strings. -/
def svcDefOf (j : Json) : R (SvcDef Json Json) := do
  match j.getObjVal? "svc" with
  | .ok (.str name) =>
    match Hap.Gen.services.find? (·.name == name) with
    | none => throw s!"unknown service {name}"
    | some row =>
      let opt := (j.getObjValD "opt").getArr?.toOption.getD #[]
      let optTyps ← opt.toList.mapM fun o => do
        match o with
        | .str n => charUuid n
        | _ => throw "opt: names expected"
      pure { typ := row.uuid, chars := (row.required.map (fun c => cdef c.2)) ++ optTyps.map cdef }
  | _ =>
    let typ ← getStr j "raw"
    let names ← getArr j "charNames"
    let typs ← names.toList.mapM fun o => do
      match o with
      | .str n => charUuid n
      | _ => throw "charNames: names expected"
    pure { typ := typ, chars := typs.map cdef }

def infoSpec : Json := Json.mkObj [("svc", "AccessoryInformation")]
def protoSpec : Json :=
  Json.mkObj [("raw", "000000A2-0000-1000-8000-0026BB765291"), ("charNames", Json.arr #["Version"])]

/-- what `Accessory.__init__` adds before the application's services -/
def ctorSpecs (aid : Option Nat) : List Json :=
  if aid = some 1 then [infoSpec, protoSpec] else [infoSpec]

def op17Of (j : Json) : R (Op Json Json) := do
  let op ← getStr j "op"
  match op with
  | "addService" => pure (.addService (← getNat j "aid") (← svcDefOf (← getObj j "spec")))
  | "addAccessory" =>
    let aid ← optNat j "aid"
    let specs ← getArr j "specs"
    let defs ← (ctorSpecs aid ++ specs.toList).mapM svcDefOf
    pure (.addAccessory aid ((j.getObjValD "catBridge").getBool?.toOption.getD false) defs)
  | "removeAccessory" => pure (.removeAccessory (← getNat j "aid"))
  | "assign" => pure (.assign (← getNat j "aid") (← getNat j "obj"))
  | "removeObj" => pure (.removeObj (← getNat j "aid") (← getNat j "obj"))
  | "removeIid" => pure (.removeIid (← getNat j "aid") (← getNat j "iid"))
  | _ => throw s!"c17: unknown op {op}"

def resJson : Res → Json
  | .ok n => Json.mkObj [("ok", jnat? n)]
  | .valueError => Json.mkObj [("err", "ValueError")]
  | .keyError => Json.mkObj [("err", "KeyError")]
  | .badTarget => Json.mkObj [("err", "badTarget")]

/-- a script step: a construction operation, or a poll = GET /accessories (through the caches)
    followed by one GET /characteristics for `ids` -/
inductive Step17 where
  | con (op : Op Json Json)
  | poll (ids : List (Nat × Nat))
  /-- a value change of one characteristic (no structural effect; its event ids are live ids) -/
  | nop

def step17Of (j : Json) : R Step17 := do
  match (← getStr j "op") with
  | "poll" => pure (.poll (← (← getArr j "ids").toList.mapM pairOf))
  | "touch" => pure .nop
  | _ => pure (.con (← op17Of j))

/-- aid / iid / type skeleton of a rendering -/
def skeletonJson (rs : Option (List (AccRep Json Json))) : Json :=
  match rs with
  | none => Json.null
  | some rs => Json.arr (rs.map fun a => Json.mkObj [
      ("aid", jnat? a.aid),
      ("services", Json.arr (a.services.map fun sv => Json.mkObj [
        ("iid", jnat? sv.iid), ("type", Json.str sv.typ),
        ("characteristics", Json.arr (sv.chars.map fun c =>
          Json.mkObj [("iid", jnat? c.iid), ("type", Json.str c.typ)]).toArray)]).toArray)]).toArray

def jpair (p : Option Nat × Option Nat) : Json := Json.arr #[jnat? p.1, jnat? p.2]

def managerJson (s : Db Json Json) (key : Nat) (a : Accessory Json Json) : Json :=
  let objs := List.range s.nextObj
  Json.mkObj [
    ("aid", Json.num key), ("ownAid", jnat? a.aid), ("counter", Json.num a.iidm.counter),
    ("iids", Json.arr (objs.filterMap fun o => (a.iidm.getIid o).map fun i => Json.arr #[Json.num o, Json.num i]).toArray)]

/-- tag every characteristic with its own identity as value, so that a read reveals which
    object it reached -/
def tagValues (s : Db Json Json) : Db Json Json :=
  s.mapAccs fun a =>
    { a with services := a.services.map fun sv =>
        { sv with chars := sv.chars.map fun c => { c with value := Json.num c.obj } } }

/-- one multi-id read probe: `{"unavailable": [aids], "ids": [[aid, iid], …]}` answered by the
    model's `get_characteristics` + 200/207 selection; entries carry the object reached -/
def probe17 (s : Db Json Json) (j : Json) : R Json := do
  let unav ← (← getArr j "unavailable").toList.mapM asNat
  let ids ← (← getArr j "ids").toList.mapM pairOf
  let s1 := unav.foldl (fun s aid => s.modAcc aid (fun a => { a with available := false })) s
  let r := (s1.handleGet ids (fun _ => none)).1
  let entries := r.entries.map fun e =>
    Json.mkObj <|
      [("aid", Json.num e.aid), ("iid", Json.num e.iid)] ++
      (match e.status with | none => [] | some st => [("status", Json.num st)]) ++
      (match e.value with | none => [] | some v => [("obj", v)])
  pure (Json.mkObj [("code", Json.num r.code), ("entries", Json.arr entries.toArray)])

/-! subscriptions: `AccessoryDriver.async_subscribe_client_topic` on topic ↦ clients (one
    independent subscriber set per topic), events routed by `Db.eventId` -/

abbrev Topics := List ((Nat × Nat) × List Nat)

def subscribe (topics : Topics) (p : Nat × Nat) (client : Nat) (on : Bool) : Topics :=
  if on then
    match topics.find? (fun t => t.1 == p) with
    | some _ => topics.map fun t =>
        if t.1 == p then (t.1, if t.2.contains client then t.2 else t.2 ++ [client]) else t
    | none => topics ++ [(p, [client])]
  else
    (topics.map fun t => if t.1 == p then (t.1, t.2.filter (· != client)) else t).filter
      (fun t => !t.2.isEmpty)

def insertNat (x : Nat) : List Nat → List Nat
  | [] => [x]
  | y :: ys => if x ≤ y then x :: y :: ys else y :: insertNat x ys

def dedupPairs : List (Nat × Nat) → List (Nat × Nat) → List (Nat × Nat)
  | [], acc => acc.reverse
  | p :: ps, acc => if acc.contains p then dedupPairs ps acc else dedupPairs ps (p :: acc)

/-- what each connection receives when the objects `objs` change inside one coalescing window:
    per connection the pairs (first occurrence order, one entry per pair) it is subscribed to -/
def deliveries (s : Db Json Json) (topics : Topics) (objs : List Nat) : Json :=
  let pairs := dedupPairs (objs.filterMap fun o =>
    match s.eventId o with
    | some (some aid, some iid) => some (aid, iid)
    | _ => none) []
  let clients := (topics.foldl (fun acc t => t.2.foldl (fun acc c => if acc.contains c then acc else insertNat c acc) acc) [])
  let rows := clients.filterMap fun c =>
    let got := pairs.filter fun p =>
      match topics.find? (fun (t : (Nat × Nat) × List Nat) => t.1 == p) with
      | some t => t.2.contains c
      | none => false
    if got.isEmpty then none
    else some (Json.arr #[Json.num (c : JsonNumber),
      Json.arr (got.map fun p => Json.arr #[Json.num (p.1 : JsonNumber), Json.num (p.2 : JsonNumber)]).toArray])
  Json.mkObj [("deliveries", Json.arr rows.toArray)]

/-- `{"client": n, "sub": [[aid, iid, on], …]}` (one PUT), `{"notify": obj}` (a value change of that
    object, window elapses) or `{"window": [objs]}` (several value changes inside one window) -/
def runSubs (s : Db Json Json) : List Json → Topics → List Json → R (List Json)
  | [], _, acc => pure acc.reverse
  | st :: rest, topics, acc => do
    match st.getObjVal? "notify", st.getObjVal? "window" with
    | .ok o, _ => do
      runSubs s rest topics (deliveries s topics [← asNat o] :: acc)
    | _, .ok (.arr os) => do
      let objs ← os.toList.mapM asNat
      runSubs s rest topics (deliveries s topics objs :: acc)
    | _, _ => do
      let client ← getNat st "client"
      let subs ← getArr st "sub"
      let topics ← subs.toList.foldlM (fun tp q => do
        match q with
        | .arr #[a, i, b] => do
          let on ← match b with | .bool v => pure v | _ => throw "sub: bool expected"
          pure (subscribe tp (← asNat a, ← asNat i) client on)
        | _ => throw "sub: [aid, iid, on] expected") topics
      runSubs s rest topics acc

def entriesJson (r : ReadResp Json) : Json :=
  Json.arr (r.entries.map fun e =>
    Json.mkObj <|
      [("aid", Json.num e.aid), ("iid", Json.num e.iid)] ++
      (match e.status with | none => [] | some st => [("status", Json.num st)]) ++
      (match e.value with | none => [] | some v => [("obj", v)])).toArray

def runOps17 (s : Db Json Json) : List Step17 → List Json → Db Json Json × List Json
  | [], acc => (s, acc.reverse)
  | .con op :: rest, acc =>
    match s.step op with
    | (s', r) => runOps17 s' rest (resJson r :: acc)
  | .nop :: rest, acc => runOps17 s rest (Json.mkObj [("ok", Json.null)] :: acc)
  | .poll ids :: rest, acc =>
    match s.renderCached true (fun _ => none) with
    | (rs, s1) =>
      let r := ((tagValues s1).handleGet ids (fun _ => none)).1
      let out := Json.mkObj [("poll", Json.mkObj [
        ("accessories", skeletonJson rs), ("code", Json.num r.code), ("entries", entriesJson r)])]
      runOps17 s1 rest (out :: acc)

def handle17 (j : Json) : R Json := do
  let isBridge ← getBool j "bridge"
  let mainSpecs ← getArr j "main"
  -- a standalone accessory may be constructed with aid=None (no HAPProtocolInformation
  -- service); `driver.add_accessory` then gives it aid 1.  A Bridge is always built with aid 1.
  let ctorAid ← if isBridge then pure (some 1) else optNat j "mainAid"
  let defs ← (ctorSpecs ctorAid ++ mainSpecs.toList).mapM svcDefOf
  let ops ← (← getArr j "ops").toList.mapM step17Of
  let s0 : Db Json Json := Db.init isBridge defs
  let (s9, results) := runOps17 s0 ops []
  -- the final GET /accessories also goes through the caches
  let (rs, s) := s9.renderCached true (fun _ => none)
  let rendering := skeletonJson rs
  let resolve := s.listing.map fun (p, o) =>
    let rd := match p with
      | (some aid, some iid) =>
        [("read", jnat? (s.resolveRead aid iid)), ("write", jnat? (s.resolveWrite aid iid))]
      | _ => []
    Json.mkObj ([("pair", jpair p), ("obj", Json.num o),
      ("event", match s.eventId o with | none => Json.null | some e => jpair e)] ++ rd)
  let managers := managerJson s 1 s.main :: s.bridged.map (fun ka => managerJson s ka.1 ka.2)
  let probes ← ((j.getObjValD "probes").getArr?.toOption.getD #[]).toList.mapM (probe17 (tagValues s))
  let subs ← runSubs s ((j.getObjValD "subs").getArr?.toOption.getD #[]).toList [] []
  pure (Json.mkObj [
    ("results", Json.arr results.toArray), ("accessories", rendering),
    ("resolve", Json.arr resolve.toArray), ("managers", Json.arr managers.toArray),
    ("probes", Json.arr probes.toArray), ("subs", Json.arr subs.toArray)])

/-! ### C11: histories over a snapshot of a real configuration -/

def charOf (j : Json) : R (Char Json Json) := do
  pure {
    obj := ← getNat j "obj", typ := ← getStr j "type", props := ← getObj j "props",
    loaderName := ← optStr j "loader", display := ← optStr j "display",
    value := j.getObjValD "value", alwaysNull := ← getBool j "alwaysNull",
    getter := ← getBool j "getter", cacheV := none, cacheN := none }

def svcOf (j : Json) : R (Service Json Json) := do
  let chars ← (← getArr j "chars").toList.mapM charOf
  let primary := match optField j "primary" with
    | some (.bool b) => some b
    | _ => none
  let linked ← ((j.getObjValD "linked").getArr?.toOption.getD #[]).toList.mapM asNat
  pure { obj := ← getNat j "obj", typ := ← getStr j "type", chars := chars, primary := primary, linked := linked }

def iidmOf (pairs : List (Nat × Nat)) (counter : Option Nat := none) : Iid :=
  { counter := counter.getD (pairs.foldl (fun m p => max m p.2) 0),
    iids := fun o => (pairs.find? (·.1 == o)).map (·.2),
    objs := fun i => (pairs.find? (·.2 == i)).map (·.1) }

def accOf (j : Json) : R (Nat × Accessory Json Json) := do
  let aid ← getNat j "aid"
  let svcs ← (← getArr j "services").toList.mapM svcOf
  let pairs ← (← getArr j "iids").toList.mapM pairOf
  let counter ← optNat j "counter"
  pure (aid, { aid := some aid, services := svcs, iidm := iidmOf pairs counter, available := ← getBool j "available" })

def dbOf (j : Json) : R (Db Json Json) := do
  let accs ← (← getArr j "accessories").toList.mapM accOf
  match accs with
  | [] => throw "config: no accessory"
  | (_, m) :: rest =>
    pure { main := m, isBridge := ← getBool j "bridge", bridged := rest, nextObj := (← optNat j "nextObj").getD 0 }

def gByKey (a : Array Json) : R (Nat → Option Json) := do
  let pairs ← a.toList.mapM fun it => do
    match it with
    | .arr #[k, v] => do pure (← asNat k, outcome v)
    | _ => throw "g: [key, outcome] expected"
  pure fun k => (pairs.find? (·.1 == k)).bind (·.2)

def op11Of (j : Json) : R (Op11 Json Json) := do
  let op ← getStr j "op"
  match op with
  | "setValue" => pure (.setValue (← getNat j "obj") (outcome (j.getObjValD "vres")))
  | "assignValue" => pure (.assignValue (← getNat j "obj") (j.getObjValD "value"))
  | "clientUpdate" =>
    pure (.clientUpdate (← getNat j "obj") (outcome (j.getObjValD "vres")) (← getBool j "cbRaises"))
  | "override" =>
    let o ← getNat j "obj"
    match (← getStr j "kind") with
    | "noArgs" => pure (.overrideProps o .noArgs)
    | "invalid" => pure (.overrideProps o .invalid)
    | _ =>
      let props := optField j "props"
      let vv := optField j "validValues"
      let upd : Json → Json := fun p =>
        let p := match props with | some q => p.mergeObj q | none => p
        match vv with | some w => p.setObjVal! "ValidValues" w | none => p
      pure (.overrideProps o (.done upd (outcome (j.getObjValD "newVal"))))
  | "setDisplay" => pure (.setDisplay (← getNat j "obj") (← optStr j "name"))
  | "setGetter" => pure (.setGetter (← getNat j "obj") (← getBool j "on"))
  | "setAvailable" => pure (.setAvailable (← getNat j "aid") (← getBool j "on"))
  | "setPrimary" => pure (.setPrimary (← getNat j "aid") (← getStr j "type"))
  | "addLinked" => pure (.addLinked (← getNat j "aid") (← getNat j "svc") (← getNat j "other"))
  | "readAll" => pure (.readAll (← getBool j "incl") (← gByKey (← getArr j "g")))
  | "readChars" =>
    let ids ← (← getArr j "ids").toList.mapM pairOf
    pure (.readChars ids (← gByKey (← getArr j "g")))
  | _ => throw s!"c11: unknown op {op}"

def out11Json : Out11 Json Json → Json
  | .none => Json.null
  | .accessories none => Json.mkObj [("raised", true)]
  | .accessories (some rs) => Json.mkObj [("accessories", Json.arr (rs.map accRepJson).toArray)]
  | .chars r =>
    Json.mkObj [("code", Json.num r.code), ("characteristics", Json.arr (r.entries.map entryJson).toArray)]

def runOps11 (s : Db Json Json) : List (Op11 Json Json) → List Json → List Json
  | [], acc => acc.reverse
  | op :: rest, acc =>
    match s.step11 op with
    | (s', o) => runOps11 s' rest (out11Json o :: acc)

def handle11 (j : Json) : R Json := do
  let s ← dbOf (← getObj j "config")
  let ops ← (← getArr j "ops").toList.mapM op11Of
  pure (Json.mkObj [("outs", Json.arr (runOps11 s ops []).toArray)])

/-! ### unified histories: construction ops (with the loader's definitions as data) and C11 ops -/

/-- `{"type": t, "props": {…}, "name": loader name, "value": v, "alwaysNull": b}`: a characteristic as
    the loader built it -/
def charDefFull (j : Json) : R (CharDef Json Json) := do
  pure { typ := ← getStr j "type", props := ← getObj j "props", name := ← optStr j "name",
         value := j.getObjValD "value", alwaysNull := ← getBool j "alwaysNull" }

def svcDefFull (j : Json) : R (SvcDef Json Json) := do
  pure { typ := ← getStr j "type", chars := ← (← getArr j "chars").toList.mapM charDefFull }

def opUOf (j : Json) : R (OpU Json Json) := do
  let op ← getStr j "op"
  match op with
  | "addService" => pure (.con (.addService (← getNat j "aid") (← svcDefFull (← getObj j "def"))))
  | "addAccessory" =>
    let defs ← (← getArr j "defs").toList.mapM svcDefFull
    pure (.con (.addAccessory (← optNat j "aid") false defs))
  | "removeAccessory" => pure (.con (.removeAccessory (← getNat j "aid")))
  | "assign" => pure (.con (.assign (← getNat j "aid") (← getNat j "obj")))
  | "removeObj" => pure (.con (.removeObj (← getNat j "aid") (← getNat j "obj")))
  | "removeIid" => pure (.con (.removeIid (← getNat j "aid") (← getNat j "iid")))
  | _ => pure (.db (← op11Of j))

def outUJson : OutU Json Json → Json
  | .res r => resJson r
  | .out o => out11Json o

def runOpsU (s : Db Json Json) : List (OpU Json Json) → List Json → List Json
  | [], acc => acc.reverse
  | op :: rest, acc =>
    match s.stepU op with
    | (s', o) => runOpsU s' rest (outUJson o :: acc)

def handleU (j : Json) : R Json := do
  let s ← dbOf (← getObj j "config")
  let ops ← (← getArr j "ops").toList.mapM opUOf
  pure (Json.mkObj [("outs", Json.arr (runOpsU s ops []).toArray)])

/-! ### manager scripts: explicit and automatic iids mixed (application `get_iid_for_obj` overrides) -/

def opXOf (j : Json) : R Iid.OpX := do
  match (← getStr j "op") with
  | "auto" => pure (.auto (← getNat j "obj"))
  | "explicit" => pure (.explicit (← getNat j "obj") (← getNat j "iid"))
  | "removeObj" => pure (.removeObj (← getNat j "obj"))
  | "removeIid" => pure (.removeIid (← getNat j "iid"))
  | op => throw s!"c17m: unknown op {op}"

/-- `{"start": n, "objects": N, "maxIid": M, "ops": [...]}` → the manager's final counter and maps -/
def handleManager (j : Json) : R Json := do
  let ops ← (← getArr j "ops").toList.mapM opXOf
  let n ← getNat j "objects"
  let mx ← getNat j "maxIid"
  match Iid.runX (Iid.startAt (← getNat j "start")) ops with
  | none => pure (Json.mkObj [("err", "KeyError")])
  | some m =>
    pure (Json.mkObj [
      ("counter", Json.num m.counter),
      ("iids", Json.arr ((List.range n).filterMap fun o =>
        (m.iids o).map fun i => Json.arr #[Json.num o, Json.num i]).toArray),
      ("objs", Json.arr ((List.range (mx + 1)).filterMap fun i =>
        (m.objs i).map fun o => Json.arr #[Json.num i, Json.num o]).toArray)])

def handle (j : Json) : R Json := do
  let op ← getStr j "op"
  match op with
  | "c17" => handle17 j
  | "c17m" => handleManager j
  | "c11" => handle11 j
  | "c11u" => handleU j
  | _ => throw s!"db: unknown op {op}"

end Hap.Drv.Db
