/-
  Line-protocol handler for the dispatch model (C03 cases).
  {"layer":"dispatch","op":"dispatch","method":hex,"target":hex,"headers":[[hex,hex]],"body":hex,
   "verified":bool,"has_uuid":bool,"is_admin":bool,"urlparse":{"ok":hex}|{"err":"ValueError"}}
  The handler bodies are instantiated by a marker body that records its name (the harness never
  compares what a body does; it only needs to know whether the model enters one).
-/
import HapModel.Drv.Util
import HapModel.Dispatch
import HapModel.Gen.Routes
namespace Hap.Drv.Dispatch
open Lean Hap Hap.Drv Hap.Http

def exnOf (s : String) : Exn :=
  match s with
  | "UnprivilegedRequestException" => .unprivileged
  | "AssertionError" => .assertion
  | "KeyError" => .key
  | "ValueError" => .value
  | "UnicodeDecodeError" => .unicodeDecode
  | "AttributeError" => .attribute
  | "TypeError" => .type
  | _ => .other 0

def outcomeOf (j : Json) : R (Except Exn Bytes) := do
  match j.getObjVal? "ok" with
  | .ok v => pure (.ok (← asHex v))
  | .error _ => pure (.error (exnOf (← getStr j "err")))

def headersOf (a : Array Json) : R (List (Bytes × Bytes)) :=
  a.toList.mapM fun it => do
    match it with
    | .arr #[k, v] => pure ((← asHex k), (← asHex v))
    | _ => throw "header must be [hex, hex]"

def reqOf (j : Json) : R Req := do
  pure { method := ← getHex j "method", target := ← getHex j "target",
         headers := ← headersOf (← getArr j "headers") }

def jresp (r : Resp) : List (String × Json) :=
  [("status", Json.num r.status),
   ("headers", Json.arr (r.headers.map fun (k, v) => Json.arr #[Json.str k, Json.str v]).toArray),
   ("body", jhex r.body), ("task", Json.bool r.task), ("shared_key", Json.bool r.sharedKey),
   ("pairing_changed", Json.bool r.pairingChanged)]

/-- marker body: remembers which handler body was entered -/
def markerParams (up : Except Exn Bytes) (isAdmin : Bool) : Params (List String) :=
  { urlparse := fun _ => up, isAdmin := fun _ _ => isAdmin,
    body := fun name w _ => ({ w with st := w.st ++ [name] }, { status := 299 }, none) }

def handle (j : Json) : R Json := do
  let op ← getStr j "op"
  match op with
  | "dispatch" =>
    let req ← reqOf j
    let body ← getHex j "body"
    let up ← outcomeOf (← getObj j "urlparse")
    let P := markerParams up (← getBool j "is_admin")
    let w : World (List String) :=
      { st := [], verified := ← getBool j "verified",
        clientUuid := if (← getBool j "has_uuid") then some 1 else none }
    let (w', r) := dispatch Gen.routes P w (some req) body
    pure (Json.mkObj ([("invoked", Json.arr (w'.st.map Json.str).toArray),
                       ("verified_after", Json.bool w'.verified)] ++ jresp r))
  | "routes" =>
    pure (Json.arr (Gen.routes.map fun r => Json.mkObj
      [("name", Json.str r.name), ("handler", Json.str r.handler), ("exempt", Json.bool r.exempt),
       ("guard", Json.str (reprStr r.guard)), ("method", jhex r.method), ("path", jhex r.path)]).toArray)
  | _ => throw s!"dispatch: unknown op {op}"

end Hap.Drv.Dispatch
