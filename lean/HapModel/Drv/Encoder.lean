/- Line-protocol handlers for the Encoder layer (C14) and the JSON forms of states / documents
   shared with the PairState layer. Dict-valued members travel as arrays of `[key, value]` pairs
   so that their order survives (Lean's `Json.obj` is a sorted map). -/
import HapModel.Drv.Util
import HapModel.EncoderJson
namespace Hap.Drv.Enc
open Lean Hap Hap.Drv Hap.PairState Hap.Encoder

def uuidOfDec (s : String) : R Uuid :=
  match s.toNat? with
  | some n => if h : n < UMAX then pure ⟨n, h⟩ else throw s!"uuid out of range {s}"
  | none => throw s!"bad uuid number {s}"

def juuid (u : Uuid) : Json := Json.str (toString u.val)

def pairsOf (j : Json) (k : String) (f : Json → Json → R α) : R (List α) := do
  let a ← getArr j k
  a.toList.mapM fun it =>
    match it with
    | .arr #[x, y] => f x y
    | _ => throw s!"{k}: expected [key, value] pairs"

def asStr (j : Json) : R String :=
  match j with
  | .str s => pure s
  | _ => throw "expected string"

def pstateOf (j : Json) : R PState := do
  let paired ← pairsOf j "paired" fun u k => do pure ((← uuidOfDec (← asStr u)), (← asHex k))
  let props ← pairsOf j "props" fun u p => do pure ((← uuidOfDec (← asStr u)), (← asNat p))
  let u2b ← pairsOf j "u2b" fun u k => do pure ((← uuidOfDec (← asStr u)), (← asHex k))
  pure { paired, props, u2b }

def jpstateFields (s : PState) : List (String × Json) :=
  [("paired", Json.arr (s.paired.map fun e => Json.arr #[juuid e.1, jhex e.2]).toArray),
   ("props", Json.arr (s.props.map fun e => Json.arr #[juuid e.1, Json.num e.2]).toArray),
   ("u2b", Json.arr (s.u2b.map fun e => Json.arr #[juuid e.1, jhex e.2]).toArray)]

def jpstate (s : PState) : Json := Json.mkObj (jpstateFields s)

def optStr (j : Json) (k : String) : R (Option String) :=
  match j.getObjVal? k with
  | .ok (.str s) => pure (some s)
  | .ok .null => pure none
  | .error _ => pure none
  | .ok _ => throw s!"{k}: expected string or null"

/-- identity part of a state; `ps` is filled by the caller -/
def identOf (j : Json) (ps : PState) : R AccState := do
  pure { mac := ← getStr j "mac", configVersion := ← getInt j "config_version",
         accessoriesHash := ← optStr j "accessories_hash",
         privateKey := ← getHex j "private_key", publicKey := ← getHex j "public_key", ps }

def jacc (a : AccState) : Json :=
  Json.mkObj ([("mac", Json.str a.mac), ("config_version", Json.num (JsonNumber.fromInt a.configVersion)),
    ("accessories_hash", jopt Json.str a.accessoriesHash),
    ("private_key", jhex a.privateKey), ("public_key", jhex a.publicKey)] ++ jpstateFields a.ps)

def jpairs (l : List (String × Json)) : Json :=
  Json.arr (l.map fun e => Json.arr #[Json.str e.1, e.2]).toArray

/-- a JSON value of the state-file model in the line protocol: the top-level object as an object, the
    dict-valued members (depth 1) as arrays of `[key, value]` pairs (order kept), deeper objects as objects -/
partial def jvToJson (depth : Nat) : JV → Json
  | .null => Json.null
  | .num n => Json.num (JsonNumber.fromInt n)
  | .str s => Json.str s
  | .obj m =>
    if depth = 1 then Json.arr (m.map fun e => Json.arr #[Json.str e.1, jvToJson (depth + 1) e.2]).toArray
    else Json.mkObj (m.map fun e => (e.1, jvToJson (depth + 1) e.2))

/-- the inverse reading of a document sent by the harness (`none`: a value no state file holds) -/
partial def jsonToJV (depth : Nat) : Json → Option JV
  | .null => some .null
  | .str s => some (.str s)
  | .num n => if n.exponent = 0 then some (.num n.mantissa) else none
  | .arr a =>
    if depth = 1 then
      (a.toList.mapM fun it =>
        match it with
        | Json.arr #[Json.str k, v] => (jsonToJV (depth + 1) v).map fun x => (k, x)
        | _ => none).map JV.obj
    else none
  | .obj m =>
    (m.toList.mapM fun (e : String × Json) => (jsonToJV (depth + 1) e.2).map fun x => (e.1, x)).map JV.obj
  | .bool _ => none

/-- the state file `persist` writes for `a`, in the line-protocol shape -/
def jfile (a : AccState) : Json := jvToJson 0 (persistJ a)

def handle (j : Json) : R Json := do
  let op ← getStr j "op"
  match op with
  | "persist" =>
    let st ← getObj j "state"
    let a ← identOf st (← pstateOf st)
    pure (Json.mkObj [("doc", jfile a)])
  | "load" =>
    -- a required member that is missing / of the wrong type is a KeyError / TypeError in Python
    match jsonToJV 0 (← getObj j "doc") with
    | none => pure (Json.mkObj [("err", true)])
    | some d =>
      match loadJ d with
      | some a => pure (Json.mkObj [("state", jacc a)])
      | none => pure (Json.mkObj [("err", true)])
  | "roundtrip" =>
    let st ← getObj j "state"
    let a ← identOf st (← pstateOf st)
    let d := persistJ a
    pure (Json.mkObj [("doc", jvToJson 0 d), ("loaded", jopt jacc (loadJ d)),
      ("same", Json.bool (loadJ d = some a))])
  | "uuid_str" => pure (Json.mkObj [("ok", Json.str (strOfUuid (← uuidOfDec (← getStr j "u"))))])
  | "uuid_parse" => pure (Json.mkObj [("ok", jopt juuid (uuidOfStr (← getStr j "s")))])
  | _ => throw s!"encoder: unknown op {op}"

end Hap.Drv.Enc
