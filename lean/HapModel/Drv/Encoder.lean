/- Line-protocol handlers for the Encoder layer (C14) and the JSON forms of states / documents
   shared with the PairState layer. Dict-valued members travel as arrays of `[key, value]` pairs
   so that their order survives (Lean's `Json.obj` is a sorted map). -/
import HapModel.Drv.Util
import HapModel.Encoder
namespace Hap.Drv.Enc
open Lean Hap Hap.Drv Hap.PairState Hap.Encoder

def uuidOfDec (s : String) : R Uuid :=
  match s.toNat? with
  | some n => if h : n < UMAX then pure ⟨n, h⟩ else throw s!"uuid out of range {s}"
  | none => throw s!"bad uuid number {s}"

def juuid (u : Uuid) : Json := Json.str (toString u.val)

def pairsOf (j : Json) (k : String) (f : Json → Json → R α) : R (List α) := do
  let a ← getArr j k
  a.toList.mapM fun it =>
    match it with
    | .arr #[x, y] => f x y
    | _ => throw s!"{k}: expected [key, value] pairs"

def asStr (j : Json) : R String :=
  match j with
  | .str s => pure s
  | _ => throw "expected string"

def pstateOf (j : Json) : R PState := do
  let paired ← pairsOf j "paired" fun u k => do pure ((← uuidOfDec (← asStr u)), (← asHex k))
  let props ← pairsOf j "props" fun u p => do pure ((← uuidOfDec (← asStr u)), (← asNat p))
  let u2b ← pairsOf j "u2b" fun u k => do pure ((← uuidOfDec (← asStr u)), (← asHex k))
  pure { paired, props, u2b }

def jpstateFields (s : PState) : List (String × Json) :=
  [("paired", Json.arr (s.paired.map fun e => Json.arr #[juuid e.1, jhex e.2]).toArray),
   ("props", Json.arr (s.props.map fun e => Json.arr #[juuid e.1, Json.num e.2]).toArray),
   ("u2b", Json.arr (s.u2b.map fun e => Json.arr #[juuid e.1, jhex e.2]).toArray)]

def jpstate (s : PState) : Json := Json.mkObj (jpstateFields s)

def optStr (j : Json) (k : String) : R (Option String) :=
  match j.getObjVal? k with
  | .ok (.str s) => pure (some s)
  | .ok .null => pure none
  | .error _ => pure none
  | .ok _ => throw s!"{k}: expected string or null"

/-- identity part of a state; `ps` is filled by the caller -/
def identOf (j : Json) (ps : PState) : R AccState := do
  pure { mac := ← getStr j "mac", configVersion := ← getInt j "config_version",
         accessoriesHash := ← optStr j "accessories_hash",
         privateKey := ← getHex j "private_key", publicKey := ← getHex j "public_key", ps }

def jacc (a : AccState) : Json :=
  Json.mkObj ([("mac", Json.str a.mac), ("config_version", Json.num (JsonNumber.fromInt a.configVersion)),
    ("accessories_hash", jopt Json.str a.accessoriesHash),
    ("private_key", jhex a.privateKey), ("public_key", jhex a.publicKey)] ++ jpstateFields a.ps)

def jpairs (l : List (String × Json)) : Json :=
  Json.arr (l.map fun e => Json.arr #[Json.str e.1, e.2]).toArray

/-- the document in the shape of the file, dicts as pair arrays -/
def jdoc (d : Doc) : Json :=
  Json.mkObj [
    ("mac", Json.str d.mac),
    ("config_version", Json.num (JsonNumber.fromInt d.configVersion)),
    ("paired_clients", jpairs (d.pairedClients.map fun e => (e.1, Json.str e.2))),
    ("client_properties", jopt (fun cp => jpairs (cp.map fun e => (e.1, Json.mkObj [("permissions", Json.num e.2)]))) d.clientProperties),
    ("accessories_hash", jopt Json.str d.accessoriesHash),
    ("client_uuid_to_bytes", jopt (fun m => jpairs (m.map fun e => (e.1, Json.str e.2))) d.clientUuidToBytes),
    ("private_key", Json.str d.privateKey),
    ("public_key", Json.str d.publicKey)]

def optPairs (j : Json) (k : String) (f : Json → Json → R α) : R (Option (List α)) :=
  match j.getObjVal? k with
  | .ok .null => pure none
  | .error _ => pure none
  | .ok _ => do pure (some (← pairsOf j k f))

def docOf (j : Json) : R Doc := do
  pure {
    mac := ← getStr j "mac", configVersion := ← getInt j "config_version",
    pairedClients := ← pairsOf j "paired_clients" fun k v => do pure ((← asStr k), (← asStr v)),
    clientProperties := ← optPairs j "client_properties" fun k v => do
      pure ((← asStr k), (← getNat v "permissions")),
    accessoriesHash := ← optStr j "accessories_hash",
    clientUuidToBytes := ← optPairs j "client_uuid_to_bytes" fun k v => do pure ((← asStr k), (← asStr v)),
    privateKey := ← getStr j "private_key", publicKey := ← getStr j "public_key" }

def handle (j : Json) : R Json := do
  let op ← getStr j "op"
  match op with
  | "persist" =>
    let st ← getObj j "state"
    let a ← identOf st (← pstateOf st)
    pure (Json.mkObj [("doc", jdoc (persist a))])
  | "load" =>
    -- a required member that is missing / of the wrong type is a KeyError / TypeError in Python
    match docOf (← getObj j "doc") with
    | .error _ => pure (Json.mkObj [("err", true)])
    | .ok d =>
      match load d with
      | some a => pure (Json.mkObj [("state", jacc a)])
      | none => pure (Json.mkObj [("err", true)])
  | "roundtrip" =>
    let st ← getObj j "state"
    let a ← identOf st (← pstateOf st)
    let d := persist a
    pure (Json.mkObj [("doc", jdoc d), ("loaded", jopt jacc (load d)),
      ("same", Json.bool (load d = some a))])
  | "uuid_str" => pure (Json.mkObj [("ok", Json.str (strOfUuid (← uuidOfDec (← getStr j "u"))))])
  | "uuid_parse" => pure (Json.mkObj [("ok", jopt juuid (uuidOfStr (← getStr j "s")))])
  | _ => throw s!"encoder: unknown op {op}"

end Hap.Drv.Enc
