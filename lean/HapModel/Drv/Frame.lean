import HapModel.Drv.Util
import HapModel.Frame
import HapModel.Nonce
import HapModel.Event
namespace Hap.Drv.Frame
open Lean Hap Hap.Drv Hap.Frame

/-- rx: feed reads to the receive state machine (mock AEAD `key`); per-read outputs -/
def rxTrace (A : Aead) : Rx → List Bytes → List Json
  | _, [] => []
  | r, c :: cs =>
    let (r1, o) := r.recv A c
    let j := if r1.closed && !r.closed then Json.mkObj [("err", "InvalidTag")]
             else if r.closed then Json.mkObj [("closed", true)]
             else Json.mkObj [("out", jhex o)]
    j :: rxTrace A r1 cs

/-- rxp: reads interleaved with changes of the "delayed response pending" flag; one answer per READ -/
def rxpTrace (A : Aead) : PConn → List Ev → List Json
  | _, [] => []
  | c, e :: es =>
    let (c1, o) := c.step A e
    match o with
    | none => rxpTrace A c1 es
    | some out =>
      let j := if c1.rx.closed && !c.rx.closed then Json.mkObj [("err", "InvalidTag")]
               else if c.rx.closed then Json.mkObj [("closed", true)]
               else Json.mkObj [("out", jhex out)]
      j :: rxpTrace A c1 es

def evOf (j : Json) : R Ev :=
  match getHex j "read" with
  | .ok d => pure (.read d)
  | .error _ => do
    let b ← getBool j "pending"
    pure (.pending b)

def jout : Out → Json
  | .plain d => Json.mkObj [("plain", jhex d)]
  | .frames k c blks bytes =>
    Json.mkObj [("frames", jhex bytes), ("key", k), ("counter", c), ("nblocks", blks.length)]

def msgOf (j : Json) : R Msg := do
  let kind ← getStr j "kind"
  let data ← getHex j "data"
  match kind with
  | "response" => pure (.response data ((getBool j "key").toOption.getD false))
  | "event" => pure (.event data)
  | "delayed" => pure (.delayed data)
  | _ => throw s!"bad msg kind {kind}"

def handle (j : Json) : R Json := do
  let op ← getStr j "op"
  match op with
  | "rx" =>
    let key ← getNat j "key"
    let reads ← (← getArr j "reads").toList.mapM asHex
    let A := mockAead key
    let tr := rxTrace A {} reads
    let fin := (Rx.run A {} reads).1
    pure (Json.mkObj [("reads", Json.arr tr.toArray), ("cnt", fin.cnt), ("buffered", fin.buf.length),
      ("closed", fin.closed)])
  | "rxp" =>
    let key ← getNat j "key"
    let evs ← (← getArr j "events").toList.mapM evOf
    let A := mockAead key
    let fin := PConn.run A {} evs
    pure (Json.mkObj [("reads", Json.arr (rxpTrace A {} evs).toArray), ("cnt", fin.rx.cnt),
      ("buffered", fin.rx.buf.length), ("closed", fin.rx.closed), ("pending", fin.pending)])
  | "tx" =>
    -- keys[i] = mock key id of the i-th installed out-cipher
    let keys ← (← getArr j "keys").toList.mapM asNat
    let msgs ← (← getArr j "msgs").toList.mapM msgOf
    let K : Nat → Aead := fun i => mockAead (keys.getD i 0)
    pure (Json.mkObj [("writes", Json.arr ((Tx.run K {} msgs).map jout).toArray)])
  | "seal" =>
    -- authentic frames for payloads (used to cross-check the harness' own mock sealer)
    let key ← getNat j "key"
    let ps ← (← getArr j "payloads").toList.mapM asHex
    pure (Json.mkObj [("wire", jhex (wires (mockAead key) 0 ps))])
  | "upgrade" =>
    -- the upgrade boundary: leftover plaintext in the HTTP parser, then reads on the secured connection
    let key ← getNat j "key"
    let leftover ← getHex j "leftover"
    let reads ← (← getArr j "reads").toList.mapM asHex
    let fin := Rx.run (mockAead key) (upgrade leftover) reads
    pure (Json.mkObj [("closed", Json.bool fin.1.closed), ("out", jhex fin.2)])
  | "rekey" =>
    -- a second pair-verify completed inside the session: reads1 under key1, re-key, reads2 under key2
    let k1 ← getNat j "key1"
    let k2 ← getNat j "key2"
    let reads1 ← (← getArr j "reads1").toList.mapM asHex
    let reads2 ← (← getArr j "reads2").toList.mapM asHex
    let fin := Rx.run2 (mockAead k1) (mockAead k2) {} reads1 reads2
    pure (Json.mkObj [("closed", Json.bool fin.1.closed), ("out1", jhex fin.2.1), ("out2", jhex fin.2.2)])
  | "pool" =>
    -- several connections, reads interleaved: keys[i] = mock key of connection i, sched = [[conn, hex]...]
    let keys ← (← getArr j "keys").toList.mapM asNat
    let sched ← (← getArr j "sched").toList.mapM (fun e => do
      let a ← match e with | .arr a => pure a | _ => throw "pool: bad schedule entry"
      let i ← asNat (a.getD 0 .null)
      let d ← asHex (a.getD 1 .null)
      pure (i, d))
    let res := Pool.run (fun i => mockAead (keys.getD i 0)) (fun _ => {}) sched
    let closed := (List.range keys.length).map (fun i => Json.bool (res.1 i).closed)
    pure (Json.mkObj [("outs", Json.arr (res.2.map (fun (i, o) => Json.arr #[toJson i, jhex o])).toArray),
      ("closed", Json.arr closed.toArray)])
  | "pack" =>
    -- byte-level packing: nonces for the given counters, length prefixes for the given lengths
    -- counters either listed, or the run `from, from+1, …` of `count` frame numbers (long sessions)
    let ns ← match getNat j "count" with
      | .ok cnt => do
        let start ← getNat j "from"
        pure ((List.range cnt).map (· + start))
      | .error _ => do (← getArr j "counters").toList.mapM asNat
    let ls ← (← getArr j "lengths").toList.mapM asNat
    let opt (o : Option Bytes) : Json := match o with | some b => jhex b | none => Json.str "struct.error"
    pure (Json.mkObj [("nonces", Json.arr ((ns.map (fun n => opt (packNonce n))).toArray)),
      ("lengths", Json.arr ((ls.map (fun n => opt (packLength n))).toArray))])
  | "event" =>
    -- create_hap_event around the given JSON body bytes
    let body ← getHex j "body"
    pure (Json.mkObj [("msg", jhex (Hap.Event.createEvent body))])
  | _ => throw s!"frame: unknown op {op}"

end Hap.Drv.Frame
