/-
  Line-protocol handler for the pair-setup layer.  One line = one whole script:
    {"layer":"pairsetup","state":{pincode,mac,ltpk,paired:[[uuid,ltpk,perm]]},
     "ops":[{"body":hex,"salt":hex,"b":hex}, …],
     "tables":{"hkdf":[[key,salt,info,out]],"dec":[[key,nonce,ct,pt|null]],"enc":[[key,nonce,pt,ct]],
               "verify":[[pk,sig|null,msg|null,"ok"|"bad"|"valueerror"]],"sign":[[msg,sig]],
               "uuid":[[ident,canonical|null]]}}
  The tables are the graphs of the crypto parameters on the inputs that occurred in the real run
  (DESIGN 1.2 "oracle fields"); SHA-512 and the SRP arithmetic are computed here.  A lookup that
  misses is counted per op ("missing"): the model then fed a crypto function something the
  implementation never did.
  Besides what the handler answers, every request op reports the SPECIFICATION side of the C01 theorems
  (Proofs/PairSetupGate.lean, Proofs/PairSetupOrigin.lean; core Lean, no Mathlib): "good" = `goodM3` of the
  request in the state it was served in, and the ghost afterwards: "exch" = salt of the open exchange,
  "demoA" = the `A` of its latest good M3.  The harness compares them with the same notions computed by
  the independent reference (harness/ref/srp_client.py) from the wire.
-/
import HapModel.Drv.Util
import HapModel.Sha512
import HapModel.PairSetup
import HapModel.Gen.SrpGroup
import Proofs.PairSetupOrigin
namespace Hap.Drv.PairSetup
open Lean Hap Hap.Drv Hap.PairSetup

structure Tables where
  hkdf : List ((Bytes × Bytes × Bytes) × Bytes) := []
  dec : List ((Bytes × Bytes × Bytes) × Option Bytes) := []
  enc : List ((Bytes × Bytes × Bytes) × Bytes) := []
  verify : List ((Bytes × Bytes × Bytes) × Bool) := []
  badKey : List Bytes := []
  sign : List (Bytes × Bytes) := []
  uuid : List (Bytes × Option Bytes) := []

def optHex : Json → R (Option Bytes)
  | .null => pure none
  | j => do pure (some (← asHex j))

def rows (j : Json) (k : String) : R (List (Array Json)) := do
  match j.getObjVal? k with
  | .error _ => pure []
  | .ok v =>
    match v with
    | .arr a => a.toList.mapM fun r => match r with
      | .arr x => pure x
      | _ => throw "table row must be an array"
    | _ => throw "table must be an array"

def parseTables (j : Json) : R Tables := do
  let mut t : Tables := {}
  for r in ← rows j "hkdf" do
    t := { t with hkdf := t.hkdf ++ [((← asHex r[0]!, ← asHex r[1]!, ← asHex r[2]!), ← asHex r[3]!)] }
  for r in ← rows j "dec" do
    t := { t with dec := t.dec ++ [((← asHex r[0]!, ← asHex r[1]!, ← asHex r[2]!), ← optHex r[3]!)] }
  for r in ← rows j "enc" do
    t := { t with enc := t.enc ++ [((← asHex r[0]!, ← asHex r[1]!, ← asHex r[2]!), ← asHex r[3]!)] }
  for r in ← rows j "verify" do
    match r[3]! with
    | .str "valueerror" => t := { t with badKey := t.badKey ++ [← asHex r[0]!] }
    | .str "ok" => t := { t with verify := t.verify ++ [((← asHex r[0]!, ← asHex r[1]!, ← asHex r[2]!), true)] }
    | .str "bad" => t := { t with verify := t.verify ++ [((← asHex r[0]!, ← asHex r[1]!, ← asHex r[2]!), false)] }
    | _ => throw "verify outcome"
  for r in ← rows j "sign" do
    t := { t with sign := t.sign ++ [(← asHex r[0]!, ← asHex r[1]!)] }
  for r in ← rows j "uuid" do
    t := { t with uuid := t.uuid ++ [(← asHex r[0]!, ← optHex r[1]!)] }
  pure t

def MISSING : Bytes := ascii "?missing"

def cryptoOf (t : Tables) : Crypto where
  H := Sha512.sha512
  hkdf k s i := ((t.hkdf.lookup (k, s, i)).getD MISSING)
  aeadEnc k n p := ((t.enc.lookup (k, n, p)).getD MISSING)
  aeadDec k n c := ((t.dec.lookup (k, n, c)).getD (some MISSING))
  sigVerify pk sg m := if t.badKey.contains pk then none else some ((t.verify.lookup (pk, sg, m)).getD false)
  sign m := ((t.sign.lookup m).getD MISSING)
  uuidOf b := ((t.uuid.lookup b).getD none)

def known (t : Tables) : Call → Bool
  | .hkdf k s i => (t.hkdf.lookup (k, s, i)).isSome
  | .dec k n c => (t.dec.lookup (k, n, c)).isSome
  | .enc k n p => (t.enc.lookup (k, n, p)).isSome
  | .verify pk sg m => t.badKey.contains pk || (t.verify.lookup (pk, sg, m)).isSome
  | .sign m => (t.sign.lookup m).isSome
  | .uuid b => (t.uuid.lookup b).isSome

def callName : Call → String
  | .hkdf .. => "hkdf" | .dec .. => "dec" | .enc .. => "enc"
  | .verify .. => "verify" | .sign .. => "sign" | .uuid .. => "uuid"

def parsePairings (a : Array Json) : R Pairings :=
  a.toList.mapM fun r => match r with
    | .arr #[u, k, p] => do pure (← asHex u, ← asHex k, ← asNat p)
    | _ => throw "pairing must be [uuid, ltpk, perm]"

def jpairings (p : Pairings) : Json :=
  Json.arr (p.map fun (u, k, q) => Json.arr #[jhex u, jhex k, Json.num q]).toArray

def kindName : Kind → Json
  | .none => Json.null
  | .tlv => "application/pairing+tlv8"
  | .json => "application/hap+json"

def handle (j : Json) : R Json := do
  let st ← getObj j "state"
  let t ← parseTables (← getObj j "tables")
  let cfg : Cfg := { G := Srp.Gen.hapGroup, c := cryptoOf t }
  let mut ps : PS := {
    pincode := ← getHex st "pincode", mac := ← getHex st "mac", ltpk := ← getHex st "ltpk",
    paired := ← parsePairings (← getArr st "paired"), verifier := none }
  let mut g : Ghost := Ghost.init
  let mut outs : Array Json := #[]
  for op in ← getArr j "ops" do
    if let .ok (.str "advert") := op.getObjVal? "ev" then
      outs := outs.push (Json.mkObj [("advert", jhex (advertisedId ps)), ("paired", jpairings ps.paired)])
      continue
    if let .ok (.str "set-code") := op.getObjVal? "ev" then
      ps := (stepEv cfg ps (.setCode (← getHex op "code"))).1
      outs := outs.push (Json.mkObj [("bystander", Json.str "set-code"), ("paired", jpairings ps.paired)])
      continue
    if let .ok (.str ev) := op.getObjVal? "ev" then
      -- bystander activity: connection made/lost, a refused request on another connection
      let e : Ev := if ev == "conn-lost" then .connLost else if ev == "unpair" then .unpair else .other
      ps := (stepEv cfg ps e).1
      outs := outs.push (Json.mkObj [("bystander", Json.str ev), ("paired", jpairings ps.paired)])
      continue
    let r : Req := { body := ← getHex op "body", salt := ← getHex op "salt", bRand := ← getHex op "b" }
    let (ps', o, calls) := step cfg ps r
    -- `goodM3 cfg ps r` and `gNext cfg ps g r`, evaluated from the answer already computed:
    -- theorems `goodM3_eq_isO1`, `gNext_eq_out` (Proofs/PairSetupOrigin.lean)
    let good := isO1 o
    g := gNextOut ps g r o
    ps := ps'
    let rd := render o
    let missing := (calls.filter fun c => !known t c).map callName
    outs := outs.push (Json.mkObj [
      ("status", Json.num rd.status), ("ctype", kindName rd.kind), ("body", jhex rd.body),
      ("changed", Json.bool rd.pairingChanged), ("paired", jpairings ps.paired),
      ("missing", Json.arr (missing.map Json.str).toArray),
      ("verified", Json.bool (match ps.verifier with | some v => v.verified | none => false)),
      ("good", Json.bool good),
      ("exch", jopt (fun (x : Exch) => jhex x.salt) g.exch),
      ("demoA", jopt jhex g.demoA)])
  pure (Json.mkObj [("ok", Json.arr outs)])

end Hap.Drv.PairSetup
