/- Line-protocol handler for the PairState layer (C06): one line = one whole history. -/
import HapModel.Drv.Encoder
namespace Hap.Drv.PS
open Lean Hap Hap.Drv Hap.Drv.Enc Hap.PairState Hap.Encoder

/-- the `parse` parameter of the model, instantiated from the oracle table sent by the harness
    (`hex of the id bytes ↦ decimal uuid | null`, computed with the real `uuid.UUID`) -/
def parseOf (tbl : Json) (b : Bytes) : Option Uuid :=
  match tbl.getObjVal? (toHex b) with
  | .ok (.str s) =>
    match s.toNat? with
    | some n => if h : n < UMAX then some ⟨n, h⟩ else none
    | none => none
  | _ => none

def optUuid (j : Json) (k : String) : R (Option Uuid) :=
  match j.getObjVal? k with
  | .ok (.str s) => do pure (some (← uuidOfDec s))
  | _ => pure none

def optHex (j : Json) (k : String) : R (Option Bytes) :=
  match j.getObjVal? k with
  | .ok (.str s) => do pure (some (← hexOf s))
  | _ => pure none

def opOf (j : Json) : R Op := do
  let k ← getStr j "k"
  match k with
  | "setup" => pure (.setup (← getHex j "id") (← getHex j "key"))
  | "req" => pure (.req { conn := { enc := ← getBool j "enc", cu := ← optUuid j "cu" }, body := ← getHex j "body" })
  | _ => throw s!"pairstate: unknown op kind {k}"

def jresp : Resp → Json
  | .tlv items pc => Json.mkObj [("code", 200), ("body", jhex (Hap.Tlv.encode items)), ("pc", Json.bool pc)]
  | .http c => Json.mkObj [("code", Json.num c)]

def handle (j : Json) : R Json := do
  let op ← getStr j "op"
  match op with
  | "script" =>
    let tbl ← getObj j "parse"
    let parse := parseOf tbl
    let init ← match j.getObjVal? "init" with
      | .ok i => pstateOf i
      | .error _ => pure PState.empty
    let identJ ← getObj j "ident"
    let ops ← (← getArr j "ops").toList.mapM opOf
    let mut s := init
    let mut outs : Array Json := #[]
    for o in ops do
      -- every identifier the model may hand to `parse` must be in the oracle table
      let idb? : Option Bytes := match o with
        | .setup idb _ => some idb
        | .req r => (Hap.Tlv.decode r.body []).bind fun objs => aget objs tUser
      if let some idb := idb? then
        if (tbl.getObjVal? (toHex idb)).toOption.isNone then
          throw s!"parse table has no entry for id {toHex idb}"
      let (s', r, wrote) := step parse s o
      let doc ← if wrote then do
          let a ← identOf identJ s'
          pure (jdoc (persist a))
        else pure Json.null
      outs := outs.push (Json.mkObj [("resp", jresp r), ("state", jpstate s'), ("wrote", Json.bool wrote), ("doc", doc)])
      s := s'
    pure (Json.mkObj [("steps", Json.arr outs)])
  | "sessions" =>
    -- histories with real sessions: connections are numbered, identity comes from `verify` ops
    let tbl ← getObj j "parse"
    let parse := parseOf tbl
    let identJ ← getObj j "ident"
    let mut s ← match j.getObjVal? "init" with
      | .ok i => pstateOf i
      | .error _ => pure PState.empty
    let mut ss : Sessions := Sessions.fresh
    let mut outs : Array Json := #[]
    for oj in (← getArr j "ops") do
      let k ← getStr oj "k"
      let sop : SOp ← match k with
        | "setup" => pure (SOp.setup (← getHex oj "id") (← getHex oj "key"))
        | "verify" =>
          let idb ← optHex oj "id"
          let signer ← optHex oj "signer"
          pure (SOp.verify (← getNat oj "c") { outerOk := ← getBool oj "outer_ok", idb, signer })
        | "req" => pure (SOp.req (← getNat oj "c") (← getHex oj "body"))
        | _ => throw s!"sessions: unknown op kind {k}"
      let idb? : Option Bytes := match sop with
        | .setup idb _ => some idb
        | .verify _ v => if v.outerOk then v.idb else none
        | .req _ body => (Hap.Tlv.decode body []).bind fun objs => aget objs tUser
      if let some idb := idb? then
        if (tbl.getObjVal? (toHex idb)).toOption.isNone then
          throw s!"parse table has no entry for id {toHex idb}"
      let (s', ss', ans) := sstep parse s ss sop
      let c : Nat := match sop with
        | .verify c _ => c
        | .req c _ => c
        | .setup _ _ => 0
      let sess := Json.mkObj [("enc", Json.bool (ss' c).enc), ("cu", jopt juuid (ss' c).cu)]
      let out ← match sop, ans with
        | .verify _ v, _ =>
          let filled := match verifiesAs parse s v with
            | some (u, idb) => (backfill s u idb).2
            | none => false
          pure (Json.mkObj [("verified", Json.bool (verifies parse s v).isSome), ("sess", sess), ("state", jpstate s'),
            ("wrote", Json.bool filled)])
        | .setup _ _, some (r, wrote) =>
          pure (Json.mkObj [("resp", jresp r), ("state", jpstate s'), ("wrote", Json.bool wrote)])
        | _, some (r, wrote) =>
          let doc ← if wrote then do pure (jdoc (persist (← identOf identJ s'))) else pure Json.null
          pure (Json.mkObj [("resp", jresp r), ("state", jpstate s'), ("wrote", Json.bool wrote), ("doc", doc), ("sess", sess)])
        | _, none => throw "sessions: no answer"
      outs := outs.push out
      s := s'
      ss := ss'
    pure (Json.mkObj [("steps", Json.arr outs)])
  | _ => throw s!"pairstate: unknown op {op}"

end Hap.Drv.PS
