/- Line-protocol handler for the PairState layer (C06): one line = one whole history. -/
import HapModel.Drv.Encoder
import HapModel.PairStateHist
namespace Hap.Drv.PS
open Lean Hap Hap.Drv Hap.Drv.Enc Hap.PairState Hap.Encoder

/-- the `parse` parameter of the model, instantiated from the oracle table sent by the harness
    (`hex of the id bytes ↦ decimal uuid | null`, computed with the real `uuid.UUID`) -/
def parseOf (tbl : Json) (b : Bytes) : Option Uuid :=
  match tbl.getObjVal? (toHex b) with
  | .ok (.str s) =>
    match s.toNat? with
    | some n => if h : n < UMAX then some ⟨n, h⟩ else none
    | none => none
  | _ => none

def optUuid (j : Json) (k : String) : R (Option Uuid) :=
  match j.getObjVal? k with
  | .ok (.str s) => do pure (some (← uuidOfDec s))
  | _ => pure none

def optHex (j : Json) (k : String) : R (Option Bytes) :=
  match j.getObjVal? k with
  | .ok (.str s) => do pure (some (← hexOf s))
  | _ => pure none

def opOf (j : Json) : R Op := do
  let k ← getStr j "k"
  match k with
  | "setup" => pure (.setup (← getHex j "id") (← getHex j "key"))
  | "req" => pure (.req { conn := { enc := ← getBool j "enc", cu := ← optUuid j "cu" }, body := ← getHex j "body" })
  | _ => throw s!"pairstate: unknown op kind {k}"

def jresp : Resp → Json
  | .tlv items pc => Json.mkObj [("code", 200), ("body", jhex (Hap.Tlv.encode items)), ("pc", Json.bool pc)]
  | .http c => Json.mkObj [("code", Json.num c)]

def handle (j : Json) : R Json := do
  let op ← getStr j "op"
  match op with
  | "script" =>
    let tbl ← getObj j "parse"
    let parse := parseOf tbl
    let init ← match j.getObjVal? "init" with
      | .ok i => pstateOf i
      | .error _ => pure PState.empty
    let identJ ← getObj j "ident"
    let ops ← (← getArr j "ops").toList.mapM opOf
    let mut s := init
    let mut outs : Array Json := #[]
    for o in ops do
      -- every identifier the model may hand to `parse` must be in the oracle table
      let idb? : Option Bytes := match o with
        | .setup idb _ => some idb
        | .req r => (Hap.Tlv.decode r.body []).bind fun objs => aget objs tUser
      if let some idb := idb? then
        if (tbl.getObjVal? (toHex idb)).toOption.isNone then
          throw s!"parse table has no entry for id {toHex idb}"
      let (s', r, wrote) := step parse s o
      let doc ← if wrote then do
          let a ← identOf identJ s'
          pure (jfile a)
        else pure Json.null
      let pr : Bool := match o with
        | .req rq => pairingRemoved parse s rq
        | .setup _ _ => false
      outs := outs.push (Json.mkObj [("resp", jresp r), ("state", jpstate s'), ("wrote", Json.bool wrote), ("doc", doc),
        ("pr", Json.bool pr)])
      s := s'
    pure (Json.mkObj [("steps", Json.arr outs)])
  | "sessions" =>
    -- whole-life histories (`hstep`): connections are numbered, identity comes from `verify` ops;
    -- configuration / hash changes and restarts act on the persisted identity
    let tbl ← getObj j "parse"
    let parse := parseOf tbl
    let identJ ← getObj j "ident"
    let s0 ← match j.getObjVal? "init" with
      | .ok i => pstateOf i
      | .error _ => pure PState.empty
    let mut w : World := { acc := ← identOf identJ s0, ss := Sessions.fresh }
    let mut outs : Array Json := #[]
    for oj in (← getArr j "ops") do
      let k ← getStr oj "k"
      let hop : HOp ← match k with
        | "setup" => pure (HOp.s (SOp.setup (← getHex oj "id") (← getHex oj "key")))
        | "verify" =>
          let idb ← optHex oj "id"
          let signer ← optHex oj "signer"
          pure (HOp.s (SOp.verify (← getNat oj "c") { outerOk := ← getBool oj "outer_ok", idb, signer }))
        | "req" => pure (HOp.s (SOp.req (← getNat oj "c") (← getHex oj "body")))
        | "config" => pure HOp.config
        | "hash" => pure (HOp.hsh (← optStr oj "h"))
        | "restart" => pure HOp.restart
        | "stop" => pure HOp.stop
        | _ => throw s!"sessions: unknown op kind {k}"
      let idb? : Option Bytes := match hop with
        | .s (.setup idb _) => some idb
        | .s (.verify _ v) => if v.outerOk then v.idb else none
        | .s (.req _ body) => (Hap.Tlv.decode body []).bind fun objs => aget objs tUser
        | _ => none
      if let some idb := idb? then
        if (tbl.getObjVal? (toHex idb)).toOption.isNone then
          throw s!"parse table has no entry for id {toHex idb}"
      let (w', ans) := hstep parse w hop
      let sessOf := fun (c : Nat) => Json.mkObj [("enc", Json.bool (w'.ss c).enc), ("cu", jopt juuid (w'.ss c).cu)]
      let out ← match hop, ans with
        | .s (.verify c _), .verified ok wrote =>
          pure (Json.mkObj [("verified", Json.bool ok), ("sess", sessOf c), ("state", jpstate w'.acc.ps),
            ("wrote", Json.bool wrote)])
        | .s (.setup _ _), .resp r wrote =>
          pure (Json.mkObj [("resp", jresp r), ("state", jpstate w'.acc.ps), ("wrote", Json.bool wrote)])
        | .s (.req c body), .resp r wrote =>
          let doc := if wrote then jfile w'.acc else Json.null
          pure (Json.mkObj [("resp", jresp r), ("state", jpstate w'.acc.ps), ("wrote", Json.bool wrote), ("doc", doc),
            ("sess", sessOf c), ("pr", Json.bool (pairingRemoved parse w.acc.ps ⟨w.ss c, body⟩))])
        | .config, .saved wrote | .hsh _, .saved wrote =>
          pure (Json.mkObj [("acc", jacc w'.acc), ("wrote", Json.bool wrote), ("doc", if wrote then jfile w'.acc else Json.null)])
        | .stop, .saved _ =>
          pure (Json.mkObj [("stopped", Json.bool true), ("acc", jacc w'.acc)])
        | .restart, .restarted ok =>
          pure (Json.mkObj [("restarted", Json.bool ok), ("acc", jacc w'.acc)])
        | _, _ => throw "sessions: unexpected answer shape"
      outs := outs.push out
      w := w'
    pure (Json.mkObj [("steps", Json.arr outs)])
  | _ => throw s!"pairstate: unknown op {op}"

end Hap.Drv.PS
