/-
  Line-protocol driver for the pair-verify model.  One line = one whole script:
  {"layer":"pv","mac":hex,"tables":{...},"ops":[...]}  →  {"ok":[answer per op]}.
  The cryptographic parameters of the model are instantiated by *tables* computed by the
  independent reference controller with real X25519 / HKDF / ChaCha20-Poly1305 / Ed25519 on the
  concrete script (DESIGN §1.2 "oracle fields"); a miss means "fails" (no key / InvalidTag /
  InvalidSignature / ValueError), so a model that asks a different question than the reference
  anticipated refuses and shows up as a disagreement.
-/
import HapModel.Drv.Util
import HapModel.PairVerify
namespace Hap.Drv.PV
open Lean Hap Hap.Drv Hap.PV

structure Tables where
  pub : List (Nat × Bytes) := []
  dh : List (Nat × Bytes × Option Bytes) := []
  hkdf : List (Bytes × Bytes) := []
  dec : List (Bytes × Bytes × Option Bytes) := []
  verify : List (Bytes × Bytes × Bytes × Bool) := []
  keyok : List (Bytes × Bool) := []
  uuid : List (Bytes × Option Bytes) := []

def optHex (j : Json) : R (Option Bytes) :=
  match j with
  | .null => pure none
  | _ => do pure (some (← asHex j))

def rows (j : Json) (k : String) : R (List (Array Json)) := do
  match j.getObjVal? k with
  | .error _ => pure []
  | .ok v =>
    match v with
    | .arr a => a.toList.mapM fun r => match r with
      | .arr x => pure x
      | _ => throw s!"table {k}: row must be an array"
    | _ => throw s!"table {k}: must be an array"

def asBool (j : Json) : R Bool := match j with
  | .bool b => pure b
  | _ => throw "expected bool"

def parseTables (j : Json) : R Tables := do
  let pub ← (← rows j "pub").mapM fun r => do pure ((← asNat r[0]!), (← asHex r[1]!))
  let dh ← (← rows j "dh").mapM fun r => do pure ((← asNat r[0]!), (← asHex r[1]!), (← optHex r[2]!))
  let hkdf ← (← rows j "hkdf").mapM fun r => do pure ((← asHex r[0]!), (← asHex r[1]!))
  let dec ← (← rows j "dec").mapM fun r => do pure ((← asHex r[0]!), (← asHex r[1]!), (← optHex r[2]!))
  let verify ← (← rows j "verify").mapM fun r => do
    pure ((← asHex r[0]!), (← asHex r[1]!), (← asHex r[2]!), (← asBool r[3]!))
  let keyok ← (← rows j "keyok").mapM fun r => do pure ((← asHex r[0]!), (← asBool r[1]!))
  let uuid ← (← rows j "uuid").mapM fun r => do pure ((← asHex r[0]!), (← optHex r[1]!))
  pure { pub, dh, hkdf, dec, verify, keyok, uuid }

/-- The `Crypto` parameter built from the tables (M2 payload pieces the accessory produces are
    placeholders of the right length: only their length is compared). -/
def cryptoOf (t : Tables) (mac : Bytes) : Crypto where
  pubOf n := ((t.pub.find? fun r => r.1 = n).map (·.2)).getD []
  dh n peer := ((t.dh.find? fun r => r.1 = n ∧ r.2.1 = peer).map (·.2.2)).getD none
  hkdf x := ((t.hkdf.find? fun r => r.1 = x).map (·.2)).getD []
  aeadEnc _ _ pt := pt ++ List.replicate 16 0
  aeadDec k nonce ct :=
    if nonce = NONCE3 then ((t.dec.find? fun r => r.1 = k ∧ r.2.1 = ct).map (·.2.2)).getD none else none
  pkOf sk := sk
  sign _ _ := List.replicate 64 0
  keyOk k := ((t.keyok.find? fun r => r.1 = k).map (·.2)).getD false
  verify k m s := ((t.verify.find? fun r => r.1 = k ∧ r.2.1 = m ∧ r.2.2.1 = s).map (·.2.2.2)).getD false
  parseUuid b := ((t.uuid.find? fun r => r.1 = b).map (·.2)).getD none
  mac := mac
  accSk := []

def jitems (l : Hap.Tlv.Items) : Json :=
  Json.arr (l.map fun (t, v) => Json.arr #[Json.num t.toNat, jhex v]).toArray

def jresp : Resp → Json
  | .pairing body =>
    match Hap.Tlv.decode body [] with
    | some it => Json.mkObj [("status", 200), ("tlv", jitems it)]
    | none => Json.mkObj [("status", 200), ("raw", jhex body)]
  | .err500 => Json.mkObj [("status", 500)]
  | .served => Json.mkObj [("status", 200), ("served", true)]
  | .err401 => Json.mkObj [("status", 401)]
  | .listed n => Json.mkObj [("status", 200), ("listed", n)]

def jpairings (ps : Pairings) : Json :=
  Json.arr (ps.map fun e => Json.arr #[jhex e.uuid, jhex e.key, Json.bool e.admin]).toArray

def parseOp (j : Json) : R Op := do
  match (← getStr j "op") with
  | "pair" => pure (.pair (← getHex j "uuid") (← getHex j "key") (← getBool j "admin"))
  | "unpair" => pure (.unpair (← getHex j "uuid"))
  | "verify" => pure (.verify (← getNat j "conn") (← getHex j "body"))
  | "get" => pure (.get (← getNat j "conn"))
  | "list" => pure (.list (← getNat j "conn"))
  | o => throw s!"pv: unknown op {o}"

def connOf : Op → Option Nat
  | .verify c _ => some c
  | .get c => some c
  | .list c => some c
  | _ => none

def runOps (C : Crypto) : Sys → List Op → List Json → List Json
  | _, [], acc => acc.reverse
  | s, op :: rest, acc =>
    let r := step C s op
    let a : Json :=
      match r.2 with
      | none => Json.mkObj [("paired", jpairings r.1.pairings)]
      | some o =>
        let before := match connOf op with
          | some c => jopt jhex (s.conns c).cipher
          | none => Json.null
        let after := match connOf op with
          | some c => r.1.conns c
          | none => {}
        Json.mkObj [("resp", jresp o.resp), ("under", before), ("upgrade", Json.bool (upgrades r.2)),
                    ("verified", Json.bool after.verified), ("client", jopt jhex after.client)]
    runOps C r.1 rest (a :: acc)

def handle (j : Json) : R Json := do
  let mac ← getHex j "mac"
  let t ← parseTables (← getObj j "tables")
  let ops ← (← getArr j "ops").toList.mapM parseOp
  pure (Json.mkObj [("ok", Json.arr (runOps (cryptoOf t mac) {} ops []).toArray)])

end Hap.Drv.PV
