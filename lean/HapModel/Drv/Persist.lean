import HapModel.Drv.Util
import HapModel.Persist
namespace Hap.Drv.Persist
open Lean Hap Hap.Drv Hap.Persist

def natsOf (j : Json) : R (List Nat) := do
  match j with
  | .arr a => a.toList.mapM asNat
  | _ => throw "expected array of naturals"

def labelOf (j : Json) : R Label := do
  match j with
  | .arr #[.str "mbegin"] => pure .mbegin
  | .arr #[.str "mwrite", n] => do pure (.mwrite (← asNat n))
  | .arr #[.str "mend", .bool b] => pure (.mend b)
  | .arr #[.str "spawn"] => pure .spawn
  | .arr #[.str "crash"] => pure .crash
  | .arr #[.str "adv", n] => do pure (.adv (← asNat n))
  | .arr #[.str "fault", n] => do pure (.fault (← asNat n))
  | .arr #[.str "cancel", n] => do pure (.cancel (← asNat n))
  | _ => throw "bad label"

/-- the name of the step a job at this pc is about to execute (`n` = number of state components) -/
def pcName (n : Nat) : Pc → String
  | .unspawned => "unspawned"
  | .start => "start"
  | .mktemp => "mktemp"
  | .snapshot => "snapshot"
  | .reading got => if got.length < n then s!"read{got.length}" else "dump"
  | .write _ (_ :: _) => "write"
  | .write _ [] => "release"
  | .closing _ => "close"
  | .replace _ => "replace"
  | .cleanup _ => "exists"
  | .remove _ => "remove"
  | .unlock .ok => "unlock-ok"
  | .unlock .raised => "unlock-raised"
  | .unlock .cleanupRaised => "unlock-cleanup-raised"
  | .unlock .cancelled => "unlock-cancelled"
  | .done .ok => "done-ok"
  | .done .raised => "done-raised"
  | .done .cleanupRaised => "done-cleanup-raised"
  | .done .cancelled => "done-cancelled"

def jnat (n : Nat) : Json := Json.num (JsonNumber.fromNat n)
def jnats (l : List Nat) : Json := Json.arr (l.map jnat).toArray

/-- the name of the step a label executes in state `s` -/
def stepName (s : Sys) : Label → String
  | .mbegin => "mbegin"
  | .mwrite c => s!"mwrite{c}"
  | .mend true => "mend+save"
  | .mend false => "mend"
  | .spawn => "spawn"
  | .crash => "crash"
  | .adv j => s!"{j}:{pcName s.mem.length (s.jobs j)}"
  | .fault j => s!"{j}:{pcName s.mem.length (s.jobs j)}!"
  | .cancel j => s!"{j}:cancel"

/-- run, collecting step names; stops at the first label that is not enabled -/
def runTrace (locked slocked : Bool) (ser : Vec → Content) :
    List Label → Sys → List String → Nat → (Sys × List String × Option Nat)
  | [], s, acc, _ => (s, acc.reverse, none)
  | l :: ls, s, acc, i =>
    match step locked slocked ser s l with
    | some s' => runTrace locked slocked ser ls s' (stepName s l :: acc) (i + 1)
    | none => (s, (stepName s l :: acc).reverse, some i)

/-- chunk id standing for the serialisation of a vector that is not in the table (a mix of states) -/
def MIXED : Nat := 999999999

def ownerName : Option Owner → Json
  | none => Json.null
  | some .changer => Json.str "changer"
  | some (.job j) => jnat j

def handle (j : Json) : R Json := do
  let op ← getStr j "op"
  match op with
  | "run" =>
    let locked ← getBool j "locked"
    let slocked ← getBool j "slocked"
    let mem0 ← natsOf (← getObj j "mem0")
    -- serialisation table: [[vector, chunk ids], ...]
    let table ← (← getArr j "ser").toList.mapM fun e => do
      match e with
      | .arr #[v, c] => do pure ((← natsOf v), (← natsOf c))
      | _ => throw "bad ser entry"
    let init ← match (← getObj j "init") with
      | .null => pure none
      | x => do pure (some (← natsOf x))
    let labels ← (← getArr j "labels").toList.mapM labelOf
    let ser : Vec → Content := fun v => (table.lookup v).getD [MIXED]
    let (s, names, blocked) := runTrace locked slocked ser labels (initSys init mem0) [] 0
    let jobs := (List.range s.njobs).map fun i => Json.str (pcName s.mem.length (s.jobs i))
    let temps := (List.range s.njobs).filterMap fun i =>
      (s.temps i).map fun c => Json.arr #[jnat i, jnats c]
    pure (Json.mkObj [
      ("blocked", jopt jnat blocked),
      ("target", jopt jnats s.target),
      ("temps", Json.arr temps.toArray),
      ("mem", jnats s.mem),
      ("changes", jnat (s.hist.length - 1)),
      ("changing", Json.bool s.chg),
      ("slock", ownerName s.slock),
      ("jobs", Json.arr jobs.toArray),
      ("crashed", Json.bool s.crashed),
      ("steps", Json.arr (names.map Json.str).toArray)])
  | _ => throw s!"persist: unknown op {op}"

end Hap.Drv.Persist
