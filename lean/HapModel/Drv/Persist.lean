import HapModel.Drv.Util
import HapModel.Persist
namespace Hap.Drv.Persist
open Lean Hap Hap.Drv Hap.Persist

def natsOf (j : Json) : R (List Nat) := do
  match j with
  | .arr a => a.toList.mapM asNat
  | _ => throw "expected array of naturals"

def labelOf (j : Json) : R Label := do
  match j with
  | .arr #[.str "mutate"] => pure .mutate
  | .arr #[.str "spawn"] => pure .spawn
  | .arr #[.str "change"] => pure .change
  | .arr #[.str "crash"] => pure .crash
  | .arr #[.str "adv", n] => do pure (.adv (← asNat n))
  | .arr #[.str "fault", n] => do pure (.fault (← asNat n))
  | _ => throw "bad label"

def pcName : Pc → String
  | .unspawned => "unspawned"
  | .start => "start"
  | .mktemp => "mktemp"
  | .snapshot => "snapshot"
  | .write _ (_ :: _) => "write"
  | .write _ [] => "close"
  | .replace _ => "replace"
  | .cleanup _ => "exists"
  | .remove _ => "remove"
  | .unlock .ok => "unlock-ok"
  | .unlock .raised => "unlock-raised"
  | .unlock .cleanupRaised => "unlock-cleanup-raised"
  | .done .ok => "done-ok"
  | .done .raised => "done-raised"
  | .done .cleanupRaised => "done-cleanup-raised"

def jnat (n : Nat) : Json := Json.num (JsonNumber.fromNat n)
def jnats (l : List Nat) : Json := Json.arr (l.map jnat).toArray

/-- the name of the step a label executes in state `s` -/
def stepName (s : Sys) : Label → String
  | .mutate => "mutate"
  | .spawn => "spawn"
  | .change => "change"
  | .crash => "crash"
  | .adv j => s!"{j}:{pcName (s.jobs j)}"
  | .fault j => s!"{j}:{pcName (s.jobs j)}!"

/-- run, collecting step names; stops at the first label that is not enabled -/
def runTrace (locked : Bool) (snap : Nat → Content) :
    List Label → Sys → List String → Nat → (Sys × List String × Option Nat)
  | [], s, acc, _ => (s, acc.reverse, none)
  | l :: ls, s, acc, i =>
    match step locked snap s l with
    | some s' => runTrace locked snap ls s' (stepName s l :: acc) (i + 1)
    | none => (s, (stepName s l :: acc).reverse, some i)

def handle (j : Json) : R Json := do
  let op ← getStr j "op"
  match op with
  | "run" =>
    let locked ← getBool j "locked"
    let snaps ← (← getArr j "snaps").toList.mapM natsOf
    let init ← match (← getObj j "init") with
      | .null => pure none
      | x => do pure (some (← natsOf x))
    let labels ← (← getArr j "labels").toList.mapM labelOf
    let snap : Nat → Content := fun v => snaps.getD v []
    let (s, names, blocked) := runTrace locked snap labels (initSys init) [] 0
    let jobs := (List.range s.njobs).map fun i => Json.str (pcName (s.jobs i))
    let temps := (List.range s.njobs).filterMap fun i =>
      (s.temps i).map fun c => Json.arr #[jnat i, jnats c]
    pure (Json.mkObj [
      ("blocked", jopt jnat blocked),
      ("target", jopt jnats s.target),
      ("temps", Json.arr temps.toArray),
      ("ver", jnat s.ver),
      ("jobs", Json.arr jobs.toArray),
      ("crashed", Json.bool s.crashed),
      ("steps", Json.arr (names.map Json.str).toArray)])
  | _ => throw s!"persist: unknown op {op}"

end Hap.Drv.Persist
