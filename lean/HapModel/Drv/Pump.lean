/-
  Line-protocol handler for the pump model (C19): interaction-transcript replay.

  The harness records, on the real HAPServerProtocol, every call made on the connection's
  h11.Connection (with result / exception class), and per `dispatch` the outcome of `urlparse`
  and of the route handler.  Here the model is run against that transcript: h11 is instantiated by
  `transcriptH11` (each operation must be the next recorded call, with the same arguments, and
  continues with the recorded result), the dispatch parameters by the recorded outcomes.  Any
  deviation sets `desync`.
-/
import HapModel.Drv.Dispatch
import HapModel.Pump
namespace Hap.Drv.Pump
open Lean Hap Hap.Drv Hap.Http Hap.Drv.Dispatch

inductive Call
  | receiveData (d : Bytes)
  | nextEvent (ev : Ev)
  | startNextCycle (ok : Bool)
  | ourState (mustClose : Bool)
  | send (ev : SendEv) (res : Option Bytes)
  | trailingData (nonEmpty : Bool)
  | freshConn
  | cbEnd
  | otherCall (name : String)
  deriving Repr

def Call.kind : Call → String
  | .receiveData _ => "receive_data"
  | .nextEvent _ => "next_event"
  | .startNextCycle _ => "start_next_cycle"
  | .ourState _ => "our_state"
  | .send _ _ => "send"
  | .trailingData _ => "trailing_data"
  | .freshConn => "h11.Connection()"
  | .cbEnd => "<end of callback>"
  | .otherCall n => n

structure TS where
  calls : List Call
  desync : Option String := none
  /-- recorded items (h11 calls and callback ends) consumed so far -/
  pos : Nat := 0
  /-- `pos` right after each `next_event() -> EndOfMessage`: where a `dispatch` must sit in the
      ONE interleaved record of the implementation -/
  eomPos : List Nat := []

/-- consume the head of the transcript -/
def TS.adv (t : TS) (rest : List Call) : TS := { t with calls := rest, pos := t.pos + 1 }

def TS.fail (t : TS) (want : String) : TS :=
  match t.desync with
  | some _ => { t with calls := [] }
  | none =>
    let got := match t.calls with
      | [] => "<nothing>"
      | c :: _ => c.kind
    { t with calls := [], desync := some s!"model calls {want}, transcript has {got}" }

def lowerHeaders (h : List (String × String)) : List (String × String) :=
  h.map fun (k, v) => (k.toLower, v)

def sendEvMatches : SendEv → SendEv → Bool
  | .response s h, .response s' h' => s == s' && lowerHeaders h == lowerHeaders h'
  | .data b, .data b' => b == b'
  | .endOfMessage, .endOfMessage => true
  | .connectionClosed, .connectionClosed => true
  | _, _ => false

/-- h11 as recorded -/
def transcriptH11 : H11 TS :=
  { receiveData := fun t d =>
      match t.calls with
      | .receiveData d' :: rest => if d == d' then t.adv rest else t.fail "receive_data(other bytes)"
      | _ => t.fail "receive_data",
    nextEvent := fun t =>
      match t.calls with
      | .nextEvent ev :: rest =>
        let t' := t.adv rest
        (if ev == .endOfMessage then { t' with eomPos := t'.eomPos ++ [t'.pos] } else t', ev)
      | _ => (t.fail "next_event", .needData),
    startNextCycle := fun t =>
      match t.calls with
      | .startNextCycle ok :: rest => (t.adv rest, ok)
      | _ => (t.fail "start_next_cycle", true),
    ourStateMustClose := fun t =>
      match t.calls with
      | .ourState mc :: rest => (t.adv rest, mc)
      | _ => (t.fail "our_state", false),
    send := fun t ev =>
      match t.calls with
      | .send ev' res :: rest =>
        if sendEvMatches ev ev' then (t.adv rest, res)
        else (t.fail s!"send({repr ev})", some [])
      | _ => (t.fail s!"send({repr ev})", some []),
    trailingData := fun t =>
      match t.calls with
      | .trailingData ne :: rest => (t.adv rest, ne)
      | _ => (t.fail "trailing_data", false),
    fresh := fun t =>
      match t.calls with
      | .freshConn :: rest => t.adv rest
      | _ => t.fail "h11.Connection()" }

/-! ### the h11 contract (HapModel/Pump.lean: NextOk, CycleOk, SendOk, SendLegal) on the recorded calls -/

def hstateOf (s : String) : HState :=
  match s with
  | "IDLE" => .idle
  | "SEND_RESPONSE" => .sendResponse
  | "SEND_BODY" => .sendBody
  | "DONE" => .done
  | "MUST_CLOSE" => .mustClose
  | "CLOSED" => .closed
  | "ERROR" => .error
  | "MIGHT_SWITCH_PROTOCOL" => .mightSwitch
  | _ => .switched

/-- (our_state, their_state) before and after one recorded call -/
abbrev St4 := HState × HState × HState × HState

/-- `some reason` if the recorded call breaks a clause of `H11Contract`; the Bool says whether it is a
    refusal of a send the state machine permits (`NoFramingRefusal` does not hold on this call) -/
def contractCheck (c : Call) (s : St4) : Option String × Bool :=
  let (o, t, o', t') := s
  let same := o' == o && t' == t
  match c with
  | .receiveData _ => (if same then none else some "receive_data changed a state", false)
  | .nextEvent ev => (if decide (NextOk o t ev o' t') then none else some s!"next_event {repr ev |>.pretty 60}: {repr o},{repr t} -> {repr o'},{repr t'}", false)
  | .startNextCycle ok => (if decide (CycleOk o t ok o' t') then none else some s!"start_next_cycle {ok}: {repr o},{repr t} -> {repr o'},{repr t'}", false)
  | .ourState _ => (if same then none else some "reading our_state changed a state", false)
  | .trailingData _ => (if same then none else some "reading trailing_data changed a state", false)
  | .send ev res =>
    (if decide (SendOk o t ev res.isSome o' t') then none else some s!"send {res.isSome}: {repr o},{repr t} -> {repr o'},{repr t'}",
     res.isNone && decide (SendLegal o ev))
  | .freshConn => (if o' == .idle && t' == .idle then none else some "a new connection is not IDLE/IDLE", false)
  | _ => (none, false)

/-! ### recorded dispatch outcomes -/

structure HRec where
  name : String
  resp : Resp
  exn : Option Exn
  verifiedAfter : Bool
  uuidAfter : Bool

structure DRec where
  urlparse : Option (Except Exn Bytes)
  handler : Option HRec
  isAdmin : Bool
  /-- after this dispatch the connection's controller id is set and no longer paired -/
  selfGone : Bool
  /-- the `body` / `request.target` the real `dispatch` was called with (if recorded): the model's
      own connection object must have assembled exactly these from ITS h11 events -/
  body : Option Bytes := none
  target : Option Bytes := none
  /-- how many h11 calls / callback ends the implementation had made when it entered this `dispatch` -/
  h11Pos : Option Nat := none

structure DQ where
  recs : List DRec
  desync : Option String := none
  /-- `selfGone` of the dispatch record consumed last -/
  selfGone : Bool := false
  /-- `h11Pos` of the dispatch records consumed, in order -/
  seen : List Nat := []

def paramsOf (rec : DRec) : Params DQ :=
  { urlparse := fun _ => match rec.urlparse with
      | some o => o
      | none => .error (.other 99),
    isAdmin := fun _ _ => rec.isAdmin,
    body := fun _ w _ => match rec.handler with
      | some h => ({ w with verified := h.verifiedAfter,
                            clientUuid := if h.uuidAfter then some 1 else none }, h.resp, h.exn)
      | none => (w, {}, some (.other 98)) }

def orElse (a b : Option String) : Option String :=
  match a with
  | some x => some x
  | none => b

/-- the repaired `dispatch` with this call's recorded parameter values -/
def tdisp : Disp DQ := fun w req body =>
  match w.st.recs with
  | [] =>
    .ok ({ w with st := { w.st with desync := orElse w.st.desync (some "model dispatches, transcript has no dispatch record") } },
         {})
  | rec :: rest =>
    let P := paramsOf rec
    let want := dispatchCalls Gen.routes P req
    let got := (if rec.urlparse.isSome then ["urlparse"] else []) ++
      (match rec.handler with | some h => [h.name] | none => [])
    let badCalls := if want == got then none else some s!"dispatch makes calls {want}, transcript has {got}"
    let badBody := match rec.body with
      | some b => if b == body then none
                  else some s!"dispatch is called with a {body.length}-byte body assembled from this connection's Data events, the implementation passed {b.length} bytes"
      | none => none
    let badTarget := match rec.target, req with
      | some t, some rq => if t == rq.target then none else some "dispatch is called with another request object than this connection's last Request event"
      | some _, none => some "dispatch is called without a request, the implementation passed one"
      | none, _ => none
    let bad := orElse badCalls (orElse badBody badTarget)
    let w1 : World DQ := { w with st := { recs := rest, desync := orElse w.st.desync bad, selfGone := rec.selfGone,
                                          seen := w.st.seen ++ (match rec.h11Pos with | some p => [p] | none => []) } }
    .ok (dispatch Gen.routes P w1 req body)

/-- `_close_unpaired_sessions` as recorded: this connection is torn down (flag cleared, closed)
    iff its controller was no longer paired after the dispatch -/
def ttd : Teardown DQ := fun w =>
  ({ w with verified := if w.st.selfGone then false else w.verified }, w.st.selfGone)

/-! ### JSON -/

def respOf (j : Json) : R Resp := do
  let hs ← (← getArr j "headers").toList.mapM fun it => do
    match it with
    | .arr #[.str k, .str v] => pure (k, v)
    | _ => throw "resp header must be [str, str]"
  pure { status := ← getNat j "status", headers := hs, body := ← getHex j "body",
         task := ← getBool j "task", sharedKey := ← getBool j "shared_key",
         pairingChanged := ← getBool j "pairing_changed",
         pairingRemoved := (j.getObjValAs? Bool "pairing_removed").toOption.getD false }

def optStr (j : Json) (k : String) : Option String :=
  match j.getObjVal? k with
  | .ok (.str s) => some s
  | _ => none

def evOf (j : Json) : R Ev := do
  match (← getStr j "ev") with
  | "NEED_DATA" => pure .needData
  | "PAUSED" => pure .paused
  | "Request" => pure (.request (← reqOf j))
  | "Data" => pure (.data (← getHex j "data"))
  | "EndOfMessage" => pure .endOfMessage
  | "ConnectionClosed" => pure .connectionClosed
  | "RemoteProtocolError" => pure .raiseRemote
  | "LocalProtocolError" => pure .raiseLocal
  | _ => pure .other

def sendEvOf (j : Json) : R SendEv := do
  match (← getStr j "ev") with
  | "Response" =>
    let hs ← (← getArr j "headers").toList.mapM fun it => do
      match it with
      | .arr #[.str k, .str v] => pure (k, v)
      | _ => throw "send header must be [str, str]"
    pure (.response (← getNat j "status") hs)
  | "Data" => pure (.data (← getHex j "data"))
  | "EndOfMessage" => pure .endOfMessage
  | "ConnectionClosed" => pure .connectionClosed
  | e => throw s!"unknown send event {e}"

/-- the trailing `{"s":[our,their,our',their']}` of a recorded call, if present -/
def statesOf (j : Json) : Option St4 :=
  match j with
  | .arr a =>
    match a.toList.getLast? with
    | some o =>
      match o.getObjVal? "s" with
      | .ok (.arr #[.str a, .str b, .str c, .str d]) => some (hstateOf a, hstateOf b, hstateOf c, hstateOf d)
      | _ => none
    | none => none
  | _ => none

def dropStates (l : List Json) : List Json :=
  match l.getLast? with
  | some o => if (o.getObjVal? "s").toOption.isSome then l.dropLast else l
  | none => l

def callOf (j : Json) : R Call := do
  match j with
  | .arr a =>
    match dropStates a.toList with
    | [.str "receive_data", d] => pure (.receiveData (← asHex d))
    | [.str "next_event", e] => pure (.nextEvent (← evOf e))
    | [.str "start_next_cycle", .bool ok] => pure (.startNextCycle ok)
    | [.str "our_state", .bool mc] => pure (.ourState mc)
    | [.str "send", e, .null] => pure (.send (← sendEvOf e) none)
    | [.str "send", e, r] => pure (.send (← sendEvOf e) (some (← asHex r)))
    | [.str "trailing_data", .bool ne] => pure (.trailingData ne)
    | [.str "fresh"] => pure .freshConn
    | [.str "cb_end"] => pure .cbEnd
    | .str n :: _ => pure (.otherCall n)
    | _ => throw "bad call"
  | _ => throw "call must be an array"

def optHex (j : Json) (k : String) : R (Option Bytes) := do
  match j.getObjVal? k with
  | .ok (.str s) => pure (some (← hexOf s))
  | _ => pure none

def drecOf (j : Json) : R DRec := do
  let up ← match j.getObjVal? "urlparse" with
    | .ok .null => pure none
    | .ok v => pure (some (← outcomeOf v))
    | .error _ => pure none
  let h ← match j.getObjVal? "handler" with
    | .ok .null => pure none
    | .error _ => pure none
    | .ok v => do
      pure (some { name := ← getStr v "name", resp := ← respOf (← getObj v "resp"),
                   exn := (optStr v "exn").map exnOf,
                   verifiedAfter := ← getBool v "verified_after", uuidAfter := ← getBool v "uuid_after" : HRec })
  pure { urlparse := up, handler := h, isAdmin := ← getBool j "is_admin",
         selfGone := (j.getObjValAs? Bool "self_gone").toOption.getD false,
         body := ← optHex j "body", target := ← optHex j "target",
         h11Pos := (j.getObjValAs? Nat "h11_pos").toOption }

def exnName : Exn → String
  | .unprivileged => "UnprivilegedRequestException"
  | .assertion => "AssertionError"
  | .key => "KeyError"
  | .value => "ValueError"
  | .unicodeDecode => "UnicodeDecodeError"
  | .attribute => "AttributeError"
  | .type => "TypeError"
  | .localProtocol => "LocalProtocolError"
  | .other _ => "Exception"

def jout : Out → Json
  | .write b => Json.arr #[Json.str "write", jhex b]
  | .writeEof => Json.arr #[Json.str "eof"]
  | .close => Json.arr #[Json.str "close"]

abbrev C := Conn TS DQ

/-- after each callback the transcript must be at the end-of-callback marker -/
def endCallback (c : C) : C :=
  match c.h.calls with
  | .cbEnd :: rest => { c with h := c.h.adv rest }
  | _ => { c with h := c.h.fail "nothing more in this callback" }

def handle (j : Json) : R Json := do
  let op ← getStr j "op"
  match op with
  | "transcript" =>
    let rawCalls := (← getArr j "h11").toList
    let calls ← rawCalls.mapM callOf
    let checks := (calls.zip (rawCalls.map statesOf)).filterMap fun (c, s) => s.map (contractCheck c)
    let broken := checks.filterMap (·.1)
    let framing := (checks.filter (·.2)).length
    let recs ← (← getArr j "disp").toList.mapM drecOf
    let cbs ← getArr j "callbacks"
    let w : World DQ := { st := { recs := recs }, verified := ← getBool j "verified",
                          clientUuid := if (← getBool j "has_uuid") then some 1 else none }
    let fuel := calls.length + 5
    let mut c : C := { h := { calls := calls }, w := w }
    let mut per : Array Json := #[]
    for cb in cbs do
      let kind ← getStr cb "cb"
      let (c1, o) ← match kind with
        | "data" =>
          -- inside a session the harness records what `hap_crypto.decrypt()` returned for this call
          let dec : Bytes → Option Bytes ← match cb.getObjVal? "dec" with
            | .ok .null => pure (fun _ => none)
            | .ok (.str s) => do let b ← hexOf s; pure (fun _ => some b)
            | _ => pure (fun b => some b)
          pure (dataReceived transcriptH11 tdisp ttd dec fuel c (← getHex cb "data"))
        | "ready" =>
          let res ← outcomeOf cb
          pure (runCallback transcriptH11 tdisp ttd id c (.ready res))
        | "lost" => pure (runCallback transcriptH11 tdisp ttd id c .lost)
        | k => throw s!"unknown callback {k}"
      c := endCallback c1
      let esc := match o with
        | .esc e => Json.str (exnName e)
        | .fuel => Json.str "<fuel>"
        | .done => Json.null
      per := per.push (Json.mkObj [("escaped", esc), ("closing", Json.bool c.closing),
        ("writes", Json.num (c.out.filter Out.isWrite).length)])
    let desync := orElse c.h.desync c.w.st.desync
    -- one interleaved record: every dispatch of the implementation sits right behind the
    -- EndOfMessage the model dispatched on (and nowhere else)
    let interleave : Option String :=
      if desync.isSome || recs.any (·.h11Pos.isNone) then none
      else if c.h.eomPos == c.w.st.seen then none
      else some s!"the model dispatches at transcript positions {c.h.eomPos}, the implementation at {c.w.st.seen}"
    pure (Json.mkObj [
      ("desync", match orElse desync interleave with | some s => Json.str s | none => Json.null),
      ("contract_checked", Json.num checks.length),
      ("contract_broken", Json.arr (broken.map Json.str).toArray),
      ("framing_refusals", Json.num framing),
      ("per_callback", Json.arr per),
      ("out", Json.arr (c.out.map jout).toArray),
      ("closing", Json.bool c.closing), ("registered", Json.bool c.registered),
      ("eoms", Json.num c.eoms), ("answered", Json.arr (c.answered.map fun (n : Nat) => Json.num (JsonNumber.fromNat n)).toArray),
      ("pending", Json.bool c.pending.isSome), ("overlapped", Json.bool c.overlapped),
      ("idle", Json.bool c.idle), ("encrypted", Json.bool c.encrypted),
      ("finish_pair", Json.num c.finishPair),
      ("verified", Json.bool c.w.verified),
      ("h11_left", Json.num c.h.calls.length), ("disp_left", Json.num c.w.st.recs.length)])
  | _ => throw s!"pump: unknown op {op}"

end Hap.Drv.Pump
