/-
  Line-protocol driver for the Race layer.  One line = one whole scenario:
    start configuration, loop program, worker program and a schedule given at the granularity of
    accesses to shared variables ("L" / "W" per access, as logged on the real code).
  For every schedule entry the named thread makes its thread-private steps up to and including its
  next shared access; afterwards both threads run to completion (no access may remain).
-/
import HapModel.Drv.Util
import HapModel.Race
namespace Hap.Drv.Race
open Lean Hap Hap.Drv Hap.Race

def objOf (j : Json) : R Obj := do
  match j with
  | .arr #[i, v] => do
    let i ← asNat i
    let v ← match v.getInt? with | .ok n => pure n | .error e => throw e
    pure ⟨i, v⟩
  | _ => throw "object must be [id, val]"

def jobj (o : Obj) : Json := Json.arr #[Json.num o.id, Json.num o.val]

def opOf (j : Json) : R LoopOp := do
  match j with
  | .arr #[.str "toHAP"] => pure .toHAP
  | .arr #[.str "toHAPnv"] => pure .toHAPnv
  | .arr #[.str "getValue"] => pure .getValue
  | .arr #[.str "drain"] => pure .drain
  | .arr #[.str "sub", c] => do pure (.sub (← asNat c))
  | .arr #[.str "unsub", c] => do pure (.unsub (← asNat c))
  | .arr #[.str "flush", c] => do pure (.flush (← asNat c))
  | .arr #[.str "fire", c] => do pure (.fire (← asNat c))
  | .arr #[.str "lost", c] => do pure (.lost (← asNat c))
  | .arr #[.str "write", c, i, v] => do
    let o ← objOf (Json.arr #[i, v])
    pure (.write (← asNat c) o)
  | _ => throw s!"bad loop op {j.compress}"

def upOf (j : Json) : R Update := do
  match j with
  | .arr #[i, v, .bool b] => do
    let o ← objOf (Json.arr #[i, v])
    pure ⟨o, b⟩
  | _ => throw "update must be [id, val, valid]"

def varName : Var → String
  | .value => "value" | .cacheV => "cacheV" | .cache => "cache" | .topicKey => "topicKey" | .queue => "queue"

def jres : Res → Json
  | .rep v => Json.mkObj [("rep", Json.num v.val)]
  | .repNV => Json.str "repNV"
  | .nothing => Json.str "none"
  | .value v => Json.mkObj [("value", Json.num v.val)]

/-- Steps of thread `loopT` (true = loop) up to and including its next shared access.
    `none`: the thread finished without another access. -/
def advance (fix : Variant) (loopT : Bool) : Nat → Cfg → Cfg × Option String
  | 0, s => (s, none)
  | n + 1, s =>
    let (s', l) := if loopT then stepLoop fix s else stepWorker s
    let t := if loopT then "L" else "W"
    match l with
    | .tau => advance fix loopT n s'
    | .done => (s', none)
    | .rd v => (s', some s!"{t}:R:{varName v}")
    | .wr v => (s', some s!"{t}:W:{varName v}")

/-- Run a thread to completion, collecting the accesses it still makes. -/
def finishThread (fix : Variant) (loopT : Bool) : Nat → Cfg → List String → Cfg × List String
  | 0, s, acc => (s, acc)
  | n + 1, s, acc =>
    match advance fix loopT 1000000 s with
    | (s', none) => (s', acc)
    | (s', some l) => finishThread fix loopT n s' (acc ++ [l])

def handle (j : Json) : R Json := do
  let recheck ← getBool j "fix"
  let single := match getBool j "single" with | .ok b => b | .error _ => true
  let fix : Variant := ⟨recheck, single⟩
  let v ← objOf (← getObj j "value")
  let cv ← match (← getObj j "cacheV") with
    | .null => pure none
    | x => do pure (some (← objOf x))
  let cache ← getBool j "cache"
  let subs ← (← getArr j "subs").toList.mapM asNat
  let conns ← (← getArr j "conns").toList.mapM asNat
  let lops ← (← getArr j "lops").toList.mapM opOf
  let wups ← (← getArr j "wups").toList.mapM upOf
  let sched ← getStr j "sched"
  let s0 : Cfg := { init v lops wups subs with cacheV := cv, cache := cache }
  let fuel := 2 * (lops.length + wups.length) + 8
  let mut s := s0
  let mut trace : Array Json := #[]
  let mut stuck : Bool := false
  for ch in sched.toList do
    let (s', l) := advance fix (ch == 'L') fuel s
    s := s'
    match l with
    | some x => trace := trace.push (Json.str x)
    | none =>
      stuck := true
      trace := trace.push (Json.str s!"{ch}:-")
  let bound := 8 * (lops.length + wups.length) + 64
  let (s1, ex1) := finishThread fix true bound s []
  let (s2, ex2) := finishThread fix false bound s1 []
  -- the loop may have more to do after the worker's last hand-off only if accesses remained
  let (s3, ex3) := finishThread fix true bound s2 []
  let fin := s3
  pure (Json.mkObj [
    ("trace", Json.arr trace),
    ("extra", Json.arr ((ex1 ++ ex2 ++ ex3).map Json.str).toArray),
    ("stuck", Json.bool stuck),
    ("results", Json.arr (fin.results.map jres).toArray),
    ("value", Json.num fin.value.val),
    ("cacheV", jopt (fun o => Json.num o.val) fin.cacheV),
    ("cache", Json.bool fin.cache),
    ("topicKey", Json.bool fin.topicKey),
    ("queue", Json.arr (fin.queue.map (fun o => Json.num o.val)).toArray),
    ("subs", Json.arr (fin.subs.map (fun (c : Nat) => Json.num c)).toArray),
    ("pending", Json.arr (conns.map fun c => jopt (fun o => Json.num o.val) (fin.pending c)).toArray),
    ("timer", Json.arr (conns.map fun c => Json.bool (fin.timer c)).toArray),
    ("knows", Json.arr (conns.map fun c => Json.num (fin.knows c).val).toArray),
    ("delivered", Json.arr (conns.map fun c =>
        Json.arr ((fin.delivered c).map (fun o => Json.num o.val)).toArray).toArray),
    ("done", Json.bool (fin.lpc == .idle && fin.lops.isEmpty && fin.wpc == .idle && fin.wups.isEmpty))
  ])

end Hap.Drv.Race
