/-
  Line-protocol driver for the sessions model (C16).  One line = one whole history:
  {"layer":"sess","mac":hex,"tables":{...},"ops":[...]} → {"ok":[{"events":[..],"live":[..],"paired":[..]} per op]}.
  Crypto parameters come from tables as in Drv/PairVerify.lean.  The op "force" (driver only, not a
  model operation) plants a verified session the way the handler tests do
  (`handler.is_encrypted = True; handler.client_uuid = u`).
-/
import HapModel.Drv.PairVerify
import HapModel.Sessions
namespace Hap.Drv.Sess
open Lean Hap Hap.Drv

open Hap.PV (Crypto Uuid) in
open Hap.Sess (RC Event Req) in
def jrc : RC → Json
  | .pv r => Json.mkObj [("pv", Hap.Drv.PV.jresp r)]
  | .served k => Json.mkObj [("served", k)]
  | .unauthorized => "401"
  | .ack => "ack"
  | .pairingsDenied => "denied"
  | .list n => Json.mkObj [("list", n)]
  | .err500 => "500"

open Hap.Sess (Event) in
def jevent : Event → Json
  | .resp c r => Json.mkObj [("e", "resp"), ("conn", c), ("rc", jrc r)]
  | .dropped c r => Json.mkObj [("e", "dropped"), ("conn", c), ("rc", jrc r)]
  | .close c => Json.mkObj [("e", "close"), ("conn", c)]

open Hap.Sess (Req) in
def parseReq (j : Json) : R Req := do
  match (← getStr j "r") with
  | "pv" => pure (.pairVerify (← getHex j "body"))
  | "prot" => pure (.guarded (← getNat j "kind"))
  | "resource" => pure .resource
  | "add" => pure (.addPairing (← getHex j "uname") (← getHex j "key") (← getBool j "admin"))
  | "remove" => pure (.removePairing (← getHex j "uname"))
  | "list" => pure .listPairings
  | o => throw s!"sess: unknown request {o}"

inductive DOp
  | op (o : Hap.Sess.Op)
  | force (c : Nat) (u : Hap.PV.Uuid)

def parseOp (j : Json) : R DOp := do
  match (← getStr j "op") with
  | "connect" => pure (.op (.connect (← getNat j "conn")))
  | "peerclose" => pure (.op (.peerClose (← getNat j "conn")))
  | "pair" => pure (.op (.pair (← getHex j "uuid") (← getHex j "key") (← getBool j "admin")))
  | "chunk" => do
    let reqs ← (← getArr j "reqs").toList.mapM parseReq
    pure (.op (.chunk (← getNat j "conn") reqs))
  | "ready" => pure (.op (.ready (← getNat j "conn") (← getBool j "ok")))
  | "restart" => pure (.op .restart)
  | "force" => pure (.force (← getNat j "conn") (← getHex j "uuid"))
  | o => throw s!"sess: unknown op {o}"

def runOps (C : Hap.PV.Crypto) (repaired : Bool) : Hap.Sess.Sys → List DOp → List Json → List Json
  | _, [], acc => acc.reverse
  | s, d :: rest, acc =>
    let s' : Hap.Sess.Sys := match d with
      | .op o => Hap.Sess.step C repaired s o
      | .force c u =>
        let sc : Hap.Sess.SConn := { (s.conns c) with pv := { (s.conns c).pv with verified := true, client := some u } }
        { s with conns := Hap.Sess.setConn s.conns c sc }
    let a := Json.mkObj [
      ("events", Json.arr ((s'.trace.drop s.trace.length).map jevent).toArray),
      ("live", Json.arr (s'.live.map fun (c : Nat) => (c : Json)).toArray),
      ("paired", Hap.Drv.PV.jpairings s'.pairings)]
    runOps C repaired s' rest (a :: acc)

def handle (j : Json) : R Json := do
  let mac ← getHex j "mac"
  let t ← Hap.Drv.PV.parseTables (← getObj j "tables")
  let ops ← (← getArr j "ops").toList.mapM parseOp
  let repaired := (j.getObjValAs? Bool "repaired").toOption.getD true
  pure (Json.mkObj [("ok", Json.arr (runOps (Hap.Drv.PV.cryptoOf t mac) repaired {} ops []).toArray)])

end Hap.Drv.Sess
