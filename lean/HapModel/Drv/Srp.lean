/-
  Line-protocol handlers for the SHA-512 and SRP layers.
    {"layer":"sha512","data":hex}                                   -> {"ok":hex}
    {"layer":"srp","op":"server","I","code","salt","b","A","M"?}     -> every field of hsrp.Server after set_A (+ verify)
    {"layer":"srp","op":"client","I","code","salt","B","a"}          -> the RFC 5054 reference client
  Integers travel as minimal big-endian hex ("" = 0).
-/
import HapModel.Drv.Util
import HapModel.Sha512
import HapModel.Srp
import HapModel.Gen.SrpGroup
namespace Hap.Drv.Srp
open Lean Hap Hap.Drv Hap.Srp

def jnat (n : Nat) : Json := jhex (natToBytes n)

def getNatHex (j : Json) (k : String) : R Nat := do pure (bytesToNat (← getHex j k))

def handleSha (j : Json) : R Json := do
  let d ← getHex j "data"
  pure (Json.mkObj [("ok", jhex (Sha512.sha512 d))])

def handle (j : Json) : R Json := do
  let op ← getStr j "op"
  let H := Sha512.sha512
  let G := Gen.hapGroup
  match op with
  | "server" =>
    let I ← getHex j "I"
    let code ← getHex j "code"
    let salt ← getHex j "salt"
    let b ← getNatHex j "b"
    let A ← getHex j "A"
    let srv := Srp.mk H G I code salt b
    let srv1 := setA H srv A
    match srv1.sess with
    | none => throw "no session"
    | some ss =>
      let base := [("v", jnat srv.v), ("k", jnat srv.k), ("B", jnat srv.B), ("Bb", jhex srv.Bb),
        ("u", jnat ss.u), ("S", jnat ss.S), ("K", jnat ss.K), ("Kb", jhex ss.Kb),
        ("M", jhex ss.M), ("HAMK", jhex ss.HAMK),
        -- the remaining functions of hsrp.Server, each called on its own (names as in pyhap/hsrp.py)
        ("_get_private_key", jnat (privKey H salt I code)),
        ("_get_verifier", jnat (getVerifier H G salt I code)),
        ("_get_k", jnat (multK H G)),
        ("_derive_B", jnat (deriveB G srv.k srv.v srv.b)),
        ("get_challenge", Json.arr #[jhex srv1.getChallenge.1, jnat srv1.getChallenge.2]),
        ("_padN_A", jhex (padN G A)), ("_padN_B", jhex (padN G srv.Bb)),
        ("_get_K", jnat (getK H ss.Sb)),
        ("_get_M", jhex (proofM H G srv.I srv.s ss.Ab srv.Bb ss.Kb)),
        ("_get_HAMK", jhex (getHAMK H ss.Ab ss.M ss.Kb)),
        ("get_session_key", jopt jnat srv1.sessionKey),
        ("get_session_key_bytes", jopt jhex srv1.sessionKeyBytes)]
      match j.getObjVal? "M" with
      | .ok (.str m) =>
        let m ← hexOf m
        let (srv2, r) := verify srv1 m
        pure (Json.mkObj (base ++ [("verify", jopt jhex r), ("verified", Json.bool srv2.verified)]))
      | _ => pure (Json.mkObj base)
  | "client" =>
    let I ← getHex j "I"
    let code ← getHex j "code"
    let salt ← getHex j "salt"
    let B ← getHex j "B"
    let a ← getNatHex j "a"
    let c := client H G I code salt B a
    pure (Json.mkObj [("A", jhex c.Ab), ("u", jnat c.u), ("S", jnat c.S), ("K", jhex c.K),
      ("M", jhex c.M), ("HAMK", jhex c.HAMK)])
  | _ => throw s!"srp: unknown op {op}"

end Hap.Drv.Srp
