/-
  Line-protocol driver for the SysEvents layer.  One line = one whole script:
    {"layer":"sysev","imm":[2,3],"nul":[2],"fix12":true,"fix13":true,"ops":[["advance",1],["connect",0],...]}
  Answer: {"log":{"<obj>":[[t,kind,...],...]},"digests":[{...} per op]}

  Script-level ops are expanded to model events exactly as the asyncio loop orders callbacks:
    "ready"      = every pending call_soon(_send_events) callback (one loop iteration)
    "advance dt" = ready callbacks, then every due timer in deadline order (event timers, the 300 s
                   idle sweep, the 9 s snapshot timeout), clock jumping to each deadline
    "stop"/"snapshot"/"resp_ready" first run the callbacks that were already ready (FIFO).
-/
import HapModel.Drv.Util
import HapModel.SysEvents
namespace Hap.Drv.SysEvents
open Lean Hap Hap.Drv Hap.Sys

def NA : Nat := 16   -- addresses printed
def NC : Nat := 8    -- characteristics printed
def SNAP_TIMEOUT : Nat := 144  -- RESPONSE_TIMEOUT = 9 s

/-- an entry of the loop's ready queue (`call_soon` order is FIFO across everything) -/
inductive RItem
  | soon (p : ObjId)   -- call_soon(_send_events) of connection p
  | hand               -- call_soon_threadsafe(async_send_event, ...) from a worker thread

structure D where
  s : St := {}
  sweepAt : Option Nat := some SWEEP
  snaps : List (ObjId × Nat) := []   -- snapshot timeout deadlines
  out : Array Out := #[]
  readyQ : List RItem := []          -- the loop's ready queue, in scheduling order

/-- rebuild every map from finite snapshots so that closures do not pile up -/
def normObj (o : Obj) : Obj :=
  let qs := (List.range NC).map o.qsrc |>.toArray
  let ls := (List.range NC).map o.learned |>.toArray
  let ss := (List.range NC).map o.since |>.toArray
  { o with qsrc := fun x => qs.getD x none, learned := fun x => ls.getD x none, since := fun x => ss.getD x false }

def normalize (s : St) : St :=
  let objs := (List.range s.nobj).map (fun q => normObj (s.obj q)) |>.toArray
  let regs := (List.range NA).map s.reg |>.toArray
  let tops := (List.range NC).map s.topics |>.toArray
  let preps := (List.range NA).map s.prepared |>.toArray
  let vals := (List.range NC).map s.value |>.toArray
  { s with obj := fun q => objs.getD q {}, reg := fun a => regs.getD a none,
           topics := fun x => tops.getD x none, prepared := fun a => preps.getD a none,
           value := fun x => vals.getD x (some 0) }

def fire (c : Cfg) (d : D) (e : Ev) : D :=
  let (s', o) := step c d.s e
  -- whatever the step scheduled on the loop goes to the end of the ready queue
  let newHand := List.replicate (s'.handoffs.length - d.s.handoffs.length) RItem.hand
  let newSoon := (List.range s'.nobj).flatMap fun p =>
    List.replicate ((s'.obj p).soon - (d.s.obj p).soon) (RItem.soon p)
  { d with s := normalize s', out := d.out ++ o.toArray, readyQ := d.readyQ ++ newHand ++ newSoon }

/-- one loop iteration: the callbacks that are ready now, in order; what they schedule waits -/
def readyPass (c : Cfg) (d : D) : D :=
  let items := d.readyQ
  items.foldl (fun d it => match it with
    | .soon p => fire c d (Ev.soonFlush p)
    | .hand => fire c d Ev.handOff) { d with readyQ := [] }

/-- loop iterations until nothing is ready -/
def drainReady (c : Cfg) : Nat → D → D
  | 0, d => d
  | fuel + 1, d => if d.readyQ.isEmpty then d else drainReady c fuel (readyPass c d)

inductive Due
  | timer (p : ObjId)
  | sweep
  | snap (p : ObjId)

/-- the earliest deadline ≤ target, if any -/
def nextDue (d : D) (target : Nat) : Option (Nat × Due) :=
  let cands : List (Nat × Due) :=
    ((List.range d.s.nobj).filterMap fun p => (d.s.obj p).timer.map fun t => (t, Due.timer p))
    ++ (match d.sweepAt with | some t => [(t, Due.sweep)] | none => [])
    ++ d.snaps.map (fun (p, t) => (t, Due.snap p))
  let cands := cands.filter (fun x => x.1 ≤ target)
  cands.foldl (fun best x => match best with
    | none => some x
    | some b => if x.1 < b.1 then some x else some b) none

def advance (c : Cfg) (target : Nat) : Nat → D → D
  | 0, d => d
  | fuel + 1, d =>
    let d := drainReady c 1000 d
    match nextDue d target with
    | none => { d with s := { d.s with now := target } }
    | some (t, due) =>
      let d := { d with s := { d.s with now := max d.s.now t } }
      let d := match due with
        | .timer p => fire c d (Ev.timerFire p)
        | .sweep =>
          if (List.range d.s.nobj).any (fun q => decide (idleDue d.s q)) then
            { fire c d Ev.idleSweep with sweepAt := some (t + SWEEP) }
          else
            -- this sweep closes nothing (the step is the identity); so does every later sweep before
            -- some registered connection can become idle: skip them in one go
            let tIdle := (List.range d.s.nobj).foldl (fun m q =>
              if decide (registered d.s q) then min m ((d.s.obj q).last + IDLE + 1) else m) (target + 1)
            let lim := min tIdle (target + 1)
            let k := max 1 ((lim - t + SWEEP - 1) / SWEEP)
            { d with sweepAt := some (t + k * SWEEP) }
        | .snap p =>
          -- timeout: the task fails, `_handle_response_ready` answers 500 unless closing
          let d := { d with snaps := d.snaps.filter (fun x => x.1 ≠ p) }
          fire c d (Ev.respReady p false)
      advance c target fuel d

def optBool (j : Json) : R (Option Bool) :=
  match j with
  | .null => pure none
  | .bool b => pure (some b)
  | _ => throw "expected bool or null"

def optNat (j : Json) : R (Option Nat) :=
  match j with
  | .null => pure none
  | _ => do pure (some (← asNat j))

def asBool (j : Json) : R Bool :=
  match j with
  | .bool b => pure b
  | _ => throw "expected bool"

def applyOp (c : Cfg) (d : D) (op : Array Json) : R D := do
  let k ← match (op[0]? : Option Json) with
    | some (Json.str k) => pure k
    | _ => throw "op must start with a string"
  let arg (i : Nat) : R Json := match op[i]? with
    | some j => pure j
    | none => throw s!"op {k}: missing argument {i}"
  match k with
  | "advance" =>
    let dt ← asNat (← arg 1)
    pure (advance c (d.s.now + dt) 100000 d)
  | "ready" => pure (readyPass c d)
  | "connect" => pure (fire c d (Ev.connect (← asNat (← arg 1))))
  | "verify" => pure (fire c d (Ev.verify (← asNat (← arg 1))))
  | "put" =>
    let p ← asNat (← arg 1)
    let x ← asNat (← arg 2)
    let ev ← optBool (← arg 3)
    let val ← optNat (← arg 4)
    let cl ← asBool (← arg 5)
    pure (fire c d (Ev.data p (Req.put x ev val cl)))
  | "putm" =>
    let p ← asNat (← arg 1)
    let qs ← match (← arg 2) with
      | .arr a => a.toList.mapM fun q => do
          match q with
          | .arr #[x, ev, val] => do pure ((← asNat x), (← optBool ev), (← optNat val))
          | _ => throw "putm: query must be [x, ev, val]"
      | _ => throw "putm: list of queries expected"
    let cl ← asBool (← arg 3)
    pure (fire c d (Ev.data p (Req.putMany qs cl)))
  | "get" => pure (fire c d (Ev.data (← asNat (← arg 1)) (Req.get (← asNat (← arg 2)))))
  | "prepare" => pure (fire c d (Ev.data (← asNat (← arg 1)) (Req.prepare (← asNat (← arg 2)))))
  | "bad_http" => pure (fire c d (Ev.data (← asNat (← arg 1)) Req.badHttp))
  | "bad_frame" => pure (fire c d (Ev.data (← asNat (← arg 1)) Req.badFrame))
  | "snapshot" =>
    let p ← asNat (← arg 1)
    let was := (d.s.obj p).pending
    let d := fire c d (Ev.data p Req.snapshot)
    let d := drainReady c 1000 d
    if (d.s.obj p).pending && !was then
      pure { d with snaps := d.snaps ++ [(p, d.s.now + SNAP_TIMEOUT)] }
    else pure d
  | "resp_ready" =>
    let p ← asNat (← arg 1)
    let d := drainReady c 1000 d
    if d.snaps.any (fun x => x.1 = p) then
      let d := { d with snaps := d.snaps.filter (fun x => x.1 ≠ p) }
      pure (fire c d (Ev.respReady p true))
    else pure d
  | "app_set" => pure (fire c d (Ev.appSet (← asNat (← arg 1)) (← asNat (← arg 2))))
  | "cb" => pure d   -- static configuration, read by `handle` before the run
  | "world" => pure d
  | "app_set_thread" => pure (fire c d (Ev.appSetWorker (← asNat (← arg 1)) (← asNat (← arg 2))))
  | "lose" => pure (fire c d (Ev.lose (← asNat (← arg 1))))
  | "stop" =>
    if d.s.stopped then pure d else
    let d := readyPass c d
    let d := { fire c d Ev.stop with sweepAt := none }
    pure (drainReady c 1000 d)
  | _ => throw s!"sysev: unknown op {k}"

def jval (v : Option Val) : Json := match v with | none => Json.null | some n => Json.num n

def jbody : Body → Json
  | .none => Json.null
  | .value v => Json.mkObj [("value", jval v)]
  | .status n => Json.mkObj [("status", Json.num n)]
  | .image => Json.str "image"
  | .multi l => Json.mkObj [("chars", Json.arr (l.map fun (x, st) => Json.arr #[Json.num x, Json.str "absent", Json.num st]).toArray)]

def outObj : Out → ObjId
  | .event p _ _ => p
  | .resp p _ _ _ => p
  | .eof p _ => p
  | .closed p _ => p

def jout : Out → Json
  | .event _ t es => Json.arr #[Json.num t, "event", Json.arr (es.map fun (x, v) => Json.arr #[Json.num x, Json.num v]).toArray]
  | .resp _ t code b => Json.arr #[Json.num t, "resp", Json.num code, jbody b]
  | .eof _ t => Json.arr #[Json.num t, "eof"]
  | .closed _ t => Json.arr #[Json.num t, "close"]

def insertSorted (n : Nat) : List Nat → List Nat
  | [] => [n]
  | m :: r => if n ≤ m then n :: m :: r else m :: insertSorted n r

def sortNats (l : List Nat) : List Nat := l.foldr insertSorted []

def jnats (l : List Nat) : Json := Json.arr ((sortNats l).map fun (n : Nat) => Json.num n).toArray

def digest (s : St) (nvals : Nat := 4) : Json :=
  let reg := (List.range NA).filterMap fun a => (s.reg a).map fun p => (toString a, Json.num p)
  let tops := (List.range NC).filterMap fun x => (s.topics x).map fun l => (toString x, jnats l)
  let preps := (List.range NA).filterMap fun a => (s.prepared a).map fun l => (toString a, jnats l)
  Json.mkObj [("reg", Json.mkObj reg), ("topics", Json.mkObj tops), ("prepared", Json.mkObj preps),
              ("values", Json.arr ((List.range nvals).map fun x => jval (s.value x)).toArray)]

def natList (j : Json) (k : String) : R (List Nat) := do
  match j.getObjVal? k with
  | .ok (.arr a) => a.toList.mapM asNat
  | _ => pure []

/-- `["cb", x, "echo"] | ["cb", x, "set_to", v2] | ["cb", x, "set_other", y, w] | ["cb", x, "raise"]` -/
def cbOf (ops : Array Json) : R (List (Cid × Callback)) := do
  let mut res : List (Cid × Callback) := []
  for op in ops do
    match op with
    | .arr a =>
      match (a[0]? : Option Json) with
      | some (Json.str "cb") =>
        let x ← asNat (a[1]?.getD Json.null)
        let kind ← match (a[2]? : Option Json) with
          | some (Json.str k) => pure k
          | _ => throw "cb: kind expected"
        let cb ← match kind with
          | "echo" => pure Callback.echo
          | "raise" => pure Callback.raise
          | "set_to" => do pure (Callback.setTo (← asNat (a[3]?.getD Json.null)))
          | "set_other" => do pure (Callback.setOther (← asNat (a[3]?.getD Json.null)) (← asNat (a[4]?.getD Json.null)))
          | _ => throw s!"cb: unknown kind {kind}"
        res := res ++ [(x, cb)]
      | _ => pure ()
    | _ => pure ()
  pure res

def handle (j : Json) : R Json := do
  let imm ← natList j "imm"
  let nul ← natList j "nul"
  let fix12 := (j.getObjValAs? Bool "fix12").toOption.getD true
  let fix13 := (j.getObjValAs? Bool "fix13").toOption.getD true
  let fixResub := (j.getObjValAs? Bool "fixResub").toOption.getD true
  let fixRaise := (j.getObjValAs? Bool "fixRaise").toOption.getD true
  let fixHand := (j.getObjValAs? Bool "fixHand").toOption.getD true
  let ops ← getArr j "ops"
  let cbs ← cbOf ops
  let c : Cfg := { imm := fun x => imm.contains x, nul := fun x => nul.contains x, fix12 := fix12, fix13 := fix13,
                   fixResub := fixResub, fixRaise := fixRaise, fixHand := fixHand,
                   cb := fun x => match cbs.reverse.find? (fun e => e.1 = x) with
                                  | some e => e.2
                                  | none => Callback.none }
  let nvals := (j.getObjValAs? Nat "nchars").toOption.getD 4
  let mut d : D := { s := init c }
  let mut digs : Array Json := #[]
  for op in ops do
    match op with
    | .arr a =>
      d ← applyOp c d a
      digs := digs.push (digest d.s nvals)
    | _ => throw "op must be an array"
  let logs := (List.range d.s.nobj).map fun p =>
    (toString p, Json.arr ((d.out.toList.filter fun o => outObj o = p).map jout).toArray)
  pure (Json.mkObj [("log", Json.mkObj logs), ("digests", Json.arr digs), ("nobj", Json.num d.s.nobj)])

end Hap.Drv.SysEvents
