import HapModel.Drv.Util
import HapModel.Tlv
namespace Hap.Drv.Tlv
open Lean Hap Hap.Drv

def itemsOf (a : Array Json) : R Hap.Tlv.Items :=
  a.toList.mapM fun it => do
    match it with
    | .arr #[t, v] => do
      let t ← asNat t
      let v ← asHex v
      pure (UInt8.ofNat t, v)
    | _ => throw "item must be [tag, hex]"

def jitems (l : Hap.Tlv.Items) : Json :=
  Json.arr (l.map fun (t, v) => Json.arr #[Json.num t.toNat, jhex v]).toArray

def handle (j : Json) : R Json := do
  let op ← getStr j "op"
  match op with
  | "encode" =>
    let items ← itemsOf (← getArr j "items")
    pure (Json.mkObj [("ok", jhex (Hap.Tlv.encode items))])
  | "decode" =>
    let data ← getHex j "data"
    match Hap.Tlv.decode data [] with
    | some r => pure (Json.mkObj [("ok", jitems r)])
    | none => pure (Json.mkObj [("err", "IndexError")])
  | _ => throw s!"tlv: unknown op {op}"

end Hap.Drv.Tlv
