/-
  JSON helpers for the line-protocol driver (core `Lean.Data.Json`, no Mathlib).
-/
import Lean.Data.Json
import HapModel.Bytes
namespace Hap.Drv
open Lean

abbrev R := Except String

def getStr (j : Json) (k : String) : R String := j.getObjValAs? String k
def getNat (j : Json) (k : String) : R Nat := j.getObjValAs? Nat k
def getInt (j : Json) (k : String) : R Int := j.getObjValAs? Int k
def getBool (j : Json) (k : String) : R Bool := j.getObjValAs? Bool k
def getArr (j : Json) (k : String) : R (Array Json) := j.getObjValAs? (Array Json) k
def getObj (j : Json) (k : String) : R Json := j.getObjVal? k

def hexOf (s : String) : R Bytes :=
  match Hap.ofHex s with
  | some b => pure b
  | none => throw s!"bad hex {s}"

def getHex (j : Json) (k : String) : R Bytes := do hexOf (← getStr j k)

def asHex (j : Json) : R Bytes := do
  match j with
  | .str s => hexOf s
  | _ => throw "expected hex string"

def asNat (j : Json) : R Nat := do
  match j.getNat? with
  | .ok n => pure n
  | .error e => throw e

def jhex (b : Bytes) : Json := Json.str (Hap.toHex b)

def jopt (f : α → Json) : Option α → Json
  | none => Json.null
  | some a => f a

end Hap.Drv

namespace Hap.Drv
open Lean

def answer (dispatch : Json → R Json) (line : String) : String :=
  match Json.parse line with
  | .error e => (Json.mkObj [("fatal", Json.str s!"parse: {e}")]).compress
  | .ok j =>
    match dispatch j with
    | .ok r => r.compress
    | .error e => (Json.mkObj [("fatal", Json.str e)]).compress

partial def loop (dispatch : Json → R Json) (h : IO.FS.Stream) (out : IO.FS.Stream) : IO Unit := do
  let line ← h.getLine
  if line.isEmpty then return ()
  let t := line.trimAscii.toString
  if t.isEmpty then loop dispatch h out else
  out.putStrLn (answer dispatch t)
  loop dispatch h out

/-- one JSON object per input line, one JSON object per output line -/
def mainLoop (dispatch : Json → R Json) : IO Unit := do
  let out ← IO.getStdout
  loop dispatch (← IO.getStdin) out
  out.flush

end Hap.Drv
