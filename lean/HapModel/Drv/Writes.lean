/-
  Line-protocol front end of the Writes layer (C10). One line = one whole history:
  {"layer":"writes","topo":{"chars":[[aid,iid,svc],..],"svcCb":[[aid,svc],..],"accCb":[aid,..]},
   (an entry whose (aid, iid) is not in topo.chars names something that is not a characteristic)
   "init":[[aid,iid,val],..],"ops":[op,..]}            (see harness/props/c10.py)
-/
import HapModel.Drv.Util
import HapModel.Writes
namespace Hap.Drv.Writes
open Lean Hap.Drv Hap.Writes

def optStr (j : Json) (k : String) : R (Option String) :=
  match j.getObjVal? k with
  | .ok Json.null => pure none
  | .ok (.str s) => pure (some s)
  | .ok _ => throw s!"{k}: expected string or null"
  | .error _ => pure none

def optNat (j : Json) (k : String) : R (Option Nat) :=
  match j.getObjVal? k with
  | .ok Json.null => pure none
  | .ok v => do pure (some (← asNat v))
  | .error _ => pure none

def optInt (j : Json) (k : String) : R (Option Int) :=
  match j.getObjVal? k with
  | .ok Json.null => pure none
  | .ok v => match v.getInt? with
    | .ok n => pure (some n)
    | .error e => throw e
  | .error _ => pure none

def natPair (j : Json) : R (Nat × Nat) :=
  match j with
  | .arr #[a, b] => do pure (← asNat a, ← asNat b)
  | _ => throw "expected [nat, nat]"

def topoOf (j : Json) : R (Topo × List CharId) := do
  let chars ← (← getArr j "chars").toList.mapM fun c =>
    match c with
    | .arr #[a, i, s] => do pure ((⟨← asNat a, ← asNat i⟩ : CharId), ← asNat s)
    | _ => throw "topo.chars: expected [aid, iid, svc]"
  let svcCb ← (← getArr j "svcCb").toList.mapM natPair
  let accCb ← (← getArr j "accCb").toList.mapM asNat
  let T : Topo := {
    svc := fun c => ((chars.find? (fun x => x.1 = c)).map (·.2)).getD 0
    svcCb := fun a s => svcCb.contains (a, s)
    accCb := fun a => accCb.contains a
    known := fun c => (chars.map (·.1)).contains c }
  pure (T, chars.map (·.1))

def cbOf (j : Json) : R CharCb :=
  match j with
  | .str "none" => pure .absent
  | .str "raise" => pure .raises
  | .arr #[.str "ret", Json.null] => pure (.returns none)
  | .arr #[.str "ret", .str s] => pure (.returns (some s))
  | _ => throw "cb: expected \"none\" | \"raise\" | [\"ret\", val|null]"

def queryOf (_known : List CharId) (j : Json) : R Query := do
  let id : CharId := ⟨← getNat j "aid", ← getNat j "iid"⟩
  pure { id := id, hasValue := ← getBool j "hasValue", value := ← optStr j "value",
         wr := ← getBool j "r", valid := ← optStr j "valid", cb := ← cbOf (← getObj j "cb"),
         nulls := match j.getObjValAs? Bool "nulls" with | .ok b => b | .error _ => false }

def batchOf (known : List CharId) (j : Json) : R Batch := do
  let qs ← (← getArr j "entries").toList.mapM (queryOf known)
  let sr ← (← getArr j "svcRaise").toList.mapM natPair
  let ar ← (← getArr j "accRaise").toList.mapM asNat
  pure { pid := ← optInt j "pid", queries := qs,
         behav := { svcRaises := fun a s => sr.contains (a, s), accRaises := fun a => ar.contains a } }

def opOf (known : List CharId) (j : Json) : R Op := do
  match ← getStr j "op" with
  | "prepare" => pure (.prepare (← getNat j "conn") (← optNat j "ttl") (← optInt j "pid"))
  | "advance" => pure (.advance (← getNat j "dt"))
  | "lose" => pure (.lose (← getNat j "conn"))
  | "write" => pure (.write (← getNat j "conn") (← batchOf known j))
  | o => throw s!"unknown op {o}"

def jval : Option Val → Json
  | none => Json.null
  | some s => Json.str s

def jupd (u : Upd) : Json := Json.arr #[Json.num u.1.aid, Json.num u.1.iid, jval u.2]

def jev : Ev → Json
  | .char c v => Json.arr #["char", Json.num c.aid, Json.num c.iid, Json.str v]
  | .svc a s args => Json.arr #["svc", Json.num a, Json.num s, Json.arr (args.map jupd).toArray]
  | .acc a args => Json.arr #["acc", Json.num a,
      Json.arr (args.map fun (s, us) => Json.arr #[Json.num s, Json.arr (us.map jupd).toArray]).toArray]

def jres (cr : CharId × Res) : Json :=
  Json.arr #[Json.num cr.1.aid, Json.num cr.1.iid, Json.num cr.2.status, jval cr.2.value]

/-- `prepared_writes` over the (conn, pid) pairs that occur in the script -/
def jprep (keys : List (Conn × Pid)) (s : State) : Json :=
  Json.arr (keys.filterMap fun (c, p) =>
    (s.prep c p).map fun e => Json.arr #[Json.num c, Json.num p, Json.num e]).toArray

def keysOf (ops : List Op) : List (Conn × Pid) :=
  (ops.filterMap fun
    | .prepare c _ (some p) => some (c, p)
    | .write c b => b.pid.map fun p => (c, p)
    | _ => none).eraseDups

def runOps (fixed nu : Bool) (T : Topo) (known : List CharId) (keys : List (Conn × Pid)) :
    State → List Op → List Json → List Json
  | _, [], acc => acc.reverse
  | s, op :: rest, acc =>
    match op with
    | .prepare c ttl pid =>
      let r := prepare s c ttl pid
      runOps fixed nu T known keys r.1 rest
        (Json.mkObj [("status", Json.num r.2), ("http", Json.num (httpOfPrepare r.2)), ("prep", jprep keys r.1)] :: acc)
    | .advance dt => runOps fixed nu T known keys (step fixed nu T s (.advance dt)) rest (Json.mkObj [] :: acc)
    | .lose c =>
      let s' := lose s c
      runOps fixed nu T known keys s' rest (Json.mkObj [("prep", jprep keys s')] :: acc)
    | .write c b =>
      let r := write fixed nu T s c b
      let o := r.2
      let body := match o.body with
        | none => Json.null
        | some l => Json.arr (l.map jres).toArray
      runOps fixed nu T known keys r.1 rest
        (Json.mkObj [("http", Json.num (httpOfWrite o)), ("body", body),
                     ("log", Json.arr (o.log.map jev).toArray),
                     ("vals", Json.arr (known.map fun c => Json.arr #[Json.num c.aid, Json.num c.iid, Json.str (r.1.vals c)]).toArray),
                     ("prep", jprep keys r.1)] :: acc)

def handle (j : Json) : R Json := do
  let (T, known) ← topoOf (← getObj j "topo")
  let fixed := match j.getObjValAs? Bool "fixed" with | .ok b => b | .error _ => true
  let nu := match j.getObjValAs? Bool "nu" with | .ok b => b | .error _ => true
  let init ← (← getArr j "init").toList.mapM fun c =>
    match c with
    | .arr #[a, i, .str v] => do pure ((⟨← asNat a, ← asNat i⟩ : CharId), v)
    | _ => throw "init: expected [aid, iid, val]"
  let ops ← (← getArr j "ops").toList.mapM (opOf known)
  let s0 : State := {
    now := ← getNat j "now"
    prep := fun _ _ => none
    vals := fun c => ((init.find? (fun x => x.1 = c)).map (·.2)).getD "?" }
  pure (Json.mkObj [("ops", Json.arr (runOps fixed nu T known (keysOf ops) s0 ops []).toArray)])

end Hap.Drv.Writes
