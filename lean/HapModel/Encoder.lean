/-
  Model of pyhap/encoder.py: `AccessoryEncoder.persist` / `load_into` over the JSON document
  tree of the state file.  JSON text (de)serialisation itself is the trusted library: the model
  works on the tree (`Doc`).  `str(UUID)` / `UUID(str)` and `bytes.hex` / `bytes.fromhex` are
  concrete (`strOfUuid` / `uuidOfStr`, `toHex` / `ofHex`).  The Ed25519 key objects are modelled
  by their 32 raw bytes (`from_private_bytes ∘ private_bytes = id` is the `cryptography`
  library's contract; `from_*_bytes` rejects any other length).
-/
import HapModel.PairState
namespace Hap.Encoder
open Hap Hap.PairState

/-- the state file as a tree. `clientProperties` / `clientUuidToBytes` are `none` when the key
    is missing (files written by older versions); a missing `accessories_hash` and a JSON `null`
    both read as `none` (`loaded.get`). Each `client_properties` value is the object
    `{"permissions": n}`, represented by `n`. -/
structure Doc where
  mac : String
  configVersion : Int
  pairedClients : List (String × String)
  clientProperties : Option (List (String × Nat))
  accessoriesHash : Option String
  clientUuidToBytes : Option (List (String × String))
  privateKey : String
  publicKey : String
deriving DecidableEq, Repr

/-- the persisted part of `pyhap.state.State` -/
structure AccState where
  mac : String
  configVersion : Int
  accessoriesHash : Option String
  privateKey : Bytes
  publicKey : Bytes
  ps : PState
deriving DecidableEq, Repr

/-- `AccessoryEncoder.persist` (the dict handed to `json.dump`) -/
def persist (a : AccState) : Doc where
  mac := a.mac
  configVersion := a.configVersion
  pairedClients := dictOf (a.ps.paired.map fun e => (strOfUuid e.1, toHex e.2))
  clientProperties := some (dictOf (a.ps.props.map fun e => (strOfUuid e.1, e.2)))
  accessoriesHash := a.accessoriesHash
  clientUuidToBytes := some (dictOf (a.ps.u2b.map fun e => (strOfUuid e.1, toHex e.2)))
  privateKey := toHex a.privateKey
  publicKey := toHex a.publicKey

/-- map a partial function over a list; `none` as soon as one element fails (an exception) -/
def optMap {α β : Type} (f : α → Option β) : List α → Option (List β)
  | [] => some []
  | a :: r =>
    match f a, optMap f r with
    | some b, some bs => some (b :: bs)
    | _, _ => none

/-- `Ed25519PrivateKey.from_private_bytes(bytes.fromhex(s))` / the public counterpart -/
def keyOfHex (s : String) : Option Bytes :=
  match ofHex s with
  | some b => if b.length = 32 then some b else none
  | none => none

/-- one member of `paired_clients` / `client_uuid_to_bytes`: `(uuid.UUID(client), bytes.fromhex(key))` -/
def entryOfStr (e : String × String) : Option (Uuid × Bytes) :=
  match uuidOfStr e.1, ofHex e.2 with
  | some u, some k => some (u, k)
  | _, _ => none

/-- one member of `client_properties` -/
def propOfStr (e : String × Nat) : Option (Uuid × Nat) := (uuidOfStr e.1).map fun u => (u, e.2)

/-- legacy branch: `{uuid.UUID(client): {"permissions": 1} for client in loaded["paired_clients"]}` -/
def legacyProp (e : String × String) : Option (Uuid × Nat) := (uuidOfStr e.1).map fun u => (u, 1)

/-- `AccessoryEncoder.load_into` on a fresh state; `none` = an exception (KeyError / ValueError). -/
def load (d : Doc) : Option AccState :=
  let props? : Option (List (Uuid × Nat)) :=
    match d.clientProperties with
    | some cp => optMap propOfStr cp
    | none => optMap legacyProp d.pairedClients
  let paired? : Option (List (Uuid × Bytes)) := optMap entryOfStr d.pairedClients
  let u2b? : Option (List (Uuid × Bytes)) := optMap entryOfStr (d.clientUuidToBytes.getD [])
  match props?, paired?, keyOfHex d.privateKey, keyOfHex d.publicKey, u2b? with
  | some props, some paired, some priv, some pub, some u2b =>
    some { mac := d.mac, configVersion := d.configVersion, accessoriesHash := d.accessoriesHash,
           privateKey := priv, publicKey := pub,
           ps := { paired := dictOf paired, props := dictOf props, u2b := dictOf u2b } }
  | _, _, _, _, _ => none

end Hap.Encoder
