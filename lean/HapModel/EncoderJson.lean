/-
  The state file as a JSON value: which member carries which field.

  `HapModel/Encoder.lean` works on a record (`Doc`) whose fields are the members of the file; this
  file adds the layer in between — a JSON object with *named* members — so that the member names are
  part of the model: `persistJ` writes the names found in `AccessoryEncoder.persist`, `loadJ` looks up
  the names found in `AccessoryEncoder.load_into`.  Both name tables are regenerated from the tree under
  check on every run (`HapModel/Gen/EncoderFields.lean`, extract/encoder_fields.py).
  JSON *text* (json.dump / json.load) stays the trusted library: a `JV` is what json.load returns
  (objects keep their member order; a repeated member name does not occur in a file json.dump wrote).
-/
import HapModel.Encoder
import HapModel.Gen.EncoderFields
namespace Hap.Encoder
open Hap Hap.PairState

/-- the JSON values that occur in a state file -/
inductive JV where
  | null
  | num (n : Int)
  | str (s : String)
  | obj (m : List (String × JV))

/-- the member name of each field -/
structure Keys where
  mac : String
  configVersion : String
  pairedClients : String
  clientProperties : String
  accessoriesHash : String
  clientUuidToBytes : String
  privateKey : String
  publicKey : String
deriving DecidableEq, Repr

def Keys.toList (K : Keys) : List String :=
  [K.mac, K.configVersion, K.pairedClients, K.clientProperties, K.accessoriesHash, K.clientUuidToBytes,
   K.privateKey, K.publicKey]

/-- no two fields share a member -/
def Keys.Distinct (K : Keys) : Prop := K.toList.Nodup

instance (K : Keys) : Decidable K.Distinct := by unfold Keys.Distinct; infer_instance

/-- a generated `field ↦ member` table as a `Keys` record (a field the probe did not find gets a
    name no other field has, so that the table theorems fail rather than hold by accident) -/
def Keys.ofTable (t : List (String × String)) : Keys :=
  let f := fun (r : String) => (aget t r).getD ("<no member for " ++ r ++ ">")
  { mac := f "mac", configVersion := f "config_version", pairedClients := f "paired_clients",
    clientProperties := f "client_properties", accessoriesHash := f "accessories_hash",
    clientUuidToBytes := f "client_uuid_to_bytes", privateKey := f "private_key", publicKey := f "public_key" }

/-- names `AccessoryEncoder.persist` uses now -/
def persistKeys : Keys := Keys.ofTable Hap.Gen.EncoderFields.persistNames
/-- names `AccessoryEncoder.load_into` uses now -/
def loadKeys : Keys := Keys.ofTable Hap.Gen.EncoderFields.loadNames
/-- `CLIENT_PROP_PERMS` -/
def permKey : String := Hap.Gen.EncoderFields.permKey

/-- a `{str: str}` dict -/
def jStrMap (l : List (String × String)) : JV := .obj (l.map fun e => (e.1, .str e.2))

/-- `client_properties`: each value is `{"permissions": n}` -/
def jPropMap (pk : String) (l : List (String × Nat)) : JV :=
  .obj (l.map fun e => (e.1, .obj [(pk, .num (Int.ofNat e.2))]))

/-- the dict `AccessoryEncoder.persist` hands to json.dump (`config_state`), members in its order -/
def docToJson (K : Keys) (pk : String) (d : Doc) : JV :=
  .obj ([(K.mac, .str d.mac), (K.configVersion, .num d.configVersion), (K.pairedClients, jStrMap d.pairedClients)]
    ++ (match d.clientProperties with | some cp => [(K.clientProperties, jPropMap pk cp)] | none => [])
    ++ [(K.accessoriesHash, match d.accessoriesHash with | some h => .str h | none => .null)]
    ++ (match d.clientUuidToBytes with | some m => [(K.clientUuidToBytes, jStrMap m)] | none => [])
    ++ [(K.privateKey, .str d.privateKey), (K.publicKey, .str d.publicKey)])

def strPair (e : String × JV) : Option (String × String) :=
  match e.2 with
  | .str s => some (e.1, s)
  | _ => none

def propPair (pk : String) (e : String × JV) : Option (String × Nat) :=
  match e.2 with
  | .obj m =>
    match aget m pk with
    | some (.num n) => if 0 ≤ n then some (e.1, n.toNat) else none
    | _ => none
  | _ => none

def strPairs : JV → Option (List (String × String))
  | .obj m => optMap strPair m
  | _ => none

def propPairs (pk : String) : JV → Option (List (String × Nat))
  | .obj m => optMap (propPair pk) m
  | _ => none

/-- what `load_into` reads out of the loaded dict: `loaded["mac"]`, `loaded["config_version"]`,
    `loaded["paired_clients"]`, `loaded["private_key"]`, `loaded["public_key"]` (KeyError when missing),
    `"client_properties" in loaded`, `loaded.get("accessories_hash")`,
    `loaded.get("client_uuid_to_bytes", {})`.  `none` = an exception. -/
def docOfJson (K : Keys) (pk : String) : JV → Option Doc
  | .obj m =>
    match aget m K.mac, aget m K.configVersion, aget m K.pairedClients, aget m K.privateKey, aget m K.publicKey with
    | some (.str mac), some (.num cv), some pc, some (.str priv), some (.str pub) =>
      let cp? : Option (Option (List (String × Nat))) :=
        match aget m K.clientProperties with
        | none => some none
        | some j => (propPairs pk j).map some
      let hash? : Option (Option String) :=
        match aget m K.accessoriesHash with
        | none => some none
        | some .null => some none
        | some (.str s) => some (some s)
        | some _ => none
      let u2b? : Option (Option (List (String × String))) :=
        match aget m K.clientUuidToBytes with
        | none => some none
        | some j => (strPairs j).map some
      match strPairs pc, cp?, hash?, u2b? with
      | some pcl, some cp, some h, some ub =>
        some { mac := mac, configVersion := cv, pairedClients := pcl, clientProperties := cp,
               accessoriesHash := h, clientUuidToBytes := ub, privateKey := priv, publicKey := pub }
      | _, _, _, _ => none
    | _, _, _, _, _ => none
  | _ => none

/-- `AccessoryEncoder.persist`: the JSON value written to the state file -/
def persistJ (a : AccState) : JV := docToJson persistKeys permKey (persist a)

/-- `AccessoryEncoder.load_into` on the JSON value read from the state file -/
def loadJ (j : JV) : Option AccState := (docOfJson loadKeys permKey j).bind load

/-- the file without one member (what a release that did not write that member yet produced) -/
def JV.without : JV → String → JV
  | .obj m, k => .obj (adel m k)
  | j, _ => j

end Hap.Encoder
