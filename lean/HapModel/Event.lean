/-
  Model of pyhap/hap_event.py `create_hap_event`: the EVENT/1.0 message around a JSON body.
  The JSON serialisation (`to_hap_json`, orjson) is library behaviour: the model takes the body bytes.
-/
import HapModel.Bytes
namespace Hap.Event
open Hap

/-- decimal digits, least significant first (`fuel` bounds the recursion; `n + 1` always suffices) -/
def decDigitsRev : Nat → Nat → List Nat
  | 0, _ => []
  | f+1, n => if n < 10 then [n] else (n % 10) :: decDigitsRev f (n / 10)

/-- `str(n).encode("utf-8")` -/
def decimal (n : Nat) : Bytes := (decDigitsRev (n+1) n).reverse.map fun d => UInt8.ofNat (48 + d)

def ascii (s : String) : Bytes := s.toList.map fun c => UInt8.ofNat c.toNat

/-- `EVENT_MSG_STUB` -/
def stub : Bytes := ascii "EVENT/1.0 200 OK\r\nContent-Type: application/hap+json\r\nContent-Length: "

def crlf2 : Bytes := [13, 10, 13, 10]

/-- `b"".join((EVENT_MSG_STUB, str(len(body)).encode("utf-8"), b"\r\n" * 2, body))` -/
def createEvent (body : Bytes) : Bytes := stub ++ decimal body.length ++ crlf2 ++ body

/-! ### an independent reader (what a controller does with the stream) -/

def isDigit (b : UInt8) : Bool := 48 ≤ b.toNat && b.toNat ≤ 57

def parseDec (b : Bytes) : Nat := b.foldl (fun acc x => acc * 10 + (x.toNat - 48)) 0

/-- Read one EVENT message from the front of a byte stream: the fixed head, a decimal
    Content-Length, the blank line, then exactly that many body bytes. Returns (body, rest). -/
def readEvent (s : Bytes) : Option (Bytes × Bytes) :=
  if s.take stub.length = stub then
    let r := s.drop stub.length
    let ds := r.takeWhile isDigit
    let r2 := r.dropWhile isDigit
    if ds ≠ [] ∧ r2.take 4 = crlf2 then
      let n := parseDec ds
      let r3 := r2.drop 4
      if n ≤ r3.length then some (r3.take n, r3.drop n) else none
    else none
  else none

end Hap.Event
