/-
  Model of the encrypted transport: pyhap/hap_crypto.py (`HAPCrypto.encrypt`, `decrypt`,
  `receive_data`) and the cipher part of `HAPServerProtocol.data_received` / `write`
  (pyhap/hap_protocol.py), over an abstract AEAD.

  One `Aead` value stands for one direction's cipher object (key fixed); the nonce is the
  frame counter (`PACK_NONCE(count)` = 4 zero bytes ‖ LE64 count is injective in the counter).
-/
import HapModel.Bytes
namespace Hap.Frame
open Hap

structure Aead where
  /-- `cipher.encrypt(nonce(count), block, aad)` : ciphertext ‖ tag -/
  enc : Nat → Bytes → Bytes → Bytes
  /-- `cipher.decrypt(nonce(count), data, aad)` : `none` = InvalidTag -/
  dec : Nat → Bytes → Bytes → Option Bytes
  enc_len : ∀ n a p, (enc n a p).length = p.length + 16

/-- `HAP_CRYPTO.TAG_LENGTH` -/
def TAG : Nat := 16
/-- `HAPCrypto.LENGTH_LENGTH` -/
def LENLEN : Nat := 2
/-- `HAPCrypto.MIN_BLOCK_LENGTH` = LENGTH_LENGTH + TAG_LENGTH + MIN_PAYLOAD_LENGTH -/
def MINBLK : Nat := 19
/-- `HAPCrypto.MAX_BLOCK_LENGTH` -/
def MAXBLK : Nat := 1024

/-! ### receive side -/

/-- The `while` loop of `HAPCrypto.decrypt` (loop guard `len(buf) >= MIN_BLOCK_LENGTH`).
    Returns `none` when the cipher raises InvalidTag, else (remaining buffer, counter, result). -/
def drain (A : Aead) (buf : Bytes) (cnt : Nat) (acc : Bytes) : Option (Bytes × Nat × Bytes) :=
  if buf.length ≥ MINBLK then
    let L := rdLe16 buf
    if buf.length < 2 + L + TAG then some (buf, cnt, acc)
    else match A.dec cnt (buf.take 2) ((buf.drop 2).take (L + TAG)) with
      | none => none
      | some pt => drain A (buf.drop (2 + L + TAG)) (cnt + 1) (acc ++ pt)
  else some (buf, cnt, acc)
termination_by buf.length
decreasing_by simp [List.length_drop, MINBLK, TAG] at *; omega

/-- The loop as it was before the repair: guard `len(buf) > MIN_BLOCK_LENGTH`. -/
def drainLegacy (A : Aead) (buf : Bytes) (cnt : Nat) (acc : Bytes) : Option (Bytes × Nat × Bytes) :=
  if buf.length > MINBLK then
    let L := rdLe16 buf
    if buf.length < 2 + L + TAG then some (buf, cnt, acc)
    else match A.dec cnt (buf.take 2) ((buf.drop 2).take (L + TAG)) with
      | none => none
      | some pt => drainLegacy A (buf.drop (2 + L + TAG)) (cnt + 1) (acc ++ pt)
  else some (buf, cnt, acc)
termination_by buf.length
decreasing_by simp [List.length_drop, MINBLK, TAG] at *; omega

/-- Receive state of one secured connection: `HAPCrypto._crypt_in_buffer`, `_in_count`, and
    whether `HAPServerProtocol.close()` has been called because of an InvalidTag. -/
structure Rx where
  buf : Bytes := []
  cnt : Nat := 0
  closed : Bool := false
deriving Repr

/-- `HAPServerProtocol.data_received` on a secured connection: returns the new state and the
    bytes handed to the HTTP layer by this read (`[]` = nothing handed over). -/
def Rx.recv (A : Aead) (r : Rx) (chunk : Bytes) : Rx × Bytes :=
  if r.closed then (r, [])
  else match drain A (r.buf ++ chunk) r.cnt [] with
    | none => ({ r with closed := true }, [])
    | some (b, c, out) => ({ buf := b, cnt := c, closed := false }, out)

/-- `HAPServerProtocol._process_response` when the pair-verify completion response upgrades a
    plaintext connection. `leftover` is what the HTTP parser still holds at that moment: bytes that
    were received in plaintext before the session existed (`h11.Connection.trailing_data`). They are
    not payloads of authentic frames: the parser is replaced, the connection is closed. -/
def upgrade (leftover : Bytes) : Rx :=
  if leftover = [] then {} else { closed := true }

/-- `HAPServerProtocol._process_response` when a response carries a shared key on a connection
    that is ALREADY secured (pair-verify completed a second time, inside the session): the
    `HAPCrypto` object is replaced by a new one for the new key — fresh counter, empty ciphertext
    buffer; nothing of the old receive state survives. A closed connection stays closed. -/
def Rx.rekey (r : Rx) : Rx := if r.closed then r else {}

/-- feed a list of reads; total bytes handed to the HTTP layer -/
def Rx.run (A : Aead) : Rx → List Bytes → Rx × Bytes
  | r, [] => (r, [])
  | r, c :: cs =>
    let (r1, o1) := r.recv A c
    let (r2, o2) := Rx.run A r1 cs
    (r2, o1 ++ o2)

/-- two sessions on one connection: reads `cs1` under the first key, the re-key, reads `cs2` under
    the second key. Returns the final state and the bytes handed over in each epoch. -/
def Rx.run2 (A1 A2 : Aead) (r : Rx) (cs1 cs2 : List Bytes) : Rx × Bytes × Bytes :=
  let (r1, o1) := Rx.run A1 r cs1
  let (r2, o2) := Rx.run A2 r1.rekey cs2
  (r2, o1, o2)

/-- Several secured connections served by one process. Every `HAPServerProtocol` owns its `HAPCrypto`
    (buffer, counter, ciphers are instance attributes created in `__init__`), so a read on connection
    `i` touches the receive state of connection `i` only. A schedule is a list of (connection, read). -/
def Pool := Nat → Rx

def Pool.set (p : Pool) (i : Nat) (r : Rx) : Pool := fun j => if j = i then r else p j

/-- runs a schedule; returns the final pool and, per step, (connection, bytes handed to ITS HTTP layer) -/
def Pool.run (A : Nat → Aead) : Pool → List (Nat × Bytes) → Pool × List (Nat × Bytes)
  | p, [] => (p, [])
  | p, (i, c) :: s =>
    let (r, o) := (p i).recv (A i) c
    let (p', os) := Pool.run A (p.set i r) s
    (p', (i, o) :: os)

/-- the reads (or outputs) of one connection within a schedule -/
def proj (i : Nat) (s : List (Nat × Bytes)) : List Bytes := (s.filter (fun x => x.1 == i)).map (·.2)

/-- per-read outputs (what each `data_received` call handed over) -/
def Rx.trace (A : Aead) : Rx → List Bytes → List Bytes
  | _, [] => []
  | r, c :: cs => let (r1, o1) := r.recv A c; o1 :: Rx.trace A r1 cs

/-! ### the receive path next to delayed responses -/

/-- What one secured `HAPServerProtocol` goes through as far as its receive side could care: a read
    (`data_received`), or the "a delayed response is pending" flag changing (`self.response` is set by
    `_process_response` when the handler returns a task — a camera snapshot — and cleared by
    `_handle_response_ready` when the task is done). -/
inductive Ev where
  | read (chunk : Bytes)
  | pending (b : Bool)
deriving Repr

/-- receive state plus the pending flag -/
structure PConn where
  rx : Rx := {}
  pending : Bool := false
deriving Repr

/-- `data_received` does not consult `self.response`: a read is appended, drained and handed over (or closes
    the connection) in exactly the same way whether or not a delayed response is pending; what the HTTP
    layer then does with a pipelined request is the HTTP layer's business (h11 is handed the bytes). -/
def PConn.step (A : Aead) (c : PConn) : Ev → PConn × Option Bytes
  | .read chunk => let (r, o) := c.rx.recv A chunk; ({ c with rx := r }, some o)
  | .pending b => ({ c with pending := b }, none)

def PConn.run (A : Aead) : PConn → List Ev → PConn
  | c, [] => c
  | c, e :: es => PConn.run A (c.step A e).1 es

/-- what each READ event handed to the HTTP layer (flag changes hand over nothing and are skipped) -/
def PConn.trace (A : Aead) : PConn → List Ev → List Bytes
  | _, [] => []
  | c, e :: es =>
    match c.step A e with
    | (c1, some o) => o :: PConn.trace A c1 es
    | (c1, none) => PConn.trace A c1 es

/-- the reads among the events -/
def readsOf : List Ev → List Bytes
  | [] => []
  | .read c :: es => c :: readsOf es
  | .pending _ :: es => readsOf es

/-! ### send side -/

/-- one frame on the wire: LE16 length ‖ AEAD(counter, aad = LE16 length, payload) -/
def wire (A : Aead) (i : Nat) (p : Bytes) : Bytes := le16 p.length ++ A.enc i (le16 p.length) p

/-- consecutive frames for payloads `ps`, counters `c, c+1, …` -/
def wires (A : Aead) : Nat → List Bytes → Bytes
  | _, [] => []
  | c, p :: ps => wire A c p ++ wires A (c+1) ps

/-- the blocks `HAPCrypto.encrypt` cuts a message into (`min(total - offset, MAX_BLOCK_LENGTH)`) -/
def blocks (data : Bytes) : List Bytes :=
  if h : data = [] then [] else data.take MAXBLK :: blocks (data.drop MAXBLK)
termination_by data.length
decreasing_by
  have : 0 < data.length := List.length_pos_iff.mpr h
  simp [List.length_drop, MAXBLK]; omega

/-- `HAPCrypto.encrypt(data)` starting at out-counter `c`: the bytes written (`writelines`
    of the pieces) and the new counter. -/
def encrypt (A : Aead) (c : Nat) (data : Bytes) : Bytes × Nat :=
  (wires A c (blocks data), c + (blocks data).length)

/-- Transmit side of a connection: which cipher (if any) is installed and its out-counter.
    Ciphers are identified by an index into a family `K : Nat → Aead` (one per installed key). -/
structure Tx where
  key : Option Nat := none
  cnt : Nat := 0
  installs : Nat := 0
deriving Repr

/-- What reaches the transport, tagged for the observer: plaintext, or frames under key `k`
    starting at counter `c`. -/
inductive Out where
  | plain (data : Bytes)
  | frames (k : Nat) (c : Nat) (blks : List Bytes) (bytes : Bytes)
deriving Repr

/-- Things the protocol object does that write: a response (optionally carrying a shared key,
    i.e. the pair-verify completion), an EVENT message, a delayed (snapshot) response. -/
inductive Msg where
  | response (data : Bytes) (sharedKey : Bool)
  | event (data : Bytes)
  | delayed (data : Bytes)
deriving Repr

def Msg.data : Msg → Bytes
  | .response d _ => d
  | .event d => d
  | .delayed d => d

/-- `HAPServerProtocol.write` -/
def Tx.write (K : Nat → Aead) (t : Tx) (data : Bytes) : Tx × Out :=
  match t.key with
  | none => (t, .plain data)
  | some k =>
    let (bytes, c') := encrypt (K k) t.cnt data
    ({ t with cnt := c' }, .frames k t.cnt (blocks data) bytes)

/-- does this message carry a session key (the pair-verify completion response)? -/
def Msg.carriesKey : Msg → Bool
  | .response _ true => true
  | _ => false

def Out.isPlain : Out → Bool
  | .plain _ => true
  | .frames .. => false

/-- `_process_response` / `_send_events` / `_handle_response_ready`: write first; a response that
    carries a shared key installs a fresh `HAPCrypto` (new key, counters 0) after the write. -/
def Tx.step (K : Nat → Aead) (t : Tx) (m : Msg) : Tx × Out :=
  let w := t.write K m.data
  (if m.carriesKey then { key := some w.1.installs, cnt := 0, installs := w.1.installs + 1 } else w.1, w.2)

def Tx.run (K : Nat → Aead) : Tx → List Msg → List Out
  | _, [] => []
  | t, m :: ms => let (t1, o) := t.step K m; o :: Tx.run K t1 ms

/-! ### transparent mock AEAD (used on both sides of the correspondence run) -/

/-- weighted byte sum: tag byte `j` of the mock -/
def mockTagByte (key n : Nat) (data : Bytes) (j : Nat) : UInt8 :=
  let s := (data.zipIdx.foldl (fun acc (b, i) => acc + b.toNat * (i + j + 1)) 0)
  UInt8.ofNat ((s + key * 31 + n * 17 + j * 7 + data.length) % 256)

def mockTag (key n : Nat) (aad pt : Bytes) : Bytes :=
  (List.range 16).map (mockTagByte key n (aad ++ pt))

/-- `seal k n aad pt = pt ++ tag16(k, n, aad, pt)`; the same function is monkey-patched over
    `pyhap.hap_crypto.ChaCha20Poly1305` by the harness. -/
def mockAead (key : Nat) : Aead where
  enc n a p := p ++ mockTag key n a p
  dec n a ct :=
    if ct.length < 16 then none
    else
      let p := ct.take (ct.length - 16)
      if ct.drop (ct.length - 16) = mockTag key n a p then some p else none
  enc_len n a p := by simp [mockTag]

end Hap.Frame
