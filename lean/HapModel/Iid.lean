/-
  Model of pyhap/iid_manager.py (`IIDManager`).

  Objects (Service / Characteristic instances) are opaque identities: a `Nat` per Python
  object (the harness numbers the objects in creation order).  The two dicts are total
  functions (their iteration order is never observed).

  `del self.objs[iid]` / `del self.iids[obj]` raise `KeyError` when the key is absent; the
  model keeps that (`none` = an exception escaped) so that "the paired updates never fail"
  is a theorem rather than an assumption.
-/
namespace Hap

/-- `IIDManager`: `counter`, `iids : obj → iid`, `objs : iid → obj`. -/
structure Iid where
  counter : Nat
  iids : Nat → Option Nat
  objs : Nat → Option Nat

namespace Iid

/-- dict update `d[k] = v` / `del d[k]` (with `v = none`) -/
def upd (f : Nat → Option Nat) (k : Nat) (v : Option Nat) : Nat → Option Nat :=
  fun a => if a = k then v else f a

/-- `IIDManager()` -/
def empty : Iid := ⟨0, fun _ => none, fun _ => none⟩

/-- `get_iid(obj)` -/
def getIid (m : Iid) (o : Nat) : Option Nat := m.iids o

/-- `get_obj(iid)` -/
def getObj (m : Iid) (i : Nat) : Option Nat := m.objs i

/-- `assign(obj)`: ignored (warning) when already assigned, else
    `self.counter += 1; self.iids[obj] = counter; self.objs[counter] = obj`. -/
def assign (m : Iid) (o : Nat) : Iid :=
  match m.iids o with
  | some _ => m
  | none =>
    let i := m.counter + 1
    { counter := i, iids := upd m.iids o (some i), objs := upd m.objs i (some o) }

/-- `remove_obj(obj)`: `iid = self.iids.pop(obj, None)`; `None` → return `None`;
    else `del self.objs[iid]` (KeyError if absent = outer `none`), return `iid`. -/
def removeObj (m : Iid) (o : Nat) : Option (Iid × Option Nat) :=
  match m.iids o with
  | none => some (m, none)
  | some i =>
    match m.objs i with
    | none => none
    | some _ => some ({ m with iids := upd m.iids o none, objs := upd m.objs i none }, some i)

/-- `remove_iid(iid)`: `obj = self.objs.pop(iid, None)`; `None` → return `None`;
    else `del self.iids[obj]` (KeyError if absent = outer `none`), return `obj`. -/
def removeIid (m : Iid) (i : Nat) : Option (Iid × Option Nat) :=
  match m.objs i with
  | none => some (m, none)
  | some o =>
    match m.iids o with
    | none => none
    | some _ => some ({ m with iids := upd m.iids o none, objs := upd m.objs i none }, some o)

/-- the manager's public operations -/
inductive Op where
  | assign (o : Nat)
  | removeObj (o : Nat)
  | removeIid (i : Nat)
  deriving Repr, DecidableEq

/-- one operation; `none` = an exception (KeyError) escaped -/
def step (m : Iid) : Op → Option Iid
  | .assign o => some (m.assign o)
  | .removeObj o => (m.removeObj o).map (·.1)
  | .removeIid i => (m.removeIid i).map (·.1)

/-- a history of operations -/
def run (m : Iid) : List Op → Option Iid
  | [] => some m
  | op :: rest => (m.step op).bind (fun m' => run m' rest)

/-- the representation invariant: the two maps are mutually inverse and every iid in use lies
    in `1..counter` -/
def Good (m : Iid) : Prop :=
  (∀ o i, m.iids o = some i ↔ m.objs i = some o) ∧
  (∀ i o, m.objs i = some o → 1 ≤ i ∧ i ≤ m.counter)

end Iid
end Hap
