/-
  Model of pyhap/iid_manager.py (`IIDManager`).

  Objects (Service / Characteristic instances) are opaque identities: a `Nat` per Python
  object (the harness numbers the objects in creation order).  The two dicts are total
  functions (their iteration order is never observed).

  `del self.objs[iid]` / `del self.iids[obj]` raise `KeyError` when the key is absent; the
  model keeps that (`none` = an exception escaped) so that "the paired updates never fail"
  is a theorem rather than an assumption.
-/
namespace Hap

/-- `IIDManager`: `counter`, `iids : obj → iid`, `objs : iid → obj`. -/
structure Iid where
  counter : Nat
  iids : Nat → Option Nat
  objs : Nat → Option Nat

namespace Iid

/-- dict update `d[k] = v` / `del d[k]` (with `v = none`) -/
def upd (f : Nat → Option Nat) (k : Nat) (v : Option Nat) : Nat → Option Nat :=
  fun a => if a = k then v else f a

/-- `IIDManager()` -/
def empty : Iid := ⟨0, fun _ => none, fun _ => none⟩

/-- `get_iid(obj)` -/
def getIid (m : Iid) (o : Nat) : Option Nat := m.iids o

/-- `get_obj(iid)` -/
def getObj (m : Iid) (i : Nat) : Option Nat := m.objs i

/-- `assign(obj)`: ignored (warning) when already assigned, else
    `self.counter += 1; self.iids[obj] = counter; self.objs[counter] = obj`. -/
def assign (m : Iid) (o : Nat) : Iid :=
  match m.iids o with
  | some _ => m
  | none =>
    let i := m.counter + 1
    { counter := i, iids := upd m.iids o (some i), objs := upd m.objs i (some o) }

/-- `remove_obj(obj)`: `iid = self.iids.pop(obj, None)`; `None` → return `None`;
    else `del self.objs[iid]` (KeyError if absent = outer `none`), return `iid`. -/
def removeObj (m : Iid) (o : Nat) : Option (Iid × Option Nat) :=
  match m.iids o with
  | none => some (m, none)
  | some i =>
    match m.objs i with
    | none => none
    | some _ => some ({ m with iids := upd m.iids o none, objs := upd m.objs i none }, some i)

/-- `remove_iid(iid)`: `obj = self.objs.pop(iid, None)`; `None` → return `None`;
    else `del self.iids[obj]` (KeyError if absent = outer `none`), return `obj`. -/
def removeIid (m : Iid) (i : Nat) : Option (Iid × Option Nat) :=
  match m.objs i with
  | none => some (m, none)
  | some o =>
    match m.iids o with
    | none => none
    | some _ => some ({ m with iids := upd m.iids o none, objs := upd m.objs i none }, some o)

/-- the manager's public operations -/
inductive Op where
  | assign (o : Nat)
  | removeObj (o : Nat)
  | removeIid (i : Nat)
  deriving Repr, DecidableEq

/-- one operation; `none` = an exception (KeyError) escaped -/
def step (m : Iid) : Op → Option Iid
  | .assign o => some (m.assign o)
  | .removeObj o => (m.removeObj o).map (·.1)
  | .removeIid i => (m.removeIid i).map (·.1)

/-- a history of operations -/
def run (m : Iid) : List Op → Option Iid
  | [] => some m
  | op :: rest => (m.step op).bind (fun m' => run m' rest)

/-- the representation invariant: the two maps are mutually inverse and every iid in use lies
    in `1..counter` -/
def Good (m : Iid) : Prop :=
  (∀ o i, m.iids o = some i ↔ m.objs i = some o) ∧
  (∀ i o, m.objs i = some o → 1 ≤ i ∧ i ≤ m.counter)

/-! ### application subclasses overriding `get_iid_for_obj` (the documented extension point) -/

/-- `assign(obj)` on a manager subclass whose `get_iid_for_obj` answers the explicit iid `i` for
    this object without touching the counter: ignored when `obj` is assigned already, else
    `self.iids[obj] = i; self.objs[i] = obj` (whatever `objs[i]` held is overwritten). -/
def assignAt (m : Iid) (o i : Nat) : Iid :=
  match m.iids o with
  | some _ => m
  | none => { m with iids := upd m.iids o (some i), objs := upd m.objs i (some o) }

/-- the public operations of a manager whose subclass mixes explicit and automatic iids -/
inductive OpX where
  /-- `assign(obj)`, the override defers to the base class (automatic iid) -/
  | auto (o : Nat)
  /-- `assign(obj)`, the override answers the explicit iid `i` -/
  | explicit (o i : Nat)
  | removeObj (o : Nat)
  | removeIid (i : Nat)
  deriving Repr, DecidableEq

def stepX (m : Iid) : OpX → Option Iid
  | .auto o => some (m.assign o)
  | .explicit o i => some (m.assignAt o i)
  | .removeObj o => (m.removeObj o).map (·.1)
  | .removeIid i => (m.removeIid i).map (·.1)

def runX (m : Iid) : List OpX → Option Iid
  | [] => some m
  | op :: rest => (m.stepX op).bind (fun m' => runX m' rest)

/-- a manager whose application starts the automatic counter at `start` -/
def startAt (start : Nat) : Iid := { empty with counter := start }

/-- The application's policy, relative to a bound `B` no automatic iid of the history reaches:
    an explicit iid is handed out only if nobody holds it and it lies at or below the current
    counter or beyond `B`; automatic assignment happens only while the counter is below `B`. -/
def Allowed (B : Nat) (m : Iid) : OpX → Prop
  | .auto _ => m.counter < B
  | .explicit _ i => m.objs i = none ∧ (i ≤ m.counter ∨ B < i)
  | _ => True

def AllowedRun (B : Nat) : Iid → List OpX → Prop
  | _, [] => True
  | m, op :: rest => Allowed B m op ∧ ∀ m', m.stepX op = some m' → AllowedRun B m' rest

/-- the invariant with explicit iids: the maps are mutually inverse, every iid in use lies at or
    below the counter or beyond `B`, and the counter has not passed `B` -/
def GoodX (B : Nat) (m : Iid) : Prop :=
  (∀ o i, m.iids o = some i ↔ m.objs i = some o) ∧
  (∀ i o, m.objs i = some o → i ≤ m.counter ∨ B < i) ∧ m.counter ≤ B

end Iid
end Hap
