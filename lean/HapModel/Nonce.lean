/-
  Byte-level packing used by the encrypted transport (pyhap/hap_crypto.py):
  `PACK_NONCE = partial(Struct("<LQ").pack, 0)` and `PACK_LENGTH = Struct("H").pack`
  (native order; the harness asserts a little-endian host), and the AEAD seen at byte level.
-/
import HapModel.Frame
namespace Hap.Frame
open Hap

/-- `k` little-endian bytes of `n` (higher bytes dropped) -/
def leBytes : Nat → Nat → Bytes
  | 0, _ => []
  | k+1, n => UInt8.ofNat (n % 256) :: leBytes k (n / 256)

/-- little-endian value of a byte string -/
def rdLe : Bytes → Nat
  | [] => 0
  | x :: xs => x.toNat + 256 * rdLe xs

/-- `2^64`, the first counter `Struct("<LQ")` refuses -/
def NONCE_LIMIT : Nat := 18446744073709551616

/-- the 12 nonce bytes for counter `n`: 4 zero bytes ‖ LE64 n -/
def nonceBytes (n : Nat) : Bytes := leBytes 4 0 ++ leBytes 8 n

/-- `PACK_NONCE(count)`; `none` = `struct.error` (count ≥ 2^64) -/
def packNonce (n : Nat) : Option Bytes := if n < NONCE_LIMIT then some (nonceBytes n) else none

/-- `PACK_LENGTH(length)`; `none` = `struct.error` (length ≥ 2^16) -/
def packLength (n : Nat) : Option Bytes := if n < 65536 then some (leBytes 2 n) else none

/-- Add one to a little-endian byte string in place, carrying as far as needed (all-0xFF wraps to all-zero):
    what a nonce kept in a `bytearray` and bumped per frame must do to stay equal to `PACK_NONCE(count)`. -/
def incLe : Bytes → Bytes
  | [] => []
  | x :: xs => if x = 255 then 0 :: incLe xs else (x + 1) :: xs

/-- the 12-byte nonce bumped in place: the 4 leading bytes stay, the 8 counter bytes are incremented -/
def bumpNonce (nb : Bytes) : Bytes := nb.take 4 ++ incLe (nb.drop 4)

/-- the nonce of frame `n` when it is never packed afresh but bumped in place once per frame, from all-zero -/
def bumped : Nat → Bytes
  | 0 => nonceBytes 0
  | n + 1 => bumpNonce (bumped n)

/-- An in-place increment whose carry stops after ONE higher byte (an `if` where a loop is needed). NOT the
    format; kept for the counterexample `C04_one_carry_counterexample`. -/
def incLeOneCarry : Bytes → Bytes
  | [] => []
  | x :: xs =>
    if x = 255 then 0 :: (match xs with | [] => [] | y :: ys => (y + 1) :: ys) else (x + 1) :: xs

/-- A cipher object as the code sees it: `encrypt(nonce, data, aad)` / `decrypt(nonce, data, aad)`
    over byte strings (`none` = InvalidTag). -/
structure BAead where
  enc : Bytes → Bytes → Bytes → Bytes
  dec : Bytes → Bytes → Bytes → Option Bytes
  enc_len : ∀ n a p, (enc n a p).length = p.length + 16

/-- The counter-indexed AEAD of `Frame.lean` obtained from a byte-level cipher by the code's nonce
    packing (frame `n` of a direction is processed under `PACK_NONCE(n)`). -/
def BAead.toAead (B : BAead) : Aead where
  enc n a p := B.enc (nonceBytes n) a p
  dec n a c := B.dec (nonceBytes n) a c
  enc_len n a p := B.enc_len _ a p

end Hap.Frame
