/-
  Byte-level packing used by the encrypted transport (pyhap/hap_crypto.py):
  `PACK_NONCE = partial(Struct("<LQ").pack, 0)` and `PACK_LENGTH = Struct("H").pack`
  (native order; the harness asserts a little-endian host), and the AEAD seen at byte level.
-/
import HapModel.Frame
namespace Hap.Frame
open Hap

/-- `k` little-endian bytes of `n` (higher bytes dropped) -/
def leBytes : Nat → Nat → Bytes
  | 0, _ => []
  | k+1, n => UInt8.ofNat (n % 256) :: leBytes k (n / 256)

/-- little-endian value of a byte string -/
def rdLe : Bytes → Nat
  | [] => 0
  | x :: xs => x.toNat + 256 * rdLe xs

/-- `2^64`, the first counter `Struct("<LQ")` refuses -/
def NONCE_LIMIT : Nat := 18446744073709551616

/-- the 12 nonce bytes for counter `n`: 4 zero bytes ‖ LE64 n -/
def nonceBytes (n : Nat) : Bytes := leBytes 4 0 ++ leBytes 8 n

/-- `PACK_NONCE(count)`; `none` = `struct.error` (count ≥ 2^64) -/
def packNonce (n : Nat) : Option Bytes := if n < NONCE_LIMIT then some (nonceBytes n) else none

/-- `PACK_LENGTH(length)`; `none` = `struct.error` (length ≥ 2^16) -/
def packLength (n : Nat) : Option Bytes := if n < 65536 then some (leBytes 2 n) else none

/-- A cipher object as the code sees it: `encrypt(nonce, data, aad)` / `decrypt(nonce, data, aad)`
    over byte strings (`none` = InvalidTag). -/
structure BAead where
  enc : Bytes → Bytes → Bytes → Bytes
  dec : Bytes → Bytes → Bytes → Option Bytes
  enc_len : ∀ n a p, (enc n a p).length = p.length + 16

/-- The counter-indexed AEAD of `Frame.lean` obtained from a byte-level cipher by the code's nonce
    packing (frame `n` of a direction is processed under `PACK_NONCE(n)`). -/
def BAead.toAead (B : BAead) : Aead where
  enc n a p := B.enc (nonceBytes n) a p
  dec n a c := B.dec (nonceBytes n) a c
  enc_len n a p := B.enc_len _ a p

end Hap.Frame
