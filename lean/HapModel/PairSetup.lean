/-
  Model of the pair-setup half of pyhap/hap_handler.py:
    `handle_pairing`, `_pairing_one` … `_pairing_five`, as run under `dispatch`
  (an exception escaping the handler becomes the 500 / -70402 JSON answer; an unknown sequence
  byte leaves the default 500 response with an empty body), together with
  `AccessoryDriver.setup_srp_verifier` / `pair` and `State.paired` / `add_paired_client`.

  The model mirrors the REPAIRED code (design/fixes/C08.patch, design/fixes/C01.patch, then
  design/fixes/C01-replayed-m5.patch: the verifier is discarded once an M5 has produced a pairing):
  HKDF is fed `Kb` (the 64 digest bytes) and M5 answers M6/authentication-error unless the current
  verifier recorded a successful `verify`.  `stepLegacy` keeps the shipped M5 (no gate,
  `long_to_bytes(K)` into HKDF) for the counterexample theorems.

  External behaviour is a parameter (`Crypto`): the hash, HKDF, the AEAD, Ed25519 verification,
  the accessory's signing operation and `bytes.decode("utf-8")` + `uuid.UUID(str)`.  The SRP
  session is per driver, not per connection, so a request carries no connection identity.
  Randomness (`os.urandom` for the salt and the secret `b`) is an input of the request.
  No Mathlib import.
-/
import HapModel.Bytes
import HapModel.Tlv
import HapModel.Srp
namespace Hap.PairSetup
open Hap Hap.Tlv Hap.Srp

def ascii (s : String) : Bytes := s.toUTF8.toList

/-! TLV tags (`HAP_TLV_TAGS`) -/
def T_METHOD : UInt8 := 0
def T_USERNAME : UInt8 := 1
def T_SALT : UInt8 := 2
def T_PUBLIC_KEY : UInt8 := 3
def T_PASSWORD_PROOF : UInt8 := 4
def T_ENCRYPTED_DATA : UInt8 := 5
def T_SEQUENCE_NUM : UInt8 := 6
def T_ERROR_CODE : UInt8 := 7
def T_PROOF : UInt8 := 10

def ERR_AUTHENTICATION : UInt8 := 2
def ERR_UNAVAILABLE : UInt8 := 6

def SRP_USER : Bytes := ascii "Pair-Setup"
def P3_SALT : Bytes := ascii "Pair-Setup-Encrypt-Salt"
def P3_INFO : Bytes := ascii "Pair-Setup-Encrypt-Info"
def P4_SALT : Bytes := ascii "Pair-Setup-Controller-Sign-Salt"
def P4_INFO : Bytes := ascii "Pair-Setup-Controller-Sign-Info"
def P5_SALT : Bytes := ascii "Pair-Setup-Accessory-Sign-Salt"
def P5_INFO : Bytes := ascii "Pair-Setup-Accessory-Sign-Info"
/-- `pad_tls_nonce(b"PS-Msg05")` -/
def NONCE5 : Bytes := rjust 12 (ascii "PS-Msg05")
def NONCE6 : Bytes := rjust 12 (ascii "PS-Msg06")
/-- `ord(HAP_PERMISSIONS.ADMIN)` -/
def PERM_ADMIN : Nat := 1

/-- External / library behaviour (DESIGN 1.2: a parameter, arbitrary unless a theorem states an
    assumption about it). -/
structure Crypto where
  /-- `hashlib.sha512(data).digest()` -/
  H : Bytes → Bytes
  /-- `hap_hkdf(key, salt, info)` -/
  hkdf : Bytes → Bytes → Bytes → Bytes
  /-- `ChaCha20Poly1305(key).encrypt(nonce, data, b"")` -/
  aeadEnc : Bytes → Bytes → Bytes → Bytes
  /-- `ChaCha20Poly1305(key).decrypt(nonce, data, b"")`; `none` = `InvalidTag` -/
  aeadDec : Bytes → Bytes → Bytes → Option Bytes
  /-- `Ed25519PublicKey.from_public_bytes(pk).verify(sig, msg)`; `none` = `ValueError` (bad key
      bytes), `some false` = `InvalidSignature` -/
  sigVerify : Bytes → Bytes → Bytes → Option Bool
  /-- `state.private_key.sign(msg)` (the accessory's long-term secret key) -/
  sign : Bytes → Bytes
  /-- `str(uuid.UUID(b.decode("utf-8")))`; `none` = the decode or the parse raises -/
  uuidOf : Bytes → Option Bytes

structure Cfg where
  /-- `get_srp_context(3072, hashlib.sha512, 16)` -/
  G : Group
  c : Crypto

/-- crypto calls made while serving a request, in order (diagnostic data-flow log: which key,
    nonce and material are used where) -/
inductive Call
  | hkdf (key salt info : Bytes)
  | dec (key nonce ct : Bytes)
  | enc (key nonce pt : Bytes)
  | verify (pk sig msg : Bytes)
  | sign (msg : Bytes)
  | uuid (b : Bytes)
  deriving Repr, DecidableEq

/-- pairings in dict order: canonical uuid ↦ (long-term public key, permission byte) -/
abbrev Pairings := List (Bytes × Bytes × Nat)

/-- `d[k] = v` on an insertion-ordered dict -/
def setPairing : Pairings → Bytes → Bytes → Nat → Pairings
  | [], u, k, p => [(u, k, p)]
  | (u', k', p') :: rest, u, k, p =>
    if u' = u then (u', k, p) :: rest else (u', k', p') :: setPairing rest u k p

/-- the part of `AccessoryDriver` / `State` that pair-setup reads and writes -/
structure PS where
  /-- `state.pincode` -/
  pincode : Bytes
  /-- `state.mac.encode()` -/
  mac : Bytes
  /-- raw bytes of `state.public_key` -/
  ltpk : Bytes
  /-- `state.paired_clients` joined with `client_properties` -/
  paired : Pairings
  /-- `accessory_handler.srp_verifier` -/
  verifier : Option Server

/-- The identifier the accessory ADVERTISES: `AccessoryMDNSServiceInfo._get_advert_data()["id"]`, which
    is `state.mac` verbatim — the very bytes `_pairing_five` signs and sends as USERNAME in M6.  (The
    correspondence run reads it from the real advertisement, not from `state.mac`.) -/
def advertisedId (ps : PS) : Bytes := ps.mac

/-- one `POST /pair-setup` -/
structure Req where
  body : Bytes
  /-- `os.urandom(16)` consumed if the request creates a verifier -/
  salt : Bytes
  /-- `os.urandom(32)` consumed if the request creates a verifier -/
  bRand : Bytes

/-- what the handler answers (rendered to status / header / bytes by `render`) -/
inductive Out
  /-- M2 + error `unavailable` (already paired) -/
  | unavailable
  | m2 (salt B : Bytes)
  /-- O1: M4 carrying the server proof -/
  | m4 (hamk : Bytes)
  | m4AuthErr
  /-- O2: M6 carrying the encrypted accessory identity; also sets `pairing_changed` -/
  | m6 (enc : Bytes)
  | m6AuthErr
  /-- an exception reached `dispatch`: 500 with `{"status":-70402}` -/
  | err500
  /-- no branch of `handle_pairing` taken: the default response (500, no header, empty body) -/
  | silent
  deriving Repr, DecidableEq

inductive Kind | none | tlv | json
  deriving Repr, DecidableEq

structure Rendered where
  status : Nat
  kind : Kind
  body : Bytes
  pairingChanged : Bool

def tlvResp (items : Items) (changed : Bool := false) : Rendered :=
  { status := 200, kind := .tlv, body := Tlv.encode items, pairingChanged := changed }

/-- `_send_tlv_pairing_response` / `_send_authentication_error_tlv_response` /
    `send_response_with_status` / the untouched `HAPResponse()` -/
def render : Out → Rendered
  | .unavailable => tlvResp [(T_SEQUENCE_NUM, [2]), (T_ERROR_CODE, [ERR_UNAVAILABLE])]
  | .m2 salt B => tlvResp [(T_SEQUENCE_NUM, [2]), (T_SALT, salt), (T_PUBLIC_KEY, B)]
  | .m4 hamk => tlvResp [(T_SEQUENCE_NUM, [4]), (T_PASSWORD_PROOF, hamk)]
  | .m4AuthErr => tlvResp [(T_SEQUENCE_NUM, [4]), (T_ERROR_CODE, [ERR_AUTHENTICATION])]
  | .m6 enc => tlvResp [(T_SEQUENCE_NUM, [6]), (T_ENCRYPTED_DATA, enc)] true
  | .m6AuthErr => tlvResp [(T_SEQUENCE_NUM, [6]), (T_ERROR_CODE, [ERR_AUTHENTICATION])]
  | .err500 => { status := 500, kind := .json, body := ascii "{\"status\":-70402}", pairingChanged := false }
  | .silent => { status := 500, kind := .none, body := [], pairingChanged := false }

/-- `tlv_objects[tag]` (`none` = KeyError) -/
def lookup (t : Items) (tag : UInt8) : Option Bytes := (t.find? (·.1 = tag)).map (·.2)

abbrev Res := PS × Out × List Call

/-- `_pairing_one` with `setup_srp_verifier`: every M1 creates a fresh verifier; the answer carries
    `salt, B = get_challenge()` with `long_to_bytes(B)` -/
def pairingOne (cfg : Cfg) (ps : PS) (r : Req) : Res :=
  let srv := Srp.mk cfg.c.H cfg.G SRP_USER ps.pincode r.salt (bytesToNat r.bRand)
  ({ ps with verifier := some srv }, .m2 srv.getChallenge.1 (natToBytes srv.getChallenge.2), [])

/-- `_pairing_two` -/
def pairingTwo (cfg : Cfg) (ps : PS) (t : Items) : Res :=
  match lookup t T_PUBLIC_KEY with
  | none => (ps, .err500, [])
  | some A =>
    match lookup t T_PASSWORD_PROOF with
    | none => (ps, .err500, [])
    | some M =>
      match ps.verifier with
      | none => (ps, .err500, [])            -- AttributeError on None
      | some srv =>
        let (srv2, r) := verify (setA cfg.c.H srv A) M
        let ps' := { ps with verifier := some srv2 }
        match r with
        | none => (ps', .m4AuthErr, [])
        | some hamk => (ps', .m4 hamk, [])

/-- `_pairing_five`: sign, encrypt, record the pairing, answer M6 -/
def pairingFive (cfg : Cfg) (ps : PS) (Kb user cltpk encKey : Bytes) (calls : List Call) : Res :=
  let outKey := cfg.c.hkdf Kb P5_SALT P5_INFO
  let material := outKey ++ ps.mac ++ ps.ltpk
  let proof := cfg.c.sign material
  let message := Tlv.encode [(T_USERNAME, ps.mac), (T_PUBLIC_KEY, ps.ltpk), (T_PROOF, proof)]
  let aead := cfg.c.aeadEnc encKey NONCE6 message
  let calls := calls ++ [.hkdf Kb P5_SALT P5_INFO, .sign material, .enc encKey NONCE6 message, .uuid user]
  match cfg.c.uuidOf user with
  | none => (ps, .err500, calls)             -- UnicodeDecodeError / ValueError
  | some u =>
    -- the SRP exchange is single use: once it has produced a pairing the verifier is discarded
    -- (design/fixes/C01-replayed-m5.patch), so a replayed M5 finds no verified session
    ({ ps with paired := setPairing ps.paired u cltpk PERM_ADMIN, verifier := none }, .m6 aead, calls)

/-- `_pairing_four`: check the controller's signature -/
def pairingFour (cfg : Cfg) (ps : PS) (Kb user cltpk cproof encKey : Bytes) (calls : List Call) : Res :=
  let outKey := cfg.c.hkdf Kb P4_SALT P4_INFO
  let data := outKey ++ user ++ cltpk
  let calls := calls ++ [.hkdf Kb P4_SALT P4_INFO, .verify cltpk cproof data]
  match cfg.c.sigVerify cltpk cproof data with
  | none => (ps, .err500, calls)             -- ValueError from from_public_bytes
  | some false => (ps, .err500, calls)       -- InvalidSignature re-raised
  | some true => pairingFive cfg ps Kb user cltpk encKey calls

/-- the body of `_pairing_three` after the session-key bytes have been obtained -/
def pairingThreeKey (cfg : Cfg) (ps : PS) (Kb ed : Bytes) : Res :=
  let encKey := cfg.c.hkdf Kb P3_SALT P3_INFO
  let calls := [Call.hkdf Kb P3_SALT P3_INFO, .dec encKey NONCE5 ed]
  match cfg.c.aeadDec encKey NONCE5 ed with
  | none => (ps, .m6AuthErr, calls)          -- InvalidTag
  | some pt =>
    match Tlv.decode pt [] with
    | none => (ps, .err500, calls)           -- IndexError
    | some d =>
      match lookup d T_USERNAME with
      | none => (ps, .err500, calls)
      | some user =>
        match lookup d T_PUBLIC_KEY with
        | none => (ps, .err500, calls)
        | some cltpk =>
          match lookup d T_PROOF with
          | none => (ps, .err500, calls)
          | some cproof => pairingFour cfg ps Kb user cltpk cproof encKey calls

/-- `_pairing_three` (repaired): M5 is served only if the current verifier recorded success -/
def pairingThree (cfg : Cfg) (ps : PS) (t : Items) : Res :=
  match lookup t T_ENCRYPTED_DATA with
  | none => (ps, .err500, [])
  | some ed =>
    match ps.verifier with
    | none => (ps, .m6AuthErr, [])
    | some srv =>
      if !srv.verified then (ps, .m6AuthErr, [])
      else
        match srv.sess with
        | none => (ps, .err500, [])          -- not reachable: verified implies a session
        | some ss => pairingThreeKey cfg ps ss.Kb ed

/-- `handle_pairing` under `dispatch` -/
def step (cfg : Cfg) (ps : PS) (r : Req) : Res :=
  if ps.paired ≠ [] then (ps, .unavailable, [])
  else
    match Tlv.decode r.body [] with
    | none => (ps, .err500, [])              -- IndexError
    | some t =>
      match lookup t T_SEQUENCE_NUM with
      | none => (ps, .err500, [])            -- KeyError
      | some seq =>
        if seq = [1] then pairingOne cfg ps r
        else if seq = [3] then pairingTwo cfg ps t
        else if seq = [5] then pairingThree cfg ps t
        else (ps, .silent, [])

/-- run a whole request sequence, collecting the answers -/
def run (cfg : Cfg) : PS → List Req → PS × List Out
  | ps, [] => (ps, [])
  | ps, r :: rs =>
    let (ps1, o, _) := step cfg ps r
    let (ps2, os) := run cfg ps1 rs
    (ps2, o :: os)

/-- The handler before the single-use repair (C08 + C01 repairs only): a successful M5 left the verified
    verifier on the driver.  Kept for the counterexample theorem `C01_replayed_m5_legacy`. -/
def stepKeep (cfg : Cfg) (ps : PS) (r : Req) : Res :=
  match step cfg ps r with
  | (ps', .m6 e, calls) => ({ ps' with verifier := ps.verifier }, .m6 e, calls)
  | res => res

/-! ### what else happens on the accessory while a pair-setup is in flight

  The SRP session lives on the driver, not on a connection, so other connections matter.  A bystander's
  own `POST /pair-setup` is an ordinary `Req` (it may replace the session: DESIGN §9).  Everything else a
  bystander can do before the accessory is paired leaves the pair-setup state alone:
  `AccessoryDriver.connection_lost` touches only `topics` and `prepared_writes`, a new connection only
  creates per-connection objects, and any other request on an unverified connection is refused. -/

inductive Ev
  /-- `POST /pair-setup` on any connection -/
  | req (r : Req)
  /-- a connection is made and/or lost (`HAPServerProtocol.connection_made` / `connection_lost` →
      `AccessoryDriver.connection_lost`) -/
  | connLost
  /-- any other request on an unverified connection (answered 401 / 4xx, no effect here); also the
      application starting / stopping the same driver object (`async_start` / `async_stop` touch neither the
      verifier, nor the setup code, nor the pairings) -/
  | other
  /-- the accessory becomes unpaired again: the last admin pairing is removed (`POST /pairings` remove →
      `AccessoryDriver.unpair` → `State.remove_paired_client`, which clears every pairing with the last
      admin).  Pair-setup is open again; nothing else of the pair-setup state is touched. -/
  | unpair
  /-- the owner changes the setup code at run time (`state.pincode = …`); an exchange in flight keeps the
      verifier made from the old code, the next M1 uses the new one -/
  | setCode (code : Bytes)

def Ev.isBystander : Ev → Bool
  | .req _ => false
  | _ => true

/-- events of the owner that do change what pair-setup sees: unpairing, changing the setup code -/
def Ev.isOwner : Ev → Bool
  | .unpair => true
  | .setCode _ => true
  | _ => false

def stepEv (cfg : Cfg) (ps : PS) : Ev → PS × Option Out
  | .req r => ((step cfg ps r).1, some (step cfg ps r).2.1)
  | .connLost => (ps, none)
  | .other => (ps, none)
  | .unpair => ({ ps with paired := [] }, none)
  | .setCode c => ({ ps with pincode := c }, none)

/-- run a history of events; the answers to the pair-setup requests are collected -/
def runEv (cfg : Cfg) : PS → List Ev → PS × List Out
  | ps, [] => (ps, [])
  | ps, e :: es =>
    let (ps1, o) := stepEv cfg ps e
    let (ps2, os) := runEv cfg ps1 es
    (ps2, match o with | some x => x :: os | none => os)

/-- the pair-setup requests of a history -/
def reqsOf : List Ev → List Req
  | [] => []
  | .req r :: es => r :: reqsOf es
  | _ :: es => reqsOf es

/-! ### the shipped code (before the repairs), for the counterexample theorems only -/

def pairingTwoLegacy (cfg : Cfg) (ps : PS) (t : Items) : Res :=
  match lookup t T_PUBLIC_KEY with
  | none => (ps, .err500, [])
  | some A =>
    match lookup t T_PASSWORD_PROOF with
    | none => (ps, .err500, [])
    | some M =>
      match ps.verifier with
      | none => (ps, .err500, [])
      | some srv =>
        let srv1 := setALegacy cfg.c.H srv A
        let ps' := { ps with verifier := some srv1 }
        match verifyLegacy srv1 M with
        | none => (ps', .m4AuthErr, [])
        | some hamk => (ps', .m4 hamk, [])

/-- shipped `_pairing_three`: no question whether M3 succeeded; `long_to_bytes(K)` into HKDF -/
def pairingThreeLegacy (cfg : Cfg) (ps : PS) (t : Items) : Res :=
  match lookup t T_ENCRYPTED_DATA with
  | none => (ps, .err500, [])
  | some ed =>
    match ps.verifier with
    | none => (ps, .err500, [])
    | some srv =>
      match srv.sess with
      | none => (ps, .err500, [])            -- long_to_bytes(None) raises
      | some ss => pairingThreeKey cfg ps (natToBytes ss.K) ed

def stepLegacy (cfg : Cfg) (ps : PS) (r : Req) : Res :=
  if ps.paired ≠ [] then (ps, .unavailable, [])
  else
    match Tlv.decode r.body [] with
    | none => (ps, .err500, [])
    | some t =>
      match lookup t T_SEQUENCE_NUM with
      | none => (ps, .err500, [])
      | some seq =>
        if seq = [1] then pairingOne cfg ps r
        else if seq = [3] then pairingTwoLegacy cfg ps t
        else if seq = [5] then pairingThreeLegacy cfg ps t
        else (ps, .silent, [])

end Hap.PairSetup
