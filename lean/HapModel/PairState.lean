/-
  Model of the pairing bookkeeping of pyhap:
    pyhap/state.py        State.is_admin / add_paired_client / remove_paired_client
    pyhap/hap_handler.py  handle_pairings, _handle_add_pairing, _handle_remove_pairing,
                          _handle_list_pairings (as answered through `dispatch`)
    pyhap/accessory_driver.py  pair / unpair (state change + a scheduled persist)
  `add_paired_client` is modelled as REPAIRED (design/fixes/C06.patch: the permission byte is
  decoded before the first map write); the code as shipped is kept as `addPairedClientLegacy`.

  Python dicts keep insertion order and that order is observable (list-pairings, the saved
  file), so the three maps are association lists with dict semantics (`aget/aset/adel`).
  `uuid.UUID(bytes.decode("utf-8"))` is a parameter `parse : Bytes → Option Uuid` of every
  function that needs it; `str(uuid)` is modelled concretely (`strOfUuid`).
  No Mathlib import: this file is loaded by the line-protocol driver.
-/
import HapModel.Tlv
namespace Hap.PairState
open Hap

/-! ### UUIDs: a 128-bit number; `str(UUID)` / `UUID(str)` -/

def UMAX : Nat := 2 ^ 128

/-- `uuid.UUID` compares and hashes by its 128-bit `int`. -/
abbrev Uuid := Fin UMAX

/-- `w` hexadecimal digits of `n`, most significant first (`'%0wx' % n` for `n < 16^w`). -/
def nibbles : Nat → Nat → List Nat
  | 0, _ => []
  | w+1, n => nibbles w (n / 16) ++ [n % 16]

/-- `'%032x' % n` -/
def hex32 (n : Nat) : List Char := (nibbles 32 n).map hexDigit

/-- `'%s-%s-%s-%s-%s' % (hex[:8], hex[8:12], hex[12:16], hex[16:20], hex[20:])` -/
def hyphenate (h : List Char) : List Char :=
  h.take 8 ++ '-' :: (h.drop 8).take 4 ++ '-' :: (h.drop 12).take 4 ++ '-' ::
    (h.drop 16).take 4 ++ '-' :: h.drop 20

/-- `str(u)` as a character list -/
def strOfUuidL (u : Uuid) : List Char := hyphenate (hex32 u.val)

/-- `str(u)` -/
def strOfUuid (u : Uuid) : String := String.ofList (strOfUuidL u)

/-- ASCII `bytes.upper()` on one character -/
def upperC (c : Char) : Char :=
  if 'a' ≤ c ∧ c ≤ 'z' then Char.ofNat (c.toNat - 32) else c

/-- `str(u).encode("utf-8").upper()` — what list-pairings sends when no id bytes are recorded -/
def idFallback (u : Uuid) : Bytes := (strOfUuidL u).map fun c => UInt8.ofNat (upperC c).toNat

/-- Python `s.replace(pat, "")` (left to right, non-overlapping). -/
def removeAll (pat : List Char) (s : List Char) : List Char :=
  match s with
  | [] => []
  | c :: cs =>
    if pat ≠ [] ∧ pat.isPrefixOf (c :: cs) then removeAll pat ((c :: cs).drop pat.length)
    else c :: removeAll pat cs
termination_by s.length
decreasing_by
  · rename_i h
    have : 0 < pat.length := List.length_pos_iff.mpr h.1
    simp only [List.length_drop, List.length_cons]; omega
  · simp

/-- Python `s.strip(chars)` -/
def stripSet (set : List Char) (s : List Char) : List Char :=
  ((s.dropWhile (· ∈ set)).reverse.dropWhile (· ∈ set)).reverse

/-- strict base-16 number (no sign, prefix, underscore or blank) -/
def parseHexL (s : List Char) : Option Nat :=
  s.foldl (fun acc c => match acc, hexVal c with
    | some a, some d => some (a * 16 + d)
    | _, _ => none) (some 0)

/-- `uuid.UUID(s)` for the spellings made of hex digits, hyphens, braces and the `urn:` /
    `uuid:` prefixes (the exotic forms `int(x, 16)` also accepts — sign, `0x`, `_`, blanks,
    non-ASCII digits — are rejected here; see TRUSTED in harness/props/c14.py). -/
def uuidOfStrL (s : List Char) : Option Uuid :=
  let h := removeAll "uuid:".toList (removeAll "urn:".toList s)
  let h := (stripSet ['{', '}'] h).filter (· ≠ '-')
  if h.length ≠ 32 then none
  else match parseHexL h with
    | none => none
    | some n => if hlt : n < UMAX then some ⟨n, hlt⟩ else none

def uuidOfStr (s : String) : Option Uuid := uuidOfStrL s.toList

/-! ### dicts as association lists (insertion order kept, keys unique) -/

section Assoc
variable {K V : Type} [DecidableEq K]

/-- `d.get(k)` -/
def aget : List (K × V) → K → Option V
  | [], _ => none
  | (k', v) :: r, k => if k' = k then some v else aget r k

/-- `d[k] = v`: overwrite in place (position kept) or append -/
def aset : List (K × V) → K → V → List (K × V)
  | [], k, v => [(k, v)]
  | (k', v') :: r, k, v => if k' = k then (k', v) :: r else (k', v') :: aset r k v

/-- `d.pop(k, None)` -/
def adel : List (K × V) → K → List (K × V)
  | [], _ => []
  | (k', v') :: r, k => if k' = k then r else (k', v') :: adel r k

/-- `k in d` -/
def ahas (l : List (K × V)) (k : K) : Bool := (aget l k).isSome

/-- `list(d)` -/
def akeys (l : List (K × V)) : List K := l.map Prod.fst

/-- a dict comprehension / `dict(pairs)`: later duplicates overwrite in place -/
def dictOf (l : List (K × V)) : List (K × V) := l.foldl (fun acc e => aset acc e.1 e.2) []

end Assoc

/-! ### State -/

/-- the three maps of `pyhap.state.State` that pairing administration touches -/
structure PState where
  /-- `paired_clients : uuid ↦ long-term public key` -/
  paired : List (Uuid × Bytes)
  /-- `client_properties : uuid ↦ {"permissions": n}` -/
  props : List (Uuid × Nat)
  /-- `uuid_to_bytes : uuid ↦ identifier bytes as presented` -/
  u2b : List (Uuid × Bytes)
deriving DecidableEq, Repr

def PState.empty : PState := ⟨[], [], []⟩

/-- `State.is_admin` -/
def isAdmin (s : PState) (u : Uuid) : Bool :=
  match aget s.props u with
  | none => false
  | some p => p % 2 = 1

/-- `State.add_paired_client` (repaired). `none` = an exception was raised (UnicodeDecodeError /
    ValueError from `UUID(...)`, TypeError from `ord(perms)`), all before the first write. -/
def addPairedClient (parse : Bytes → Option Uuid) (s : PState) (idb key perms : Bytes) :
    Option PState :=
  match parse idb with
  | none => none
  | some u =>
    match perms with
    | [p] => some { u2b := aset s.u2b u idb, paired := aset s.paired u key,
                    props := aset s.props u p.toNat }
    | _ => none

/-- `State.add_paired_client` as shipped: `uuid_to_bytes` and `paired_clients` are written
    before `ord(perms)` raises. Returns the state left behind and whether it returned normally. -/
def addPairedClientLegacy (parse : Bytes → Option Uuid) (s : PState) (idb key perms : Bytes) :
    PState × Bool :=
  match parse idb with
  | none => (s, false)
  | some u =>
    let s1 := { s with u2b := aset s.u2b u idb, paired := aset s.paired u key }
    match perms with
    | [p] => ({ s1 with props := aset s1.props u p.toNat }, true)
    | _ => (s1, false)

/-- `State.remove_paired_client`. The flag is false when a `pop` raised KeyError; the state is
    what the statements executed so far left behind. -/
def removePairedClient (s : PState) (u : Uuid) : PState × Bool :=
  if !ahas s.paired u then (s, false)
  else
    let s1 := { s with paired := adel s.paired u }
    if !ahas s1.props u then (s1, false)
    else
      let s2 := { s1 with props := adel s1.props u, u2b := adel s1.u2b u }
      if s2.paired.any (fun e => isAdmin s2 e.1) then (s2, true)
      else ({ s2 with paired := [], props := [] }, true)

/-! ### POST /pairings -/

def tReq : UInt8 := 0
def tUser : UInt8 := 1
def tPub : UInt8 := 3
def tSeq : UInt8 := 6
def tErr : UInt8 := 7
def tPerm : UInt8 := 11
def tSep : UInt8 := 255

/-- what `dispatch` returns: a 200 pairing-TLV answer (items handed to `tlv.encode`, plus the
    `pairing_changed` flag) or a JSON status answer with an HTTP error code -/
inductive Resp
  | tlv (items : Tlv.Items) (pairingChanged : Bool)
  | http (code : Nat)
deriving DecidableEq, Repr

def Resp.body : Resp → Bytes
  | .tlv items _ => Tlv.encode items
  | .http _ => []

/-- an error answer: HTTP status ≥ 400 or a TLV error item -/
def Resp.isError : Resp → Bool
  | .tlv items _ => items.any fun it => it.1 = tErr
  | .http code => code ≥ 400

def okResp (pc : Bool := false) : Resp := .tlv [(tSeq, [2])] pc
def authErr : Resp := .tlv [(tSeq, [2]), (tErr, [2])] false
def err500 : Resp := .http 500

/-- the connection-level facts `handle_pairings` looks at -/
structure Conn where
  /-- `handler.is_encrypted` -/
  enc : Bool
  /-- `handler.client_uuid` -/
  cu : Option Uuid
deriving DecidableEq, Repr

structure Req where
  conn : Conn
  body : Bytes
deriving DecidableEq, Repr

/-- `uuid_to_bytes.get(u) or str(u).encode().upper()` -/
def regBytes (s : PState) (u : Uuid) : Bytes :=
  match aget s.u2b u with
  | some b => if b = [] then idFallback u else b
  | none => idFallback u

def listEntry (s : PState) (e : Uuid × Bytes) : Tlv.Items :=
  [(tUser, regBytes s e.1), (tPub, e.2), (tPerm, [if isAdmin s e.1 then 1 else 0]), (tSep, [])]

/-- the argument list of `tlv.encode` built by `_handle_list_pairings` -/
def listItems (s : PState) : Tlv.Items :=
  let r := (tSeq, [2]) :: s.paired.flatMap (listEntry s)
  if r.getLast?.map Prod.fst = some tSep then r.dropLast else r

/-- result of one request: new state, answer, and whether a state save was scheduled -/
abbrev Out := PState × Resp × Bool

def handleAdd (parse : Bytes → Option Uuid) (s : PState) (objs : Tlv.Items) : Out :=
  match aget objs tUser, aget objs tPub, aget objs tPerm with
  | some idb, some key, some perms =>
    match addPairedClient parse s idb key perms with
    | none => (s, err500, false)
    | some s' => (s', okResp, true)
  | _, _, _ => (s, err500, false)

def handleRemove (parse : Bytes → Option Uuid) (s : PState) (objs : Tlv.Items) : Out :=
  match aget objs tUser with
  | none => (s, err500, false)
  | some idb =>
    match parse idb with
    | none => (s, err500, false)
    | some u =>
      let wasPaired := !s.paired.isEmpty
      if ahas s.paired u then
        match removePairedClient s u with
        | (s', false) => (s', err500, false)
        | (s', true) => (s', okResp (s'.paired.isEmpty && wasPaired), true)
      else (s, okResp (s.paired.isEmpty && wasPaired), false)

/-- `HAPServerHandler.dispatch` for `POST /pairings` (every exception becomes a 500 answer) -/
def handlePairings (parse : Bytes → Option Uuid) (s : PState) (req : Req) : Out :=
  match req.conn.cu with
  | none => (s, err500, false)                       -- `assert self.client_uuid is not None`
  | some cu =>
    if !req.conn.enc || !isAdmin s cu then (s, authErr, false)
    else
      match Tlv.decode req.body [] with
      | none => (s, err500, false)                   -- IndexError in tlv.decode
      | some objs =>
        match aget objs tReq with
        | none => (s, err500, false)                 -- KeyError
        | some [] => (s, err500, false)              -- IndexError
        | some (rt :: _) =>
          if rt = 3 then handleAdd parse s objs
          else if rt = 4 then handleRemove parse s objs
          else if rt = 5 then (s, .tlv (listItems s) false, false)
          else (s, err500, false)                    -- ValueError

/-- `response.pairing_removed` after `dispatch`: `_handle_remove_pairing` sets it once its answer is
    written (a request refused by the guard, of another type, or whose handler raised leaves it False).
    The protocol layer then tears down the sessions of controllers that are no longer paired (C16). -/
def pairingRemoved (parse : Bytes → Option Uuid) (s : PState) (req : Req) : Bool :=
  match req.conn.cu with
  | none => false
  | some cu =>
    if !req.conn.enc || !isAdmin s cu then false
    else
      match Tlv.decode req.body [] with
      | none => false
      | some objs =>
        match aget objs tReq with
        | some (rt :: _) =>
          if rt = 3 then false
          else if rt = 4 then
            match aget objs tUser with
            | none => false
            | some idb =>
              match parse idb with
              | none => false
              | some u => if ahas s.paired u then (removePairedClient s u).2 else true
          else false
        | _ => false

/-- legacy variant of the add path (code as shipped) for the counterexample theorem -/
def handleAddLegacy (parse : Bytes → Option Uuid) (s : PState) (objs : Tlv.Items) : Out :=
  match aget objs tUser, aget objs tPub, aget objs tPerm with
  | some idb, some key, some perms =>
    match addPairedClientLegacy parse s idb key perms with
    | (s', false) => (s', err500, false)
    | (s', true) => (s', okResp, true)
  | _, _, _ => (s, err500, false)

/-- operations of a pairing history -/
inductive Op
  /-- pair-setup M5 finishing: `driver.pair(id, ltpk, b"\x01")` (its own guard is C01's business) -/
  | setup (idb key : Bytes)
  /-- one `POST /pairings` on some connection -/
  | req (r : Req)
deriving DecidableEq, Repr

def step (parse : Bytes → Option Uuid) (s : PState) : Op → Out
  | .setup idb key =>
    match addPairedClient parse s idb key [1] with
    | none => (s, err500, false)
    | some s' => (s', okResp, true)
  | .req r => handlePairings parse s r

/-- state after a history -/
def run (parse : Bytes → Option Uuid) (s : PState) : List Op → PState
  | [] => s
  | op :: rest => run parse (step parse s op).1 rest

/-! ### sessions: who a connection is

  `handle_pairings` looks at `handler.is_encrypted` / `handler.client_uuid`.  Those two fields are
  written in exactly one place, the success path of `_pair_verify_two`; every failure path
  (outer layer does not decrypt, no identifier, identifier not a UUID, controller not paired,
  proof missing or not verifying) answers an error and leaves them as they were — also on a
  connection that is already verified.  One pair-verify exchange (M1 + M3) is one operation.
  Cryptography is ideal and enters as data of the attempt (the C02 fact restated): the outer AEAD
  layer opens iff it was sealed with this exchange's key (`outerOk`), and an Ed25519 proof verifies
  under a registered key `K` iff it was made over this exchange's material with the private key
  belonging to `K` (`signer = some K`; `none` = no proof item / garbage / other material). -/

/-- what the controller sent in M3, as far as the accessory can tell -/
structure VerifyAttempt where
  /-- the encrypted sub-TLV opens under the exchange key -/
  outerOk : Bool
  /-- the identifier item of the sub-TLV, if any -/
  idb : Option Bytes
  /-- public key matching the private key the proof was really made with (over the right material) -/
  signer : Option Bytes
deriving DecidableEq, Repr

/-- `_pair_verify_two`: the controller the attempt proves (with the identifier bytes it sent), if any.
    Reads the state, changes none. -/
def verifiesAs (parse : Bytes → Option Uuid) (s : PState) (v : VerifyAttempt) : Option (Uuid × Bytes) :=
  if !v.outerOk then none                        -- InvalidTag → M4 authentication error
  else match v.idb with
    | none => none                               -- KeyError → 500
    | some idb =>
      match parse idb with
      | none => none                             -- ValueError → 500
      | some u =>
        match aget s.paired u with
        | none => none                           -- not paired → M4 authentication error
        | some k => if v.signer = some k then some (u, idb) else none   -- InvalidSignature / KeyError

def verifies (parse : Bytes → Option Uuid) (s : PState) (v : VerifyAttempt) : Option Uuid :=
  (verifiesAs parse s v).map Prod.fst

/-- the only write of pairing data outside `POST /pairings`: after a successful exchange,
    `if client_uuid not in state.uuid_to_bytes: state.uuid_to_bytes[client_uuid] = client_username`
    (+ a save) — a back-fill for controllers imported from a state file that did not record the bytes.
    Bytes that ARE recorded are never touched, whatever spelling the controller used this time. -/
def backfill (s : PState) (u : Uuid) (idb : Bytes) : PState × Bool :=
  match aget s.u2b u with
  | none => ({ s with u2b := aset s.u2b u idb }, true)
  | some _ => (s, false)

/-- session facts of every connection (connections are numbered) -/
abbrev Sessions := Nat → Conn

def Sessions.fresh : Sessions := fun _ => ⟨false, none⟩

/-- operations of a history with real sessions -/
inductive SOp
  | setup (idb key : Bytes)
  /-- a pair-verify exchange on connection `c` -/
  | verify (c : Nat) (v : VerifyAttempt)
  /-- `POST /pairings` on connection `c` -/
  | req (c : Nat) (body : Bytes)

/-- one step: pairing state, session facts, and (for setup / req) the answer -/
def sstep (parse : Bytes → Option Uuid) (s : PState) (ss : Sessions) : SOp → PState × Sessions × Option (Resp × Bool)
  | .setup idb key =>
    let o := step parse s (.setup idb key)
    (o.1, ss, some o.2)
  | .verify c v =>
    match verifiesAs parse s v with
    | some (u, idb) => ((backfill s u idb).1, fun c' => if c' = c then ⟨true, some u⟩ else ss c', none)
    | none => (s, ss, none)
  | .req c body =>
    let o := handlePairings parse s ⟨ss c, body⟩
    (o.1, ss, some o.2)

end Hap.PairState
