/-
  Whole-life histories of one accessory: every operation that touches the persisted state or decides
  who a connection is, over the full alphabet
    pair-setup completion · pair-verify exchange on a connection · POST /pairings on a connection ·
    configuration-number increment · database-hash update · restart (a fresh process loads the file)
  mirroring
    pyhap/state.py            State.increment_config_version, State.set_accessories_hash
    pyhap/accessory_driver.py pair / unpair / load (state change + save; load on start)
    pyhap/hap_handler.py      _pair_verify_two (session facts + back-fill), handle_pairings
    pyhap/encoder.py          persist / load_into (through the JSON value of the file)
  The request handlers themselves are those of HapModel/PairState.lean (`hstep` on `.s op` is `sstep`,
  see `hstep_s` in Proofs/PairStateFull.lean); this file adds the identity part of the state and the restart.  No Mathlib import (loaded by the driver).
-/
import HapModel.EncoderJson
namespace Hap.PairState
open Hap Hap.Encoder

/-- `MAX_CONFIG_VERSION` (regenerated from pyhap/const.py) -/
def MAXCV : Int := Hap.Gen.EncoderFields.maxConfigVersion

/-- `State.increment_config_version` -/
def incrementConfigVersion (a : AccState) : AccState :=
  let c := a.configVersion + 1
  { a with configVersion := if c > MAXCV then 1 else c }

/-- `State.set_accessories_hash`: the new state and the returned flag -/
def setAccessoriesHash (a : AccState) (h : Option String) : AccState × Bool :=
  if a.accessoriesHash = h then (a, false)
  else (incrementConfigVersion { a with accessoriesHash := h }, true)

/-- everything of one running accessory that the pairing / restart story depends on -/
structure World where
  /-- the persisted part of `State` -/
  acc : AccState
  /-- `is_encrypted` / `client_uuid` of every open connection -/
  ss : Sessions

/-- operations of a whole-life history -/
inductive HOp
  /-- pair-setup completion, pair-verify exchange or `POST /pairings` -/
  | s (op : SOp)
  /-- `State.increment_config_version` followed by a save (`AccessoryDriver.config_changed`) -/
  | config
  /-- `State.set_accessories_hash(h)`, saved when it returned True (`AccessoryDriver.async_start`) -/
  | hsh (h : Option String)
  /-- the process ends; a fresh one loads the state file (which holds the state of this moment:
      every change above is followed by a save — when that save lands is C15's statement) -/
  | restart
  /-- `AccessoryDriver.async_stop` on the RUNNING driver object: the server closes every connection; the state
      object lives on and `async_start` (= the hash update `hsh`) may run it again (the same object, no load) -/
  | stop

/-- what an operation answers -/
inductive HAns
  /-- answer of `POST /pairings` / outcome of a pair-setup completion, and whether a save was scheduled -/
  | resp (r : Resp) (wrote : Bool)
  /-- pair-verify: M4 without error item ⇔ `ok`; `wrote` = the back-fill saved -/
  | verified (ok : Bool) (wrote : Bool)
  /-- configuration / hash change: whether a save was scheduled -/
  | saved (wrote : Bool)
  /-- restart: whether the state file loaded -/
  | restarted (ok : Bool)
deriving DecidableEq, Repr

/-- one step of a whole-life history -/
def hstep (parse : Bytes → Option Uuid) (w : World) : HOp → World × HAns
  | .s (.setup idb key) =>
    let o := step parse w.acc.ps (.setup idb key)
    ({ acc := { w.acc with ps := o.1 }, ss := w.ss }, .resp o.2.1 o.2.2)
  | .s (.verify c v) =>
    match verifiesAs parse w.acc.ps v with
    | some (u, idb) =>
      ({ acc := { w.acc with ps := (backfill w.acc.ps u idb).1 },
         ss := fun c' => if c' = c then ⟨true, some u⟩ else w.ss c' },
       .verified true (backfill w.acc.ps u idb).2)
    | none => (w, .verified false false)
  | .s (.req c body) =>
    let o := handlePairings parse w.acc.ps ⟨w.ss c, body⟩
    ({ acc := { w.acc with ps := o.1 }, ss := w.ss }, .resp o.2.1 o.2.2)
  | .config => ({ w with acc := incrementConfigVersion w.acc }, .saved true)
  | .hsh h =>
    let r := setAccessoriesHash w.acc h
    ({ w with acc := r.1 }, .saved r.2)
  | .restart =>
    match loadJ (persistJ w.acc) with
    | some a => ({ acc := a, ss := Sessions.fresh }, .restarted true)
    | none => ({ acc := w.acc, ss := Sessions.fresh }, .restarted false)
  | .stop => ({ w with ss := Sessions.fresh }, .saved false)

/-- the world after a history -/
def hrun (parse : Bytes → Option Uuid) (w : World) : List HOp → World
  | [] => w
  | op :: rest => hrun parse (hstep parse w op).1 rest

end Hap.PairState
